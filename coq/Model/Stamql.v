(* Model of the STAMQL parser and printers (src/api/query.rs, src/datavalue.rs):
     parse_dataoperator, parse_qualifiers, parse_text_qualifiers,
     Constraint::parse_offset / Assignment::parse_offset, Constraint::parse,
     Assignment::parse, Query::parse, parse_with_attributes, parse_qualifier,
     parse_select, parse_add, parse_delete, parse_subqueries,
     TryFrom<&str> for Query, DataOperator::to_string, Constraint::to_string,
     Query::to_string, Display for Cursor.
   The model follows the code after the fix: commits of C09 (see notes/C09.md).
   Every fixed-width byte slice is [slice_from] (Panic when out of range / off
   a boundary); every expect / unreachable! is [Panic].  Recursion (nested
   [ ] unions, nested { } sub-queries, the while loops) is bounded by fuel;
   Proofs/Stamql*.v show that a budget of (length input + 1) is never
   exhausted.  Definitions only. *)
From Coq Require Import Ascii String.
From Coq Require Import List ZArith NArith Bool Arith.
Import ListNotations.
From Stam Require Import Model.StamqlLex.
Local Open Scope stamql_scope.

(* ---------- abstract syntax ---------- *)
Inductive qual := QNormal | QMetadata.                 (* SelectionQualifier *)
Inductive depth := DZero | DOne | DMax.                (* AnnotationDepth *)
Definition offset := (cursor * cursor)%type.           (* Offset { begin, end } *)

(* f64 operands: the parser never keeps more than "some float" (a member of an
   unquoted list); programmatically built operators carry a decimal
   (sign, integer part, fraction digits without trailing zero) *)
Inductive flt := FOpaque | FDec (neg : bool) (ip : Z) (frac : list N).

Inductive leaf := LStr (s : str) | LInt (z : Z) | LFlt (f : flt).
Inductive cmp := Gt | Ge | Lt | Le.
Inductive dcmp := DtEq | DtGt | DtGe | DtLt | DtLe.
Inductive base :=
| BNull | BAny | BTrue | BFalse
| BLeaf (l : leaf)                 (* Equals / EqualsInt / EqualsFloat *)
| BCmp (c : cmp) (z : Z)           (* GreaterThan ... (isize) *)
| BCmpF (c : cmp) (f : flt)        (* GreaterThanFloat ... *)
| BDt (c : dcmp) (d : str)         (* ExactDatetime ...; the datetime as its to_rfc3339() text *)
| BOr (l : list leaf).             (* Or(vec![Equals.. | EqualsInt.. | EqualsFloat..]) *)
Inductive dataop := Pos (b : base) | Neg (b : base).   (* Neg b = Not(Box::new(b)) *)

(* TextSelectionOperator: the constructor and whether it carries the default modifiers *)
Inductive relkind := REquals | ROverlaps | REmbeds | REmbedded | RBefore | RAfter
                   | RPrecedes | RSucceeds | RSameBegin | RSameEnd | RSameRange | RInSet.

Inductive constr :=
| CId (id : str)
| CAnnotation (id : str) (q : qual) (d : depth) (o : option offset)
| CResource (id : str) (q : qual) (o : option offset)
| CDataSet (id : str) (q : qual)
| CDataKey (set key : str) (q : qual)
| CSubStore (id : option str)
| CKeyVar (v : str) (q : qual)
| CDataVar (v : str) (q : qual)
| CDataSetVar (v : str) (q : qual)
| CResourceVar (v : str) (q : qual) (o : option offset)
| CTextVar (v : str)
| CSubStoreVar (v : str)
| CTextRel (v : str) (k : relkind) (dflt : bool)
| CKeyValue (set key : str) (op : dataop) (q : qual)
| CValue (op : dataop) (q : qual)
| CKeyValueVar (v : str) (op : dataop) (q : qual)
| CText (t : str) (nocase : bool)
| CRegex (re : str)
| CUnion (l : list constr)
| CAnnotationVar (v : str) (q : qual) (d : depth) (o : option offset)
| CLimit (b e : Z).

Inductive dvalue := VNull | VBool (b : bool) | VString (s : str) | VInt (z : Z).
Inductive selkind := KComposite | KMulti | KDirectional.
Inductive assign :=
| AId (id : str)
| ATarget (name : str) (o : option offset)
| AComplex (k : selkind)
| AData (set key : str) (v : dvalue).

Inductive qtype := QSelect | QDelete | QAdd.
Inductive rtype := RAnnotation | RData | RKey | RText | RResource | RDataSet.

Inductive query :=
| Q (name : option str) (qt : qtype) (optional : bool) (rt : option rtype)
    (assigns : list assign) (cs : list constr) (cattrs : list (list str))
    (subs : list query) (attrs : list str).

Section Parser.
  Variable dt_parse : str -> option str.   (* DateTime::parse_from_rfc3339 -> to_rfc3339 *)
  Variable re_ok : str -> bool.            (* Regex::new(..).is_ok() *)

  Notation get_arg := (get_arg dt_parse).

  (* &s[kw.len()..] *)
  Definition strip (kw : str) (s : str) : outcome str := slice_from (blen kw) s.

  (* ---------- parse_dataoperator ---------- *)
  Definition int_value (v : str) : outcome Z :=          (* parse_int_value (after the fix: Err) *)
    match parse_isize v with Some z => Ok z | None => Err end.
  Definition float_value (v : str) : outcome flt :=
    if is_f64 v then Ok FOpaque else Err.
  Definition dt_value (v : str) : outcome str :=         (* .expect("datetime RFC3339 parsing should work") *)
    match dt_parse v with Some d => Ok d | None => Panic end.
  Definition bool_value (v : str) : outcome base :=
    if str_eqb v K_true then Ok BTrue else if str_eqb v K_false then Ok BFalse else Panic.

  Definition list_item (x : str) : leaf :=
    match parse_isize x with
    | Some z => LInt z
    | None => if is_f64 x then LFlt FOpaque else LStr x
    end.

  Definition eq_base (value : str) (vt : argtype) : outcome base :=
    match vt with
    | TString => Ok (BLeaf (LStr value))
    | TNull => Ok BNull
    | TAny => Ok BAny
    | TBool => bool_value value
    | TInteger => do z <- int_value value; Ok (BLeaf (LInt z))
    | TFloat => do f <- float_value value; Ok (BLeaf (LFlt f))
    | TList => Ok (BOr (map LStr (split_pipe value)))
    | TUnquotedList => Ok (BOr (map list_item (split_pipe value)))
    | TDatetime => do d <- dt_value value; Ok (BDt DtEq d)
    end.

  Definition cmp_base (c : cmp) (value : str) (vt : argtype) : outcome base :=
    match vt with
    | TInteger => do z <- int_value value; Ok (BCmp c z)
    | TFloat => do f <- float_value value; Ok (BCmpF c f)
    | TDatetime => do d <- dt_value value;
                   Ok (BDt (match c with Gt => DtGt | Ge => DtGe | Lt => DtLt | Le => DtLe end) d)
    | _ => Err
    end.

  Definition parse_dataoperator (opstr value : str) (vt : argtype) : outcome dataop :=
    if str_eqb opstr K_EQ then do b <- eq_base value vt; Ok (Pos b)
    else if str_eqb opstr K_NE then
      match vt with
      | TDatetime => Err                (* no ("!=", Datetime) arm *)
      | _ => do b <- eq_base value vt; Ok (Neg b)
      end
    else if str_eqb opstr K_GT then do b <- cmp_base Gt value vt; Ok (Pos b)
    else if str_eqb opstr K_GE then do b <- cmp_base Ge value vt; Ok (Pos b)
    else if str_eqb opstr K_LT then do b <- cmp_base Lt value vt; Ok (Pos b)
    else if str_eqb opstr K_LE then do b <- cmp_base Le value vt; Ok (Pos b)
    else Err.

  (* ---------- parse_qualifiers / parse_text_qualifiers (after the fix) ---------- *)
  Definition parse_qualifiers (arg qs : str) : outcome (str * str * qual * depth) :=
    if str_eqb arg K_AS then
      do (as_arg, remainder, _) <- get_arg qs;
      if str_eqb as_arg K_TARGET || str_eqb as_arg K_METADATA then
        do (newarg, remainder2, _) <- get_arg remainder;
        if str_eqb newarg K_RECURSIVE then
          do (newarg', remainder3, _) <- get_arg remainder2;
          Ok (newarg', remainder3, QMetadata, DMax)
        else Ok (newarg, remainder2, QMetadata, DOne)
      else Err
    else Ok (arg, qs, QNormal, DOne).

  (* result: arg, remainder, nocase, regex *)
  Definition parse_text_qualifiers (arg qs : str) : outcome (str * str * bool * bool) :=
    if str_eqb arg K_AS then
      do (as_arg, remainder, _) <- get_arg qs;
      if str_eqb as_arg K_REGEXP || str_eqb as_arg K_REGEX then
        do (newarg, remainder2, _) <- get_arg remainder; Ok (newarg, remainder2, false, true)
      else if str_eqb as_arg K_NOCASE then
        do (newarg, remainder2, _) <- get_arg remainder; Ok (newarg, remainder2, true, false)
      else Err
    else Ok (arg, qs, false, false).

  (* ---------- parse_offset (Constraint and Assignment: identical) ---------- *)
  Definition cursor_arg (arg : str) : outcome cursor :=
    match cursor_of_str arg with Some c => Ok c | None => Err end.

  Definition parse_offset (qs : str) : outcome (option offset * str) :=
    if negb (closed qs) && starts_with K_OFFSET qs then
      do r <- strip K_OFFSET qs;
      do (arg, remainder, _) <- get_arg (trim_start r);
      do b <- (if str_eqb arg K_WHOLE || str_eqb arg K_ALL then Ok (CB 0) else cursor_arg arg);
      if closed remainder then Ok (Some (b, CE 0), remainder)
      else
        do (arg2, remainder2, _) <- get_arg remainder;
        do e <- cursor_arg arg2;
        Ok (Some (b, e), remainder2)
    else Ok (None, qs).

  (* &arg[1..] after arg.starts_with("?") *)
  Definition var_name (arg : str) : outcome str := slice_from 1 arg.
  Definition is_var (arg : str) : bool := starts_with K_QMARK arg && (1 <? blen arg).

  (* if querystring.starts_with(";") { querystring = &querystring[1..].trim_start() } *)
  Definition eat_semi (qs : str) : outcome str :=
    if starts_with K_SEMI qs then do r <- slice_from 1 qs; Ok (trim_start r) else Ok qs.

  Definition relkind_of (op : str) : option relkind :=
    if str_eqb op (LIT "EQUALS") then Some REquals
    else if str_eqb op (LIT "EMBEDS") then Some REmbeds
    else if str_eqb op (LIT "EMBEDDED") then Some REmbedded
    else if str_eqb op (LIT "OVERLAPS") then Some ROverlaps
    else if str_eqb op (LIT "PRECEDES") then Some RPrecedes
    else if str_eqb op (LIT "SUCCEEDS") then Some RSucceeds
    else if str_eqb op (LIT "SAMEBEGIN") then Some RSameBegin
    else if str_eqb op (LIT "SAMEEND") then Some RSameEnd
    else if str_eqb op (LIT "BEFORE") then Some RBefore
    else if str_eqb op (LIT "AFTER") then Some RAfter
    else None.

  (* ---------- Constraint::parse ---------- *)
  Definition limit_value (arg : str) : outcome Z :=
    match parse_isize arg with Some z => Ok z | None => Err end.

  (* the arms other than "[" ; result: constraint and remaining query string (before eat_semi) *)
  Definition parse_simple_constraint (w qs : str) : outcome (constr * str) :=
    if str_eqb w K_ID then
      do r <- strip K_ID qs;
      do (arg, remainder, _) <- get_arg (trim_start r);
      Ok (CId arg, remainder)
    else if str_eqb w K_TEXT then
      do r <- strip K_TEXT qs;
      do (arg0, remainder0, _) <- get_arg (trim_start r);
      do (arg, remainder, nocase, regex) <- parse_text_qualifiers arg0 remainder0;
      if is_var arg then do v <- var_name arg; Ok (CTextVar v, remainder)
      else if regex then (if re_ok arg then Ok (CRegex arg, remainder) else Err)
      else Ok (CText arg nocase, remainder)
    else if str_eqb w K_ANNOTATION then
      do r <- strip K_ANNOTATION qs;
      do (arg0, remainder0, _) <- get_arg (trim_start r);
      do (arg, remainder1, q, d) <- parse_qualifiers arg0 remainder0;
      do (off, remainder) <- parse_offset remainder1;
      if is_var arg then do v <- var_name arg; Ok (CAnnotationVar v q d off, remainder)
      else Ok (CAnnotation arg q d off, remainder)
    else if str_eqb w K_RESOURCE then
      do r <- strip K_RESOURCE qs;
      do (arg0, remainder0, _) <- get_arg (trim_start r);
      do (arg, remainder1, q, _) <- parse_qualifiers arg0 remainder0;
      do (off, remainder) <- parse_offset remainder1;
      if is_var arg then do v <- var_name arg; Ok (CResourceVar v q off, remainder)
      else Ok (CResource arg q off, remainder)
    else if str_eqb w K_DATASET then
      do r <- strip K_DATASET qs;
      do (arg0, remainder0, _) <- get_arg (trim_start r);
      do (arg, remainder, q, _) <- parse_qualifiers arg0 remainder0;
      if is_var arg then do v <- var_name arg; Ok (CDataSetVar v q, remainder)
      else Ok (CDataSet arg q, remainder)
    else if str_eqb w K_RELATION then
      do r <- strip K_RELATION qs;
      do (var, remainder, _) <- get_arg (trim_start r);
      if negb (starts_with K_QMARK var) then Err else
      do (op, remainder2, _) <- get_arg remainder;
      match relkind_of op with
      | Some k => do v <- var_name var; Ok (CTextRel v k true, remainder2)
      | None => Err
      end
    else if str_eqb w K_DATA then
      do r <- strip K_DATA qs;
      do (arg0, remainder0, _) <- get_arg (trim_start r);
      do (arg, remainder, q, _) <- parse_qualifiers arg0 remainder0;
      if starts_with K_QMARK arg then do v <- var_name arg; Ok (CDataVar v q, remainder)
      else
        do (key, remainder2, _) <- get_arg remainder;
        if closed remainder2 then Ok (CDataKey arg key q, remainder2)
        else
          do (opstr, remainder3, _) <- get_arg remainder2;
          do (value, remainder4, vt) <- get_arg remainder3;
          do op <- parse_dataoperator opstr value vt;
          Ok (CKeyValue arg key op q, remainder4)
    else if str_eqb w K_VALUE then
      do r <- strip K_VALUE qs;
      do (arg0, remainder0, _) <- get_arg (trim_start r);
      do (opstr, remainder1, q, _) <- parse_qualifiers arg0 remainder0;
      do (value, remainder, vt) <- get_arg remainder1;
      do op <- parse_dataoperator opstr value vt;
      Ok (CValue op q, remainder)
    else if str_eqb w K_KEY then
      do r <- strip K_KEY qs;
      do (arg0, remainder0, _) <- get_arg (trim_start r);
      do (arg, remainder, q, _) <- parse_qualifiers arg0 remainder0;
      if is_var arg then do v <- var_name arg; Ok (CKeyVar v q, remainder) else Err
    else if str_eqb w K_SUBSTORE then
      do r <- strip K_SUBSTORE qs;
      do (arg, remainder, _) <- get_arg (trim_start r);
      if is_var arg then do v <- var_name arg; Ok (CSubStoreVar v, remainder)
      else if str_eqb arg K_NONE || match arg with [] => true | _ => false end
      then Ok (CSubStore None, remainder)
      else Ok (CSubStore (Some arg), remainder)
    else if str_eqb w K_LIMIT then
      do r <- strip K_LIMIT qs;
      do (arg, remainder, _) <- get_arg (trim_start r);
      do a <- limit_value arg;
      if closed remainder then
        (if (0 <=? a)%Z then Ok (CLimit 0 a, remainder) else Ok (CLimit a 0, remainder))
      else
        do (e, remainder2, _) <- get_arg remainder;
        do ev <- limit_value e;
        Ok (CLimit a ev, remainder2)
    else Err.

  (* the while loop of the "[" arm; [pc] is Constraint::parse one nesting level down *)
  Fixpoint union_loop (pc : str -> outcome (constr * list str * str)) (n : nat)
           (subs : list constr) (q : str) {struct n} : outcome (list constr * str) :=
    match q with
    | [] => Ok (subs, q)
    | _ =>
        match n with
        | 0 => Fuel
        | S n' =>
            do (sub, _, remainder0) <- pc q;
            let remainder := trim_start remainder0 in
            if starts_with K_OR_ remainder then
              do q' <- slice_from 3 remainder; union_loop pc n' (subs ++ [sub]) q'
            else if starts_with K_RBRACKET remainder then
              do q' <- slice_from 1 remainder; Ok (subs ++ [sub], q')
            else match remainder with
                 | [] => Ok (subs ++ [sub], remainder)
                 | _ => Err
                 end
        end
    end.

  (* fuel: nesting depth of [ ] *)
  Fixpoint parse_constraint (fuel : nat) (qs0 : str) : outcome (constr * list str * str) :=
    match fuel with
    | 0 => Fuel
    | S f =>
        do (attributes, qs) <- parse_attributes qs0;
        let w := split_first qs in
        if str_eqb w K_LBRACKET then
          do r <- slice_from 1 qs;
          do (subs, rest) <- union_loop (parse_constraint f) f [] (trim_start r);
          match subs with
          | [] => Err
          | _ => do rest' <- eat_semi rest; Ok (CUnion subs, attributes, rest')
          end
        else
          do (c, rest) <- parse_simple_constraint w qs;
          do rest' <- eat_semi rest;
          Ok (c, attributes, rest')
    end.

  (* ---------- Assignment::parse ---------- *)
  Definition parse_assignment (qs : str) : outcome (assign * str) :=
    let w := split_first qs in
    do (a, rest) <-
      (if str_eqb w K_ID then
         do r <- strip K_ID qs;
         do (arg, remainder, _) <- get_arg (trim_start r);
         Ok (AId arg, remainder)
       else if str_eqb w K_DATA then
         do r <- strip K_DATA qs;
         do (set, remainder, _) <- get_arg (trim_start r);
         do (key, remainder2, _) <- get_arg remainder;
         if closed remainder2 then Ok (AData set key VNull, remainder2)
         else
           do (value, remainder3, vt) <- get_arg remainder2;
           match vt with
           | TBool => Ok (AData set key (VBool (str_eqb value K_true)), remainder3)
           | TInteger => do z <- int_value value; Ok (AData set key (VInt z), remainder3)
           | TFloat | TString => Ok (AData set key (VString value), remainder3)
           | TNull => Ok (AData set key VNull, remainder3)
           | _ => Err
           end
       else if str_eqb w K_TARGET then
         do r <- strip K_TARGET qs;
         do (name, remainder) <- parse_name (trim_start r);
         match name with
         | Some n => do (off, remainder2) <- parse_offset remainder; Ok (ATarget n off, remainder2)
         | None => Err
         end
       else if str_eqb w K_COMPOSITE then
         do r <- strip K_COMPOSITE qs; Ok (AComplex KComposite, trim_start r)
       else if str_eqb w K_MULTI then
         do r <- strip K_MULTI qs; Ok (AComplex KMulti, trim_start r)
       else if str_eqb w K_DIRECTIONAL then
         do r <- strip K_DIRECTIONAL qs; Ok (AComplex KDirectional, trim_start r)
       else Err);
    do rest' <- eat_semi rest;
    Ok (a, rest').

  (* ---------- the query level ---------- *)
  Definition stop_char (qs : str) (with_pipe : bool) : bool :=
    let c := first_nonspace qs in
    first_is c_lbrace c || first_is c_rbrace c || (with_pipe && first_is c_pipe c).

  (* while !qs.is_empty() && first non-space not in { } | : Constraint::parse *)
  Fixpoint constraints_loop (F : nat) (n : nat) (cs : list constr) (cas : list (list str)) (qs : str)
    : outcome (list constr * list (list str) * str) :=
    match qs with
    | [] => Ok (cs, cas, qs)
    | _ =>
        if stop_char qs true then Ok (cs, cas, qs) else
        match n with
        | 0 => Fuel
        | S n' =>
            do (c, ca, remainder) <- parse_constraint F qs;
            constraints_loop F n' (cs ++ [c]) (cas ++ [ca]) remainder
        end
    end.

  Fixpoint assignments_loop (n : nat) (acc : list assign) (qs : str) : outcome (list assign * str) :=
    match qs with
    | [] => Ok (acc, qs)
    | _ =>
        if stop_char qs false then Ok (acc, qs) else
        match n with
        | 0 => Fuel
        | S n' =>
            do (a, remainder) <- parse_assignment qs;
            assignments_loop n' (acc ++ [a]) remainder
        end
    end.

  Definition parse_qualifier (qs : str) : outcome (bool * str) :=
    if str_eqb (split_first qs) K_OPTIONAL
    then do r <- strip K_OPTIONAL qs; Ok (true, trim_start r)
    else Ok (false, qs).

  Definition select_resulttype (w : str) : option (rtype * str) :=
    if str_eqb w K_ANNOTATION || str_eqb w K_annotation then Some (RAnnotation, K_ANNOTATION)
    else if str_eqb w K_DATA || str_eqb w K_data then Some (RData, K_DATA)
    else if str_eqb w K_KEY || str_eqb w K_key then Some (RKey, K_KEY)
    else if str_eqb w K_TEXT || str_eqb w K_text then Some (RText, K_TEXT)
    else if str_eqb w K_RESOURCE || str_eqb w K_resource then Some (RResource, K_RESOURCE)
    else if str_eqb w K_DATASET || str_eqb w K_dataset then Some (RDataSet, K_DATASET)
    else None.

  (* the match after parse_name: WHERE / WITH, or nothing *)
  Definition where_clause (kw : str) (allow_close : bool) (qs : str) : outcome str :=
    let w := split_first qs in
    if str_eqb w kw then do r <- strip kw qs; Ok (trim_start r)
    else if str_eqb w K_LBRACE || match w with [] => true | _ => false end then Ok qs
    else if allow_close && (starts_with [c_rbrace] w || starts_with [c_pipe] w) then Ok qs
    else Err.

  (* the loop of parse_subqueries; [ps] is parse_select one nesting level down *)
  Fixpoint sub_loop (ps : str -> list str -> outcome (query * str)) (n : nat)
           (subs : list query) (q : str) {struct n} : outcome (list query * str) :=
    match n with
    | 0 => Fuel
    | S n' =>
        do r <- slice_from 1 q;
        do (attrs, q1) <- parse_attributes (trim_start r);
        do (subs', q2) <-
          (if starts_with K_SELECT q1
           then do (sub, remainder) <- ps q1 attrs;
                Ok (subs ++ [sub], trim_start remainder)
           else Ok (subs, q1));
        if first_is c_rbrace (first_nonspace q2) then
          do r' <- slice_from 1 q2; Ok (subs', trim_start r')
        else if first_is c_pipe (first_nonspace q2) then sub_loop ps n' subs' q2
        else Err
    end.

  Definition subqueries_with (ps : str -> list str -> outcome (query * str)) (F : nat) (qs : str)
    : outcome (list query * str) :=
    if first_is c_lbrace (first_nonspace qs) then sub_loop ps F [] (trim_start qs) else Ok ([], qs).

  (* F: budget for every loop and for the nesting of unions; fuel: nesting of { } *)
  Fixpoint parse_select (F : nat) (fuel : nat) (qs0 : str) (attributes : list str)
    : outcome (query * str) :=
    match fuel with
    | 0 => Fuel
    | S f =>
        do r0 <- strip K_SELECT qs0;
        do (optional, qs1) <- parse_qualifier (trim_start r0);
        match select_resulttype (split_first qs1) with
        | None => Err
        | Some (rt, kw) =>
            do r2 <- strip kw qs1;
            do (name, qs3) <- parse_name (trim_start r2);
            do qs4 <- where_clause K_WHERE true qs3;
            do (cs, cas, qs5) <- constraints_loop F F [] [] qs4;
            do (subs, qs6) <- subqueries_with (parse_select F f) F qs5;
            Ok (Q name QSelect optional (Some rt) [] cs cas subs attributes, qs6)
        end
    end.

  (* Query::parse_subqueries (mutable = false: only SELECT sub-queries) *)
  Definition parse_subqueries (F fuel : nat) (qs : str) := subqueries_with (parse_select F fuel) F qs.

  Definition add_resulttype (w : str) : bool := str_eqb w K_ANNOTATION || str_eqb w K_annotation.

  Definition parse_add (F : nat) (qs0 : str) (attributes : list str) : outcome (query * str) :=
    do r0 <- strip K_ADD qs0;
    let qs1 := trim_start r0 in
    if add_resulttype (split_first qs1) then
      do r2 <- strip K_ANNOTATION qs1;
      do (name, qs3) <- parse_name (trim_start r2);
      do qs4 <- where_clause K_WITH false qs3;
      do (asg, qs5) <- assignments_loop F [] qs4;
      do (subs, qs6) <- parse_subqueries F F qs5;
      Ok (Q name QAdd false (Some RAnnotation) asg [] [] subs attributes, qs6)
    else Err.

  Definition parse_delete (F : nat) (qs0 : str) (attributes : list str) : outcome (query * str) :=
    do r0 <- strip K_DELETE qs0;
    let qs1 := trim_start r0 in
    if add_resulttype (split_first qs1) then
      do r2 <- strip K_ANNOTATION qs1;
      do (name, qs3) <- parse_name (trim_start r2);
      do (subs, qs6) <- parse_subqueries F F qs3;
      Ok (Q name QDelete false (Some RAnnotation) [] [] [] subs attributes, qs6)
    else Err.

  Definition parse_with_attributes (F : nat) (qs0 : str) (attributes : list str) : outcome (query * str) :=
    let qs := trim qs0 in
    let w := split_first qs in
    if str_eqb w K_SELECT then parse_select F F qs attributes
    else if str_eqb w K_ADD then parse_add F qs attributes
    else if str_eqb w K_DELETE then parse_delete F qs attributes
    else Err.

  (* Query::parse *)
  Definition parse_query_fuel (F : nat) (s : str) : outcome (query * str) :=
    do (attributes, qs) <- parse_attributes (trim s);
    parse_with_attributes F qs attributes.

  Definition parse_query (s : str) : outcome (query * str) := parse_query_fuel (S (length s)) s.

  (* TryFrom<&str> for Query *)
  Definition query_try_from (s : str) : outcome query :=
    do (q, remainder) <- parse_query s;
    match trim remainder with [] => Ok q | _ => Err end.
End Parser.

(* ---------- printers ---------- *)
(* Result<String, StamError>: None = Err ("There is no query syntax yet ...") *)
Definition sp : str := [c_space].
Definition quoted (s : str) : str := c_dquote :: s ++ [c_dquote].

Fixpoint print_frac (l : list N) : str :=
  match l with [] => [] | d :: l' => (d + 48)%N :: print_frac l' end.
(* Display for f64 of a short decimal *)
Definition print_flt (f : flt) : str :=
  match f with
  | FOpaque => LIT "NaN"
  | FDec neg ip frac =>
      (if neg then [c_minus] else []) ++ print_nat_Z ip
      ++ match frac with [] => [] | _ => c_period :: print_frac frac end
  end.

Definition print_leaf_eq (l : leaf) : str :=
  match l with
  | LStr s => LIT "= " ++ quoted s
  | LInt z => LIT "= " ++ print_Z z
  | LFlt f => LIT "= " ++ print_flt f
  end.

Definition cmp_str (c : cmp) : str :=
  match c with Gt => LIT "> " | Ge => LIT ">= " | Lt => LIT "< " | Le => LIT "<= " end.
Definition dcmp_str (c : dcmp) : str :=
  match c with DtEq => LIT "= " | DtGt => LIT "> " | DtGe => LIT ">= " | DtLt => LIT "< " | DtLe => LIT "<= " end.

Definition print_base (b : base) : option str :=
  match b with
  | BAny => Some (LIT "= any")
  | BNull => Some (LIT "= null")
  | BTrue => Some (LIT "= true")
  | BFalse => Some (LIT "= false")
  | BLeaf l => Some (print_leaf_eq l)
  | BCmp c z => Some (cmp_str c ++ print_Z z)
  | BCmpF c f => Some (cmp_str c ++ print_flt f)
  | BDt c d => Some (dcmp_str c ++ d)
  | BOr _ => None
  end.

Definition print_dataop (o : dataop) : option str :=
  match o with
  | Pos b => print_base b
  | Neg b =>
      match b with
      | BLeaf _ | BAny | BNull | BTrue | BFalse =>
          match print_base b with Some s => Some (LIT "!" ++ s) | None => None end
      | _ => None
      end
  end.

Definition qual_str (q : qual) : str :=
  match q with QNormal => [] | QMetadata => LIT " AS METADATA" end.
Definition depth_str (d : depth) : str :=
  match d with DMax => LIT " RECURSIVE" | _ => sp end.
Definition print_offset (o : option offset) : str :=
  match o with
  | Some (b, e) => LIT " OFFSET " ++ print_cursor b ++ sp ++ print_cursor e
  | None => []
  end.
Definition relkind_str (k : relkind) : str :=
  match k with
  | REquals => LIT "EQUALS" | ROverlaps => LIT "OVERLAPS" | REmbeds => LIT "EMBEDS"
  | REmbedded => LIT "EMBEDDED" | RBefore => LIT "BEFORE" | RAfter => LIT "AFTER"
  | RPrecedes => LIT "PRECEDES" | RSucceeds => LIT "SUCCEEDS" | RSameBegin => LIT "SAMEBEGIN"
  | RSameEnd => LIT "SAMEEND" | RSameRange => LIT "SAMERANGE" | RInSet => LIT "INSET"
  end.

Definition semi : str := [c_semicolon].

Fixpoint print_constraint (c : constr) : option str :=
  match c with
  | CId id => Some (LIT "ID " ++ quoted id ++ semi)
  | CDataKey set key q => Some (LIT "DATA" ++ qual_str q ++ sp ++ quoted set ++ sp ++ quoted key ++ semi)
  | CKeyValue set key op q =>
      match op with
      | Pos BAny => Some (LIT "DATA" ++ qual_str q ++ sp ++ quoted set ++ sp ++ quoted key ++ semi)
      | _ => match print_dataop op with
             | Some o => Some (LIT "DATA" ++ qual_str q ++ sp ++ quoted set ++ sp ++ quoted key ++ sp ++ o ++ semi)
             | None => None
             end
      end
  | CValue op q =>
      match print_dataop op with
      | Some o => Some (LIT "VALUE" ++ qual_str q ++ sp ++ o ++ semi)
      | None => None
      end
  | CKeyVar v q => Some (LIT "KEY" ++ qual_str q ++ LIT " ?" ++ v ++ semi)
  | CKeyValueVar v op q =>
      match print_dataop op with
      | Some o => Some (LIT "DATA" ++ qual_str q ++ LIT " ?" ++ v ++ sp ++ o ++ semi)
      | None => None
      end
  | CAnnotationVar v q d o =>
      Some (LIT "ANNOTATION" ++ qual_str q ++ depth_str d ++ LIT " ?" ++ v ++ print_offset o ++ semi)
  | CDataVar v q => Some (LIT "DATA" ++ qual_str q ++ LIT " ?" ++ v ++ semi)
  | CDataSetVar v q => Some (LIT "DATASET" ++ qual_str q ++ LIT " ?" ++ v ++ semi)
  | CResourceVar v q o => Some (LIT "RESOURCE" ++ qual_str q ++ LIT " ?" ++ v ++ print_offset o ++ semi)
  | CTextVar v => Some (LIT "TEXT ?" ++ v ++ semi)
  | CSubStoreVar v => Some (LIT "SUBSTORE ?" ++ v ++ semi)
  | CAnnotation id q d o =>
      Some (LIT "ANNOTATION" ++ qual_str q ++ depth_str d ++ sp ++ quoted id ++ print_offset o ++ semi)
  | CResource id q o => Some (LIT "RESOURCE" ++ qual_str q ++ sp ++ quoted id ++ print_offset o ++ semi)
  | CDataSet id q => Some (LIT "DATASET" ++ qual_str q ++ sp ++ quoted id ++ semi)
  | CSubStore (Some id) => Some (LIT "SUBSTORE " ++ quoted id ++ semi)
  | CSubStore None => Some (LIT "SUBSTORE NONE;")
  | CText t false => Some (LIT "TEXT " ++ quoted t ++ semi)
  | CText t true => Some (LIT "TEXT AS NOCASE " ++ quoted t ++ semi)
  | CRegex re => Some (LIT "TEXT AS REGEX " ++ quoted re ++ semi)
  | CTextRel v k _ => Some (LIT "RELATION ?" ++ v ++ sp ++ relkind_str k ++ semi)
  | CUnion l =>
      match
        (fix go (l : list constr) : option str :=
           match l with
           | [] => Some []
           | c :: l' =>
               match print_constraint c, go l' with
               | Some s, Some r => Some (s ++ match l' with [] => [] | _ => LIT " OR " end ++ r)
               | _, _ => None
               end
           end) l
      with
      | Some body => Some (LIT "[ " ++ body ++ LIT " ];")
      | None => None
      end
  | CLimit b e => Some (LIT " LIMIT " ++ print_Z b ++ sp ++ print_Z e ++ semi)
  end.

Definition qtype_str (t : qtype) : str :=
  match t with QSelect => LIT "SELECT" | QDelete => LIT "DELETE" | QAdd => LIT "ADD" end.
Definition rtype_str (t : rtype) : str :=
  match t with
  | RAnnotation => LIT "ANNOTATION" | RData => LIT "DATA" | RKey => LIT "KEY"
  | RText => LIT "TEXT" | RResource => LIT "RESOURCE" | RDataSet => LIT "DATASET"
  end.

Definition print_attrs (l : list str) : str := flat_map (fun a => a ++ sp) l.

(* the constraints are printed from constraints zipped with constraint_attributes *)
Fixpoint print_constraints (cs : list constr) (cas : list (list str)) : option str :=
  match cs, cas with
  | c :: cs', ca :: cas' =>
      match print_constraint c, print_constraints cs' cas' with
      | Some s, Some r => Some ([c_tab] ++ print_attrs ca ++ s ++ [c_nl] ++ r)
      | _, _ => None
      end
  | _, _ => Some []
  end.

Fixpoint print_query (q : query) : option str :=
  match q with
  | Q name qt optional rt _ cs cas subs attrs =>
      let head :=
        print_attrs attrs ++ qtype_str qt ++ sp
        ++ (if optional then LIT "OPTIONAL " else [])
        ++ match rt with Some t => rtype_str t | None => [] end
        ++ match name with Some n => LIT " ?" ++ n | None => [] end in
      match (match cs with
             | [] => Some []
             | _ => match print_constraints cs cas with
                    | Some s => Some (LIT " WHERE" ++ [c_nl] ++ s)
                    | None => None
                    end
             end) with
      | None => None
      | Some body =>
          match subs with
          | [] => Some (head ++ body)
          | _ =>
              match
                (fix go (first : bool) (l : list query) : option str :=
                   match l with
                   | [] => Some []
                   | s :: l' =>
                       match print_query s, go false l' with
                       | Some t, Some r => Some ((if first then [] else [c_nl; c_pipe]) ++ sp ++ t ++ r)
                       | _, _ => None
                       end
                   end) true subs
              with
              | Some ss => Some (head ++ body ++ [c_nl; c_lbrace; c_nl] ++ ss ++ [c_nl; c_rbrace])
              | None => None
              end
          end
      end
  end.
