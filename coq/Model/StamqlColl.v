(* Model of the collection arms of Constraint::to_string (src/api/query.rs):
     Constraint::Annotations / Data / Keys / Resources / TextSelections,
   constraints that carry a Handles collection resolved against a store.  An item
   is given as what the store says about it (identifiers, key, value, range);
   the printer writes one alternative per item, in order, joined by OR.
   [item_constr] is the constraint each alternative stands for: parsing the
   printed collection must yield the Union of these. *)
From Coq Require Import Ascii String.
From Coq Require Import List ZArith NArith Bool Arith.
Import ListNotations.
From Stam Require Import Model.StamqlLex Model.Stamql.

Inductive citem :=
| IAnn (id : str)                       (* public id, or the temporary id "!A<handle>" *)
| IData (set key : str) (op : dataop)   (* data.value().into() *)
| IKey (set key : str)
| IRes (id : str)
| ITsel (res : str) (b e : Z).

Definition print_citem (q : qual) (d : depth) (it : citem) : option str :=
  match it with
  | IAnn id => Some (LIT "ANNOTATION" ++ qual_str q ++ depth_str d ++ sp ++ quoted id)
  | IData set key op =>
      match print_dataop op with
      | Some o => Some (LIT "DATA" ++ qual_str q ++ sp ++ quoted set ++ sp ++ quoted key ++ sp ++ o)
      | None => None
      end
  | IKey set key => Some (LIT "DATA" ++ qual_str q ++ sp ++ quoted set ++ sp ++ quoted key)
  | IRes id => Some (LIT "RESOURCE" ++ qual_str q ++ sp ++ quoted id)
  | ITsel r b e => Some (LIT "RESOURCE" ++ qual_str q ++ sp ++ quoted r ++ LIT " OFFSET " ++ print_Z b ++ sp ++ print_Z e)
  end.

Fixpoint print_citems (q : qual) (d : depth) (l : list citem) : option str :=
  match l with
  | [] => Some []
  | it :: l' =>
      match print_citem q d it, print_citems q d l' with
      | Some s, Some r => Some (s ++ match l' with [] => [] | _ => LIT " OR " end ++ r)
      | _, _ => None
      end
  end.

Definition print_coll (q : qual) (d : depth) (l : list citem) : option str :=
  match print_citems q d l with
  | Some body => Some (LIT "[ " ++ body ++ LIT " ];")
  | None => None
  end.

(* Query::to_string of SELECT <rt> ?name with this one constraint *)
Definition print_coll_query (name : str) (rt : rtype) (q : qual) (d : depth) (l : list citem) : option str :=
  match print_coll q d l with
  | Some c => Some (LIT "SELECT " ++ rtype_str rt ++ LIT " ?" ++ name ++ LIT " WHERE" ++ [c_nl; c_tab] ++ c ++ [c_nl])
  | None => None
  end.

Definition item_constr (q : qual) (d : depth) (it : citem) : constr :=
  match it with
  | IAnn id => CAnnotation id q d None
  | IData set key op => CKeyValue set key op q
  | IKey set key => CDataKey set key q
  | IRes id => CResource id q None
  | ITsel r b e => CResource r q (Some (CB b, CB e))
  end.

Definition coll_query (name : str) (rt : rtype) (q : qual) (d : depth) (l : list citem) : query :=
  Q (Some name) QSelect false (Some rt) [] [CUnion (map (item_constr q d) l)] [[]] [] [].
