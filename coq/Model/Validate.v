(* Model of text validation:
     src/textvalidation.rs     TextValidationMode, AnnotationStore::{protect_text, validate_text},
                               ResultItem<Annotation>::{text_checksum, text_validation_delimiter,
                               validation_checksum, validation_text, validate_text}
     src/api/annotation.rs     textselections(), text_join()
     src/api/textselection.rs  TextSelectionIterator::text_join
     src/annotationstore.rs    textselections_by_selector, the ordering of subselectors()
     src/api.rs                IteratorToValue::value_as_str
   on top of the store model (Model/Store.v).  The store model knows the length of a resource
   and its text selections; the texts themselves are kept beside it as a list indexed by resource
   handle.  The SHA-1 + lower-case hex digest is a parameter [H] (a string to a string).
   Identifiers of the validation vocabulary are tokens like every other public id of the store
   model; the harness maps them to the strings of the code:
     VSET  "https://w3id.org/stam/extensions/stam-textvalidation/"
     KCHK  "checksum"    KTXT  "text"    KDEL  "delimiter"
   Executable definitions only. *)
From Coq Require Import List Arith Bool ZArith NArith.
Import ListNotations.
From Stam Require Import Model.Offset Model.Utf8 Model.Store.

Definition VSET := 78.
Definition KCHK := 90.
Definition KTXT := 91.
Definition KDEL := 92.

Fixpoint text_eqb (x y : text) : bool :=
  match x, y with
  | [], [] => true
  | c :: x', d :: y' => N.eqb c d && text_eqb x' y'
  | _, _ => false
  end.

Definition is_nil {X} (l : list X) : bool := match l with [] => true | _ => false end.
Definition is_none {X} (o : option X) : bool := match o with None => true | Some _ => false end.

Fixpoint omap {X Y} (f : X -> option Y) (l : list X) : list Y :=
  match l with
  | [] => []
  | x :: l' => match f x with Some y => y :: omap f l' | None => omap f l' end
  end.

(** * The text selections of an annotation, in the order the code walks them *)

(* textselections_by_selector on a leaf: only selectors that carry a text selection *)
Definition leaf_tsel (lf : leaf) : option (nat * nat) :=
  match lf with
  | LText r t _ | LAnnText _ r t _ => Some (r, t)
  | _ => None
  end.

(* FromHandles: (resource, text selection) -> resource and range; what does not resolve is skipped *)
Definition tsel_range (s : store) (rt : nat * nat) : option (nat * (nat * nat)) :=
  match get_res s (fst rt) with
  | Some rs => match nth_error (r_sels rs) (snd rt) with
               | Some rg => Some (fst rt, rg)
               | None => None
               end
  | None => None
  end.

(* the comparator of subselectors() on selectors with text: resource, then begin, then end *)
Definition range_leb (x y : nat * (nat * nat)) : bool :=
  if fst x <? fst y then true
  else if fst y <? fst x then false
  else if fst (snd x) <? fst (snd y) then true
  else if fst (snd y) <? fst (snd x) then false
  else snd (snd x) <=? snd (snd y).

Fixpoint ins_range (x : nat * (nat * nat)) (l : list (nat * (nat * nat))) : list (nat * (nat * nat)) :=
  match l with
  | [] => [x]
  | y :: l' => if range_leb x y then x :: l else y :: ins_range x l'
  end.
Definition sort_ranges (l : list (nat * (nat * nat))) : list (nat * (nat * nat)) := fold_right ins_range [] l.

(* Multi and Composite selectors were stored in textual order (sort_unstable_by: entries that
   compare equal select the same range); simple and Directional selectors as given *)
Definition ann_ranges (s : store) (a : ann) : list (nat * (nat * nat)) :=
  let l := omap (tsel_range s) (omap leaf_tsel (a_leaves a)) in
  if Nat.eqb (a_kind a) 1 || Nat.eqb (a_kind a) 2 then sort_ranges l else l.

Definition piece (txts : list text) (x : nat * (nat * nat)) : text :=
  sub (nth (fst x) txts []) (fst (snd x)) (snd (snd x)).

Definition ann_pieces (txts : list text) (s : store) (a : ann) : list text :=
  map (piece txts) (ann_ranges s a).

(* TextSelectionIterator::text_join: the delimiter goes in front of a piece only when something
   has been collected already *)
Fixpoint join_from (d acc : text) (ps : list text) : text :=
  match ps with
  | [] => acc
  | p :: ps' => join_from d ((if is_nil acc then acc else acc ++ d) ++ p) ps'
  end.
Definition text_join (d : text) (ps : list text) : text := join_from d [] ps.

(** * Validation information carried by an annotation *)

(* AnnotationStore::key(set, key) *)
Definition vkey (s : store) (ktok : nat) : option (nat * nat) :=
  match ref_set s (ById VSET) with
  | Some d =>
      match get_set s d with
      | Some ds => match ref_key ds (ById ktok) with Some k => Some (d, k) | None => None end
      | None => None
      end
  | None => None
  end.

(* annotation.data().filter_key(key).value_as_str(): the first data item of the annotation under
   that key whose value is a string *)
Definition data_str (s : store) (dk : nat * nat) (dx : nat * nat) : option text :=
  if Nat.eqb (fst dx) (fst dk) then
    match get_set s (fst dx) with
    | Some ds =>
        match slot (d_data ds) (snd dx) with
        | Some it => if Nat.eqb (x_key it) (snd dk)
                     then match x_val it with VStr v => Some v | _ => None end
                     else None
        | None => None
        end
    | None => None
    end
  else None.

Definition ann_vstr (s : store) (a : ann) (ktok : nat) : option text :=
  match vkey s ktok with
  | Some dk => hd_error (omap (data_str s dk) (a_data a))
  | None => None
  end.

Definition odflt (o : option text) : text := match o with Some d => d | None => [] end.

Section Digest.
Variable H : text -> text.      (* Sha1 + base16ct::lower *)

(* text_checksum *)
Definition text_checksum (j : text) : option text := if is_nil j then None else Some (H j).

Definition otext_eqb (a b : option text) : bool :=
  match a, b with
  | Some x, Some y => text_eqb x y
  | None, None => true
  | _, _ => false
  end.

(* ResultItem<Annotation>::validate_text, on the strings of its text selections *)
Definition validate_on (s : store) (a : ann) (ps : list text) : option bool :=
  let delim := odflt (ann_vstr s a KDEL) in
  let j := text_join delim ps in
  match ann_vstr s a KCHK with
  | Some refsum =>
      if negb (otext_eqb (text_checksum j) (Some refsum)) then Some false
      else match ann_vstr s a KTXT with
           | Some reftext => if negb (text_eqb reftext j) then Some false else Some true
           | None => Some true
           end
  | None =>
      match ann_vstr s a KTXT with
      | Some reftext => if negb (text_eqb reftext j) then Some false else Some true
      | None => None
      end
  end.

Definition validate_ann (txts : list text) (s : store) (a : ann) : option bool :=
  validate_on s a (ann_pieces txts s a).

(** * protect_text *)

(* 0 Checksum, 1 Text, 2 Both, 3 Auto: (do_checksum, do_text) *)
Definition mode_flags (m textlen : nat) : bool * bool :=
  match m with
  | 0 => (true, false)
  | 1 => (false, true)
  | 2 => (true, true)
  | _ => if textlen <? 40 then (false, true) else (true, false)
  end.

Definition ranges_len (l : list (nat * (nat * nat))) : nat :=
  fold_left (fun n x => n + (snd (snd x) - fst (snd x))) l 0.

(* the two queues built by the first loop: (annotation handle, value) *)
Definition queue_one (txts : list text) (s : store) (m : nat) (q : list (nat * text) * list (nat * text)) (h : nat)
  : list (nat * text) * list (nat * text) :=
  match get_ann s h with
  | None => q
  | Some a =>
      let '(do_checksum, do_text) := mode_flags m (ranges_len (ann_ranges s a)) in
      let j := text_join (odflt (ann_vstr s a KDEL)) (ann_pieces txts s a) in
      let qc :=
        if do_checksum && is_none (ann_vstr s a KCHK) then
          match text_checksum j with Some c => fst q ++ [(h, c)] | None => fst q end
        else fst q in
      let qt :=
        if do_text && is_none (ann_vstr s a KTXT) then
          if is_nil j then snd q else snd q ++ [(h, j)]
        else snd q in
      (qc, qt)
  end.

Definition protect_queues (txts : list text) (s : store) (m : nat) : list (nat * text) * list (nat * text) :=
  fold_left (queue_one txts s m) (seq 0 (length (anns s))) ([], []).

Definition ann_add_data (a : ann) (dx : nat * nat) : ann :=
  mkann (a_id a) (a_data a ++ [dx]) (a_kind a) (a_leaves a).

(* index_validation_data: the annotation goes into the row of the data item at its place in
   handle order (the item may be shared with later annotations); a row that does not exist yet is
   created by TripleRelationMap::insert *)
Definition tins_sorted (m : tmap) (x y z : nat) : tmap :=
  if (x <? length m) && (y <? length (nth x m []))
  then tupd m x (fun r => rupd r y (ins_sorted z))
  else tins m x y z.

(* one round of the second loop: insert_data(BuildItem::None, key, value, true), Annotation::add_data,
   index_validation_data; [ok = false] once a `?` has returned *)
Definition protect_add (ktok sh : nat) (acc : store * bool) (hv : nat * text) : store * bool :=
  let '(s, ok) := acc in
  if negb ok then acc
  else
    match get_set s sh with
    | None => (s, false)
    | Some ds =>
        match dset_insert_data ds None (Some (ById ktok)) (VStr (snd hv)) with
        | (ds', OOk x) =>
            let s1 := set_sets s (set_slot (sets s) sh (Some ds')) in
            match get_ann s1 (fst hv) with
            | None => (s1, false)
            | Some a =>
                let s2 := set_anns s1 (set_slot (anns s1) (fst hv) (Some (ann_add_data a (sh, x)))) in
                (set_ddam s2 (tins_sorted (ddam s2) sh x (fst hv)), true)
            end
        | (ds', _) => (set_sets s (set_slot (sets s) sh (Some ds')), false)
        end
    end.

Definition protect (txts : list text) (s : store) (m : nat) : store * out :=
  let '(qc, qt) := protect_queues txts s m in
  let '(s1, sh) :=
    match ref_set s (ById VSET) with
    | Some h => (s, Some h)
    | None => match add_set s VSET with
              | (s', OOk h) => (s', Some h)
              | (s', _) => (s', None)
              end
    end in
  match sh with
  | None => (s1, OPanic)                    (* panic!("Set must exist") *)
  | Some sh =>
      let '(s2, ok2) := fold_left (protect_add KCHK sh) qc (s1, true) in
      let '(s3, ok3) := fold_left (protect_add KTXT sh) qt (s2, ok2) in
      (s3, if ok3 then OOk 0 else OErr)
  end.

(* validate_text: one verdict per annotation slot, and the three counters *)
Definition validate_all (txts : list text) (s : store) : list (option (option bool)) :=
  map (fun h => match get_ann s h with
                | Some a => Some (validate_ann txts s a)
                | None => None
                end) (seq 0 (length (anns s))).

End Digest.

(** * The same offsets against texts of other lengths
   What loading the store's own serialisation against resources of the lengths [lens] resolves:
   every text selector is written with the offset Selector::offset_with_mode reports (in the
   alignment it was given in) and resolved again by TextResource::textselection_by_offset; an
   annotation-relative selector is written relative to the (single) text selection of its parent
   and resolved against the parent's new selection.  One failure refuses the whole store. *)

Definition omode_of_nat (m : nat) : omode :=
  match m with 0 => BeginBegin | 1 => BeginEnd | 2 => EndEnd | _ => EndBegin end.

Fixpoint alookup {X} (h : nat) (l : list (nat * X)) : option X :=
  match l with
  | [] => None
  | (k, v) :: l' => if Nat.eqb k h then Some v else alookup h l'
  end.

(* [singles]: annotation handle -> resource and new range of its single text selection *)
Definition reresolve_leaf (s : store) (lens : nat -> nat) (singles : list (nat * (nat * (nat * nat)))) (lf : leaf)
  : option (option (nat * (nat * nat))) :=      (* None = refused; Some None = no text *)
  match lf with
  | LText r t m =>
      match get_res s r with
      | Some rs =>
          match nth_error (r_sels rs) t with
          | Some rg =>
              match resource_ts (lens r) (report_resource (r_len rs) rg (omode_of_nat m)) with
              | Ok rg' => Some (Some (r, rg'))
              | Err => None
              end
          | None => Some None
          end
      | None => Some None
      end
  | LAnnText p r t m =>
      match get_res s r, get_ann s p with
      | Some rs, Some pa =>
          match nth_error (r_sels rs) t, ann_textsel s pa, alookup p singles with
          | Some rg, Some (_, _, prg), Some (_, prg') =>
              match relative_offset rg prg (omode_of_nat m) with
              | Some o => match selection_ts prg' o with
                          | Ok rg' => Some (Some (r, rg'))
                          | Err => None
                          end
              | None => Some None
              end
          | _, _, _ => Some None
          end
      | _, _ => Some None
      end
  | _ => Some None
  end.

Fixpoint reresolve_leaves (s : store) (lens : nat -> nat) singles (l : list leaf) : option (list (nat * (nat * nat))) :=
  match l with
  | [] => Some []
  | lf :: l' =>
      match reresolve_leaf s lens singles lf, reresolve_leaves s lens singles l' with
      | Some (Some x), Some xs => Some (x :: xs)
      | Some None, Some xs => Some xs
      | _, _ => None
      end
  end.

(* the live annotations in order: their text selections in the order of the code *)
Fixpoint reresolve_from (s : store) (lens : nat -> nat) (hs : list nat) singles
  : option (list (list (nat * (nat * nat)))) :=
  match hs with
  | [] => Some []
  | h :: hs' =>
      match get_ann s h with
      | None => reresolve_from s lens hs' singles
      | Some a =>
          match reresolve_leaves s lens singles (a_leaves a) with
          | None => None
          | Some l =>
              let l' := if Nat.eqb (a_kind a) 1 || Nat.eqb (a_kind a) 2 then sort_ranges l else l in
              let singles' := match a_kind a, a_leaves a, l with
                              | 0, [LText _ _ _], [x] | 0, [LAnnText _ _ _ _], [x] => (h, x) :: singles
                              | _, _, _ => singles
                              end in
              match reresolve_from s lens hs' singles' with
              | Some rest => Some (l' :: rest)
              | None => None
              end
          end
      end
  end.

Definition reresolve (s : store) (lens : nat -> nat) : option (list (list (nat * (nat * nat)))) :=
  reresolve_from s lens (seq 0 (length (anns s))) [].
