(* Model of src/api/transpose.rs:
     impl Transposable for ResultTextSelectionSet :: transpose
       - the buffer walk over the source text selections against the sides of a complex
         transposition (intersection, remainder pushed back, source-side detection,
         relative offsets),
       - the simple branch (every side is one text selection, the source must lie inside one),
       - the mapping of the relative offsets into the fragments of the other sides
         (ResultTextSelection::textselection = Text::absolute_offset + the resource check),
       - the final decisions (no source side / no source fragments -> error).
     impl Transposable for ResultItem<Annotation> :: transpose   (text selection set of the
       annotation, existing_source_side when it has an id)
   Transcribed after the fix commits 3766509 afeaba5 993f18c 3d34622 5f70b2d 43de370 1f7d359.
   What the code then builds from the per-side selectors (annotation builders with ids, the
   resegmentation annotation, the copied data) is represented by the result record only: the
   selections of every side of the new transposition in order, which side is the source and
   whether that side is a new (resegmented / copied) annotation.
   Executable definitions only; proofs are in Proofs/Transpose.v. *)
From Coq Require Import List Arith Bool ZArith.
Import ListNotations.
From Stam Require Import Model.Rel Model.Offset.

(* a text selection of a resource: (resource handle, begin, end) *)
Record frag := mkfrag { fres : nat; fb : nat; fe : nat }.
(* one side of a transposition: its text selections in the order textselections() yields them *)
Definition side := list frag.

Definition ts_of (f : frag) : ts := mkts None (fb f) (fe f).
Definition rng (f : frag) : nat * nat := (fb f, fe f).

Inductive tres (A : Type) :=
| TOk (a : A)
| TErr            (* Err(StamError::TransposeError / CursorOutOfBounds ...) *)
| TPanic          (* expect("intersection offset must be valid") *)
| TFuel.          (* the model ran out of fuel (the code would not terminate) *)
Arguments TOk {A} a.
Arguments TErr {A}.
Arguments TPanic {A}.
Arguments TFuel {A}.

(* state of the matching loops *)
Record st := mkst {
  s_side : option nat;               (* source_side *)
  s_found : bool;                    (* source_found *)
  s_rels : list (nat * offset);      (* relative_offsets: (refseqnr, offset) *)
  s_sels : list (list (nat * nat));  (* selectors_per_side: ranges in the source resource *)
  s_reseg : bool;                    (* resegment *)
  s_hit : bool;                      (* found: the current text selection was found *)
  s_buf : list ts                    (* tselbuffer *)
}.

(* selectors_per_side[i].push(x) *)
Fixpoint push_at {X} (i : nat) (x : X) (l : list (list X)) : list (list X) :=
  match l with
  | [] => []
  | c :: l' => match i with 0 => (c ++ [x]) :: l' | S i' => c :: push_at i' x l' end
  end.

Definition side_open (s : st) (i : nat) : bool :=
  match s_side s with None => true | Some j => Nat.eqb j i end.

(** * complex transposition: the sides are annotations *)

Inductive scanres :=
| SNo
| SPanic
| SHit (k : nat) (i : ts) (rem : option ts) (off : offset).

(* for (refseqnr, reftsel) in annotation.textselections().enumerate(): the first fragment in the
   resource of the source with a usable intersection *)
Fixpoint scan (r : nat) (tsel : ts) (k : nat) (fs : list frag) : scanres :=
  match fs with
  | [] => SNo
  | f :: fs' =>
      if Nat.eqb (fres f) r then
        match intersection tsel (ts_of f) with
        | Some (i, rem, _) =>
            match relative_offset (tb i, te i) (rng f) BeginBegin with
            | None => SPanic    (* expect("intersection offset must be valid") *)
            | Some off =>
                match rem with
                | Some rm =>
                    if (tb rm <? tb i) || Nat.eqb (tb i) (te i)
                    then scan r tsel (S k) fs'     (* not a valid intersection, skip to the next *)
                    else SHit k i rem off
                | None => SHit k i None off
                end
            end
        | None => scan r tsel (S k) fs'
        end
      else scan r tsel (S k) fs'
  end.

(* for (side_i, annotation) in via.annotations_in_targets(One).enumerate() *)
Fixpoint try_sides (r : nat) (tsel : ts) (i : nat) (sides : list side) (s : st) : tres st :=
  match sides with
  | [] => TOk s
  | sd :: sides' =>
      if side_open s i then
        match scan r tsel 0 sd with
        | SPanic => TPanic
        | SNo => try_sides r tsel (S i) sides' s
        | SHit k it rem off =>
            try_sides r tsel (S i) sides'
              (mkst (Some i) true (s_rels s ++ [(k, off)])
                    (push_at i (tb it, te it) (s_sels s))
                    (match rem with Some _ => true | None => s_reseg s end)
                    true
                    (match rem with Some rm => rm :: s_buf s | None => s_buf s end))
        end
      else try_sides r tsel (S i) sides' s
  end.

(* while let Some(tsel) = tselbuffer.pop_front() *)
Fixpoint walk (fuel : nat) (r : nat) (sides : list side) (s : st) : tres st :=
  match fuel with
  | 0 => TFuel
  | S fuel' =>
      match s_buf s with
      | [] => TOk s
      | tsel :: rest =>
          match try_sides r tsel 0 sides
                  (mkst (s_side s) (s_found s) (s_rels s) (s_sels s) (s_reseg s) false rest) with
          | TOk s1 => if s_hit s1 then walk fuel' r sides s1 else TErr
          | TErr => TErr
          | TPanic => TPanic
          | TFuel => TFuel
          end
      end
  end.

(** * simple transposition: every text selection of the transposition is a side *)

(* for (side_i, reftsel) in via.textselections().enumerate() ... break at the first side that
   contains the text selection entirely *)
Fixpoint simple_sides (r : nat) (tsel : ts) (i : nat) (frs : list frag) (s : st) : tres st :=
  match frs with
  | [] => TOk s
  | f :: frs' =>
      if Nat.eqb (fres f) r && side_open s i then
        match intersection tsel (ts_of f) with
        | Some (it, None, _) =>
            match relative_offset (tb it, te it) (rng f) BeginBegin with
            | None => TPanic
            | Some off =>
                TOk (mkst (Some i) true (s_rels s ++ [(0, off)])
                          (push_at i (tb it, te it) (s_sels s))
                          (s_reseg s) (s_hit s) (s_buf s))
            end
        | _ => simple_sides r tsel (S i) frs' s
        end
      else simple_sides r tsel (S i) frs' s
  end.

(* for tsel in self.inner().iter() *)
Fixpoint simple_all (r : nat) (src : list ts) (frs : list frag) (s : st) : tres st :=
  match src with
  | [] => TOk s
  | tsel :: src' =>
      match simple_sides r tsel 0 frs s with
      | TOk s1 => simple_all r src' frs s1
      | other => other
      end
  end.

(** * mapping the relative offsets into the other sides *)

(* reftsel.textselection(&offset)? pushed as TextSelector(reftsel.resource(), mapped) *)
Fixpoint map_rels (lens : list nat) (sd : side) (rels : list (nat * offset)) : tres (list frag) :=
  match rels with
  | [] => TOk []
  | (k, off) :: rels' =>
      match nth_error sd k with
      | None => TErr            (* the side has no text selection #k: TransposeError (since 1f7d359) *)
      | Some g =>
          match findtext_sel_ts (nth (fres g) lens 0) (rng g) off with
          | Err => TErr
          | Ok t =>
              match map_rels lens sd rels' with
              | TOk l => TOk (mkfrag (fres g) (fst t) (snd t) :: l)
              | other => other
              end
          end
      end
  end.

(* all sides: the source side keeps its own selectors, every other side gets the mapped ones
   appended to what it holds *)
Fixpoint map_sides (lens : list nat) (r : nat) (ss : nat) (i : nat) (sides : list side)
         (sels : list (list (nat * nat))) (rels : list (nat * offset)) : tres (list (list frag)) :=
  match sides with
  | [] => TOk []
  | sd :: sides' =>
      let own := map (fun p => mkfrag r (fst p) (snd p)) (nth i sels []) in
      match (if Nat.eqb i ss then TOk own
             else match map_rels lens sd rels with
                  | TOk l => TOk (own ++ l)
                  | other => other
                  end) with
      | TOk here =>
          match map_sides lens r ss (S i) sides' sels rels with
          | TOk l => TOk (here :: l)
          | other => other
          end
      | TErr => TErr
      | TPanic => TPanic
      | TFuel => TFuel
      end
  end.

(** * the whole function *)

Record result := mkres {
  r_side : nat;                  (* index of the source side *)
  r_newsrc : bool;               (* the source side of the new transposition is a new annotation *)
  r_sides : list (list frag)     (* text selections of every side of the new transposition *)
}.

Definition init_st (n : nat) (cfg : option nat) (buf : list ts) : st :=
  mkst cfg false [] (repeat [] n) false false buf.

(* fuel that always suffices: every round either consumes a text selection or replaces it by a
   strictly shorter remainder *)
Definition fuel_for (src : list (nat * nat)) : nat :=
  S (fold_right (fun p acc => S (snd p - fst p) + acc) 0 src).

Definition ts_of_rng (p : nat * nat) : ts := mkts None (fst p) (snd p).

(* lens: text length per resource; complex: via.annotations_in_targets(One) is non-empty and V are
   those annotations' text selections, otherwise V = one singleton side per text selection of via;
   r, src: resource and ranges of the source; cfg: TranspositionSide; existing: the source is an
   annotation with an id (existing_source_side) *)
Definition transpose (fuel : nat) (lens : list nat) (complex : bool) (V : list side)
           (r : nat) (src : list (nat * nat)) (cfg : option nat) (existing : bool) : tres result :=
  let buf := map ts_of_rng src in
  let n := length V in
  let matched :=
    if complex then walk fuel r V (init_st n cfg buf)
    else
      match simple_all r buf (concat V) (init_st n cfg buf) with
      | TOk s =>
          match s_side s with
          | Some ss =>
              if s_found s && Nat.eqb (length (nth ss (s_sels s) [])) (length src)
                 && (ss <? length (s_sels s))
              then TOk s else TErr
          | None => TErr
          end
      | other => other
      end in
  match matched with
  | TOk s =>
      match s_side s with
      | None => TErr
      | Some ss =>
          match map_sides lens r ss 0 V (s_sels s) (s_rels s) with
          | TOk sides =>
              match length (nth ss (s_sels s) []) with
              | 0 => TErr
              | _ => TOk (mkres ss (s_reseg s || negb existing) sides)
              end
          | TErr => TErr
          | TPanic => TPanic
          | TFuel => TFuel
          end
      end
  | TErr => TErr
  | TPanic => TPanic
  | TFuel => TFuel
  end.

(* impl Transposable for ResultItem<Annotation>: textselectionset() must exist (all text
   selections of the annotation in one resource) *)
Definition transpose_annotation (fuel : nat) (lens : list nat) (complex : bool) (V : list side)
           (srcf : list frag) (cfg : option nat) : tres result :=
  match srcf with
  | [] => TErr
  | f :: _ =>
      if forallb (fun g => Nat.eqb (fres g) (fres f)) srcf
      then transpose fuel lens complex V (fres f) (map rng srcf) cfg true
      else TErr
  end.
