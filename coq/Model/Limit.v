(* Model of LimitIter::next (src/api.rs), unrolled over the list of items the
   inner iterator yields.  [cur] = self.cursor, [buf] = self.buffer.
   The result is the list of items yielded until the first None. *)
From Coq Require Import List ZArith Bool.
Import ListNotations.
Local Open Scope Z_scope.

Section Limit.
  Context {X : Type}.
  Variables bg en : Z.

  (* VecDeque: pop_front n times / pop_back n times (no-ops when empty) *)
  Definition pop_front_n (n : nat) (b : list X) : list X := skipn n b.
  Definition pop_back_n (n : nat) (b : list X) : list X := firstn (length b - n) b.

  (* inner iterator exhausted *)
  Definition at_end (cur : Z) (buf : list X) : list X :=
    if (0 <=? bg) && (0 <=? en) then []
    else
      (* begin < 0 and end <> 0: the buffer starts at item 0; drop what lies before len+begin *)
      let buf1 := if (bg <? 0) && negb (en =? 0)
                  then pop_front_n (Z.to_nat (cur + bg)) buf else buf in
      let buf2 := if en <? 0 then pop_back_n (Z.to_nat (- en)) buf1 else buf1 in
      buf2.

  Definition push (cur : Z) (buf : list X) (x : X) : list X :=
    if ((bg <? 0) || ((0 <=? bg) && (bg <=? cur))) && ((en <=? 0) || (cur <? en))
    then
      let b := buf ++ [x] in
      if (en =? 0) && (bg <? 0)
      then (if Z.to_nat (Z.abs bg) <? length b then pop_front_n (length b - Z.to_nat (Z.abs bg)) b else b)%nat
      else b
    else buf.

  Fixpoint go (cur : Z) (buf : list X) (l : list X) : list X :=
    match l with
    | [] => at_end cur buf
    | x :: l' =>
        if (0 <=? bg) && (bg <=? cur) then
          if (en =? 0) || (cur <? en) then x :: go (cur + 1) buf l'
          else if (0 <? en) && (en <=? cur) then []
          else go (cur + 1) (push cur buf x) l'
        else go (cur + 1) (push cur buf x) l'
    end.

  Definition limit (l : list X) : list X := go 0 [] l.

  (* documented meaning: the slice [b, e) of the unlimited results; a negative
     bound counts from the end, end = 0 means "until the end" *)
  Definition slice_spec (l : list X) : list X :=
    let n := Z.of_nat (length l) in
    let b := if bg <? 0 then Z.max 0 (n + bg) else bg in
    let e := if en =? 0 then n else if en <? 0 then n + en else en in
    firstn (Z.to_nat (e - b)) (skipn (Z.to_nat b) l).
End Limit.
