(* The internal range compression of the subselectors of a complex selector
   (src/annotationstore.rs AnnotationStore::subselectors, the loop after the sort) and its
   inverse, the expansion done by SelectorIter (src/selector.rs get_internal_ranged_item).

   Model/Store.v keeps the target of an annotation as the list of resolved leaf selectors; the
   code keeps [compress] of that list and every reader sees [expand] of it.  Proofs/Compress.v
   shows that the two views coincide. *)
From Coq Require Import List Arith Bool.
Import ListNotations.
From Stam Require Import Model.Offset Model.Store.

(* a stored subselector: a leaf, RangedTextSelector{resource,begin,end},
   RangedAnnotationSelector{begin,end,with_text}; end is inclusive *)
Inductive csel :=
| CLeaf (l : leaf)
| CRText (r b e : nat)
| CRAnn (b e : nat) (with_text : bool).

(* the (resource, text selection) a target gives through Selector::resource_handle() and
   Selector::textselection_handle(): only a TextSelector or an AnnotationSelector with offset *)
Definition own_text (s : store) (a : nat) : option (nat * nat) :=
  match get_ann s a with
  | Some an =>
      match a_kind an, a_leaves an with
      | 0, [LText r t _] | 0, [LAnnText _ r t _] => Some (r, t)
      | _, _ => None
      end
  | None => None
  end.

Definition range_of (s : store) (r t : nat) : option (nat * nat) :=
  match get_res s r with Some rs => nth_error (r_sels rs) t | None => None end.

(* offset_with_mode(BeginEnd) = (BeginAligned 0, EndAligned 0): relative_begin = 0 and
   relative_end_endaligned = 0, i.e. same begin and same end as the target's own selection.
   The resources are not compared (src/textselection.rs says so). *)
Definition whole (s : store) (lf : leaf) : bool :=
  match lf with
  | LAnnText a r t _ =>
      match own_text s a with
      | Some (pr, pt) =>
          match range_of s r t, range_of s pr pt with
          | Some (b, e), Some (pb, pe) => Nat.eqb b pb && Nat.eqb e pe
          | _, _ => false
          end
      | None => false
      end
  | _ => false
  end.

(* mode numbers as in Store.mode_nat: 0 BeginBegin, 1 BeginEnd *)
Definition merge (wh : leaf -> bool) (last : csel) (x : leaf) : option csel :=
  match last, x with
  | CLeaf (LText r t m), LText r2 t2 m2 =>
      if Nat.eqb m 0 && Nat.eqb m2 0 && Nat.eqb r r2 && Nat.eqb t2 (t + 1) then Some (CRText r t t2) else None
  | CRText r b e, LText r2 t2 m2 =>
      if Nat.eqb m2 0 && Nat.eqb r r2 && Nat.eqb t2 (e + 1) then Some (CRText r b t2) else None
  | CLeaf (LAnn a), LAnn a2 =>
      if Nat.eqb a2 (a + 1) then Some (CRAnn a a2 false) else None
  | CRAnn b e false, LAnn a2 =>
      if Nat.eqb a2 (e + 1) then Some (CRAnn b a2 false) else None
  | CLeaf (LAnnText a r t m), LAnnText a2 r2 t2 m2 =>
      if Nat.eqb m 1 && Nat.eqb m2 1 && Nat.eqb a2 (a + 1) && wh (LAnnText a r t m) && wh (LAnnText a2 r2 t2 m2)
      then Some (CRAnn a a2 true) else None
  | CRAnn b e true, LAnnText a2 r2 t2 m2 =>
      if Nat.eqb m2 1 && Nat.eqb a2 (e + 1) && wh (LAnnText a2 r2 t2 m2) then Some (CRAnn b a2 true) else None
  | _, _ => None
  end.

(* the result vector, last element first *)
Fixpoint compress_acc (wh : leaf -> bool) (acc : list csel) (l : list leaf) : list csel :=
  match l with
  | [] => rev acc
  | x :: l' =>
      match acc with
      | last :: acc' =>
          match merge wh last x with
          | Some c => compress_acc wh (c :: acc') l'
          | None => compress_acc wh (CLeaf x :: acc) l'
          end
      | [] => compress_acc wh [CLeaf x] l'
      end
  end.

Definition compress (wh : leaf -> bool) (l : list leaf) : list csel :=
  match l with
  | [x] => [CLeaf x]          (* the shortcut for one subselector *)
  | _ => compress_acc wh [] l
  end.

(* begin ..= end *)
Definition span (b e : nat) : list nat := seq b (S e - b).

Definition expand1 (own : nat -> option (nat * nat)) (c : csel) : list leaf :=
  match c with
  | CLeaf l => [l]
  | CRText r b e => map (fun t => LText r t 0) (span b e)
  | CRAnn b e false => map LAnn (span b e)
  | CRAnn b e true =>
      map (fun a => match own a with Some (r, t) => LAnnText a r t 1 | None => LAnn a end) (span b e)
  end.

Definition expand (own : nat -> option (nat * nat)) (cs : list csel) : list leaf :=
  flat_map (expand1 own) cs.

(* what a reader of the store sees of a stored target *)
Definition seen (s_then s_now : store) (l : list leaf) : list leaf :=
  expand (own_text s_now) (compress (whole s_then) l).
