(* Generic JSON (RFC 8259): abstract syntax, printer and a total recogniser.
   Self-contained (standard library only); nothing here knows about STAM.

   A text is a list of Unicode scalar values ([list N]), as everywhere in this
   development.  [render] prints a value without insignificant whitespace,
   [parse_json] accepts exactly the JSON grammar (with whitespace) and returns the
   tree; objects keep their members in document order, duplicates included.
   Numbers are kept as their literal ([JNum lit], [is_json_number lit]); how a
   literal is read as a value is up to the user ([num_int], [num_quarters]).

   String escaping [escape] is what serde_json::to_string does: the two-character
   escapes for quote, backslash, \b \t \n \f \r, \u00XX (lower-case hex) for the
   other characters below U+0020, everything else verbatim (non-BMP included).
   [unescape] is the reader: all escapes of the grammar, \uXXXX with surrogate
   pairs; lone surrogates, unknown escapes and raw control characters are errors. *)
From Coq Require Import List NArith ZArith Bool Arith.
Import ListNotations.
Local Open Scope N_scope.

Definition str := list N.

Inductive json : Type :=
| JNull
| JBool (b : bool)
| JNum (lit : str)
| JStr (s : str)
| JArr (l : list json)
| JObj (m : list (str * json)).

Inductive token : Type :=
| TLBrace | TRBrace | TLBrack | TRBrack | TComma | TColon
| TStr (s : str) | TNum (lit : str) | TTrue | TFalse | TNull.

(* ---------- strings ---------- *)

Definition hexdigit (n : N) : N := if n <? 10 then 48 + n else 87 + n.

Definition escape_char (c : N) : str :=
  if c =? 34 then [92; 34]
  else if c =? 92 then [92; 92]
  else if c =? 8 then [92; 98]
  else if c =? 9 then [92; 116]
  else if c =? 10 then [92; 110]
  else if c =? 12 then [92; 102]
  else if c =? 13 then [92; 114]
  else if c <? 32 then [92; 117; 48; 48; hexdigit (c / 16); hexdigit (c mod 16)]
  else [c].

Definition escape (s : str) : str := flat_map escape_char s.

Definition hexval (c : N) : option N :=
  if (48 <=? c) && (c <=? 57) then Some (c - 48)
  else if (97 <=? c) && (c <=? 102) then Some (c - 87)
  else if (65 <=? c) && (c <=? 70) then Some (c - 55)
  else None.

Definition hex4 (a b c d : N) : option N :=
  match hexval a, hexval b, hexval c, hexval d with
  | Some x, Some y, Some z, Some w => Some (((x * 16 + y) * 16 + z) * 16 + w)
  | _, _, _, _ => None
  end.

Definition simple_escape (e : N) : option N :=
  if e =? 34 then Some 34
  else if e =? 92 then Some 92
  else if e =? 47 then Some 47
  else if e =? 98 then Some 8
  else if e =? 102 then Some 12
  else if e =? 110 then Some 10
  else if e =? 114 then Some 13
  else if e =? 116 then Some 9
  else None.

Definition ocons (c : N) (o : option str) : option str :=
  match o with Some x => Some (c :: x) | None => None end.

(* raw content of a string literal (between the quotes) -> the string it denotes *)
Fixpoint unescape (s : str) : option str :=
  match s with
  | [] => Some []
  | c :: r =>
      if c =? 92 then
        match r with
        | [] => None
        | e :: r1 =>
            if e =? 117 then
              match r1 with
              | a :: b :: c2 :: d :: r2 =>
                  match hex4 a b c2 d with
                  | None => None
                  | Some v =>
                      if (55296 <=? v) && (v <=? 56319) then
                        (* high surrogate: a low surrogate escape must follow *)
                        match r2 with
                        | b1 :: u1 :: a' :: b' :: c' :: d' :: r3 =>
                            if (b1 =? 92) && (u1 =? 117) then
                              match hex4 a' b' c' d' with
                              | None => None
                              | Some w =>
                                  if (56320 <=? w) && (w <=? 57343)
                                  then ocons (65536 + (v - 55296) * 1024 + (w - 56320)) (unescape r3)
                                  else None
                              end
                            else None
                        | _ => None
                        end
                      else if (56320 <=? v) && (v <=? 57343) then None
                      else ocons v (unescape r2)
                  end
              | _ => None
              end
            else
              match simple_escape e with
              | Some x => ocons x (unescape r1)
              | None => None
              end
        end
      else if c <? 32 then None
      else if c =? 34 then None
      else ocons c (unescape r)
  end.

(* ---------- numbers ---------- *)

Definition is_digit (c : N) : bool := (48 <=? c) && (c <=? 57).

Definition is_numchar (c : N) : bool :=
  is_digit c || (c =? 45) || (c =? 43) || (c =? 46) || (c =? 101) || (c =? 69).

Fixpoint skip_digits (s : str) : str :=
  match s with
  | c :: r => if is_digit c then skip_digits r else s
  | [] => []
  end.

Definition is_nil {X} (l : list X) : bool := match l with [] => true | _ => false end.

(* after [eE] *)
Definition num_exp (s : str) : bool :=
  let s1 := match s with
            | c :: r => if (c =? 43) || (c =? 45) then r else s
            | [] => []
            end in
  match s1 with
  | c :: r => is_digit c && is_nil (skip_digits r)
  | [] => false
  end.

(* after the integer part *)
Definition num_after_int (s : str) : bool :=
  match s with
  | [] => true
  | c :: r =>
      if c =? 46 then
        match r with
        | d :: r' =>
            is_digit d &&
            match skip_digits r' with
            | [] => true
            | e :: r3 => ((e =? 101) || (e =? 69)) && num_exp r3
            end
        | [] => false
        end
      else if (c =? 101) || (c =? 69) then num_exp r
      else false
  end.

Definition num_unsigned (s : str) : bool :=
  match s with
  | c :: r =>
      if c =? 48 then num_after_int r
      else if is_digit c then num_after_int (skip_digits r)
      else false
  | [] => false
  end.

(* the grammar: optional minus; 0 or a non-zero digit followed by digits; optionally a dot and at
   least one digit; optionally e or E, an optional sign and at least one digit *)
Definition is_json_number (s : str) : bool :=
  match s with
  | c :: r => if c =? 45 then num_unsigned r else num_unsigned s
  | [] => false
  end.

(* ---------- printer ---------- *)

Definition print_token (t : token) : str :=
  match t with
  | TLBrace => [123] | TRBrace => [125] | TLBrack => [91] | TRBrack => [93]
  | TComma => [44] | TColon => [58]
  | TStr s => 34 :: escape s ++ [34]
  | TNum l => l
  | TTrue => [116; 114; 117; 101]
  | TFalse => [102; 97; 108; 115; 101]
  | TNull => [110; 117; 108; 108]
  end.

Fixpoint tokens_of (j : json) : list token :=
  match j with
  | JNull => [TNull]
  | JBool true => [TTrue]
  | JBool false => [TFalse]
  | JNum l => [TNum l]
  | JStr s => [TStr s]
  | JArr [] => [TLBrack; TRBrack]
  | JArr (v :: l) =>
      TLBrack :: tokens_of v ++ flat_map (fun v => TComma :: tokens_of v) l ++ [TRBrack]
  | JObj [] => [TLBrace; TRBrace]
  | JObj ((k, v) :: m) =>
      TLBrace :: TStr k :: TColon :: tokens_of v
        ++ flat_map (fun kv => TComma :: TStr (fst kv) :: TColon :: tokens_of (snd kv)) m
        ++ [TRBrace]
  end.

Definition print_tokens (ts : list token) : str := flat_map print_token ts.

Definition render (j : json) : str := print_tokens (tokens_of j).

(* ---------- lexer: one pass, a state per kind of token in progress ---------- *)

Inductive lstate : Type :=
| LStart
| LStr (acc : str) (esc : bool)   (* inside a string; raw content so far, reversed *)
| LNum (acc : str)                (* inside a number; characters so far, reversed *)
| LLit (rest : str) (t : token).  (* inside true/false/null; characters still expected *)

Definition is_ws (c : N) : bool := (c =? 32) || (c =? 9) || (c =? 10) || (c =? 13).

Definition emit (t : token) (o : option (list token)) : option (list token) :=
  match o with Some l => Some (t :: l) | None => None end.

Fixpoint lex (st : lstate) (s : str) : option (list token) :=
  match s with
  | [] =>
      match st with
      | LStart => Some []
      | LNum acc => if is_json_number (rev acc) then Some [TNum (rev acc)] else None
      | _ => None
      end
  | c :: r =>
      let start := fun _ : unit =>
        if is_ws c then lex LStart r
        else if c =? 123 then emit TLBrace (lex LStart r)
        else if c =? 125 then emit TRBrace (lex LStart r)
        else if c =? 91 then emit TLBrack (lex LStart r)
        else if c =? 93 then emit TRBrack (lex LStart r)
        else if c =? 44 then emit TComma (lex LStart r)
        else if c =? 58 then emit TColon (lex LStart r)
        else if c =? 34 then lex (LStr [] false) r
        else if is_numchar c then lex (LNum [c]) r
        else if c =? 116 then lex (LLit [114; 117; 101] TTrue) r
        else if c =? 102 then lex (LLit [97; 108; 115; 101] TFalse) r
        else if c =? 110 then lex (LLit [117; 108; 108] TNull) r
        else None in
      match st with
      | LStart => start tt
      | LStr acc esc =>
          if esc then lex (LStr (c :: acc) false) r
          else if c =? 92 then lex (LStr (c :: acc) true) r
          else if c =? 34 then
            match unescape (rev acc) with
            | Some x => emit (TStr x) (lex LStart r)
            | None => None
            end
          else lex (LStr (c :: acc) false) r
      | LNum acc =>
          if is_numchar c then lex (LNum (c :: acc)) r
          else if is_json_number (rev acc) then emit (TNum (rev acc)) (start tt)
          else None
      | LLit rest t =>
          match rest with
          | [] => None
          | x :: rest' =>
              if c =? x then
                match rest' with
                | [] => emit t (lex LStart r)
                | _ => lex (LLit rest' t) r
                end
              else None
          end
      end
  end.

(* ---------- parser on tokens: recursive descent, fuel = number of tokens ---------- *)

Inductive pmode : Type :=
| PValue
| PElems (acc : list json)              (* after a value inside [ ] *)
| PMembers (acc : list (str * json)).   (* after a member inside { } *)

Fixpoint parse (fuel : nat) (m : pmode) (ts : list token) : option (json * list token) :=
  match fuel with
  | O => None
  | S f =>
      match m with
      | PValue =>
          match ts with
          | TNull :: r => Some (JNull, r)
          | TTrue :: r => Some (JBool true, r)
          | TFalse :: r => Some (JBool false, r)
          | TNum l :: r => Some (JNum l, r)
          | TStr s :: r => Some (JStr s, r)
          | TLBrack :: TRBrack :: r => Some (JArr [], r)
          | TLBrack :: r =>
              match parse f PValue r with
              | Some (v, r1) => parse f (PElems [v]) r1
              | None => None
              end
          | TLBrace :: TRBrace :: r => Some (JObj [], r)
          | TLBrace :: TStr k :: TColon :: r =>
              match parse f PValue r with
              | Some (v, r1) => parse f (PMembers [(k, v)]) r1
              | None => None
              end
          | _ => None
          end
      | PElems acc =>
          match ts with
          | TRBrack :: r => Some (JArr (rev acc), r)
          | TComma :: r =>
              match parse f PValue r with
              | Some (v, r1) => parse f (PElems (v :: acc)) r1
              | None => None
              end
          | _ => None
          end
      | PMembers acc =>
          match ts with
          | TRBrace :: r => Some (JObj (rev acc), r)
          | TComma :: TStr k :: TColon :: r =>
              match parse f PValue r with
              | Some (v, r1) => parse f (PMembers ((k, v) :: acc)) r1
              | None => None
              end
          | _ => None
          end
      end
  end.

Definition parse_tokens (ts : list token) : option json :=
  match parse (S (length ts)) PValue ts with
  | Some (j, []) => Some j
  | _ => None
  end.

(* the recogniser: Some tree iff the text is one JSON value (whitespace allowed around tokens) *)
Definition parse_json (s : str) : option json :=
  match lex LStart s with
  | Some ts => parse_tokens ts
  | None => None
  end.

Definition is_object (j : json) : bool := match j with JObj _ => true | _ => false end.

(* ---------- reading helpers ---------- *)

Fixpoint str_eqb (a b : str) : bool :=
  match a, b with
  | [], [] => true
  | x :: a', y :: b' => (x =? y) && str_eqb a' b'
  | _, _ => false
  end.

(* first member with that name *)
Fixpoint member (k : str) (m : list (str * json)) : option json :=
  match m with
  | [] => None
  | (k', v) :: m' => if str_eqb k k' then Some v else member k m'
  end.

(* decimal digits -> number *)
Definition digits_val (s : str) : N := fold_left (fun a c => a * 10 + (c - 48)) s 0.

(* an integer literal (no fraction, no exponent) as an integer *)
Definition num_int (lit : str) : option Z :=
  match lit with
  | c :: r =>
      if c =? 45 then
        if forallb is_digit r && negb (is_nil r) then Some (- Z.of_N (digits_val r))%Z else None
      else if forallb is_digit lit then Some (Z.of_N (digits_val lit)) else None
  | [] => None
  end.

Fixpoint split_digits (s : str) : str * str :=
  match s with
  | c :: r => if is_digit c then let (a, b) := split_digits r in (c :: a, b) else ([], s)
  | [] => ([], [])
  end.

(* a literal  -?digits.digits  (no exponent) whose value is a multiple of 1/4: the value times 4 *)
Definition num_quarters (lit : str) : option Z :=
  let (neg, u) := match lit with
                  | c :: r => if c =? 45 then (true, r) else (false, lit)
                  | [] => (false, [])
                  end in
  let (ip, rest) := split_digits u in
  match rest with
  | dot :: fr =>
      if (dot =? 46) && forallb is_digit fr && negb (is_nil fr) && negb (is_nil ip) then
        let scale := N.pow 10 (N.of_nat (length fr)) in
        let v := 4 * digits_val (ip ++ fr) in
        if v mod scale =? 0
        then Some (if neg then - Z.of_N (v / scale) else Z.of_N (v / scale))%Z
        else None
      else None
  | [] => None
  end.

(* every number literal in the tree is a JSON number *)
Fixpoint wf_json (j : json) : bool :=
  match j with
  | JNum l => is_json_number l
  | JArr l => forallb wf_json l
  | JObj m => forallb (fun kv => wf_json (snd kv)) m
  | _ => true
  end.
