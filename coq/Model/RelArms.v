(* A first-match table of the arms of `impl TestTextSelection for TextSelection { fn test }`
   (src/textselection.rs) and its interpretation.  The table itself (Gen/RelPairTable.v) is
   regenerated from the source on every run by tools/translate_relpair.py: every arm's pattern and
   its body, as an expression tree.  Proofs/AgreeRelPair.v proves that the table denotes
   Model/Rel.test_pair (the function all theorems of C13 and C06 are about) and that no
   subtraction in it can underflow.
   Evaluation follows Rust: && and || short-circuit, usize subtraction is checked (None when the
   result would be negative: a panic in debug builds, a wrapped value in release builds). *)
From Coq Require Import List Arith Bool.
Import ListNotations.
From Stam Require Import Model.Rel.

Inductive nexp :=
| NSb | NSe            (* self.begin, self.end *)
| NRb | NRe            (* reftextsel.begin, reftextsel.end *)
| NLim                 (* *limit, bound by a pattern `limit: Some(limit)` *)
| NVar                 (* the variable of the enclosing `let` *)
| NWsLimit             (* WHITESPACE_LIMIT *)
| NLit (n : nat)
| NSub (a b : nexp).

Inductive bexp :=
| BTrue | BFalse
| BAllowWs             (* allow_whitespace, bound by the pattern *)
| BTsEq                (* self == reftextsel *)
| BLe (a b : nexp) | BLt (a b : nexp) | BEq (a b : nexp)
| BAnd (a b : bexp) | BOr (a b : bexp) | BNot (a : bexp)
| BIf (c t e : bexp)
| BLet (v : nexp) (body : bexp)
| BTextWs (a b : nexp). (* if let Ok(gap) = resource.text_by_offset(&Offset::simple(a, b))
                            { gap.chars().all(|c| c.is_whitespace()) } else { false } *)

Inductive pbody :=
| PExpr (b : bexp)
| PToggle.             (* !self.test(&operator.toggle_negate(), reftextsel, resource) *)

(* `TextSelectionOperator::X { all: .., negate: .., limit: .., .. }`: None = not mentioned (or bound
   to a name); for the limit Some true = `Some(limit)`, Some false = `None` *)
Record ppat := mkpp { p_rel : rel; p_all : option bool; p_neg : option bool; p_lim : option bool }.
Record parm := mkparm { pa_pats : list ppat; pa_body : pbody }.

Definition rel_eqb (a b : rel) : bool :=
  match a, b with
  | Equals, Equals | Overlaps, Overlaps | Embeds, Embeds | Embedded, Embedded | Before, Before
  | After, After | Precedes, Precedes | Succeeds, Succeeds | SameBegin, SameBegin | SameEnd, SameEnd
  | InSet, InSet | SameRange, SameRange => true
  | _, _ => false
  end.

Definition flag_matches (p : option bool) (v : bool) : bool :=
  match p with None => true | Some b => Bool.eqb b v end.

Definition pat_matches (p : ppat) (o : op) : bool :=
  rel_eqb (p_rel p) (orel o) && flag_matches (p_all p) (oall o) && flag_matches (p_neg p) (oneg o)
  && match p_lim p, olim o with
     | None, _ => true
     | Some true, Some _ => true
     | Some false, None => true
     | _, _ => false
     end.

Fixpoint find_arm (arms : list parm) (o : op) : option pbody :=
  match arms with
  | [] => None
  | a :: arms' => if existsb (fun p => pat_matches p o) (pa_pats a) then Some (pa_body a) else find_arm arms' o
  end.

Section Eval.
  Variable ws : list bool.
  Variable o : op.
  Variables s r : ts.

  (* resource.text_by_offset(Offset::simple(b, e)) is Ok (b <= e <= length) and all of it whitespace *)
  Definition text_ws (b e : nat) : bool :=
    if (b <=? e) && (e <=? length ws) then forallb (fun x => x) (firstn (e - b) (skipn b ws)) else false.

  Fixpoint eval_n (var : option nat) (e : nexp) : option nat :=
    match e with
    | NSb => Some (tb s) | NSe => Some (te s) | NRb => Some (tb r) | NRe => Some (te r)
    | NLim => olim o
    | NVar => var
    | NWsLimit => Some WHITESPACE_LIMIT
    | NLit n => Some n
    | NSub a b =>
        match eval_n var a, eval_n var b with
        | Some x, Some y => if y <=? x then Some (x - y) else None
        | _, _ => None
        end
    end.

  Definition cmp2 (f : nat -> nat -> bool) (x y : option nat) : option bool :=
    match x, y with Some a, Some b => Some (f a b) | _, _ => None end.

  Fixpoint eval_b (var : option nat) (e : bexp) : option bool :=
    match e with
    | BTrue => Some true | BFalse => Some false
    | BAllowWs => Some (ows o)
    | BTsEq => Some (ts_eqb s r)
    | BLe a b => cmp2 Nat.leb (eval_n var a) (eval_n var b)
    | BLt a b => cmp2 Nat.ltb (eval_n var a) (eval_n var b)
    | BEq a b => cmp2 Nat.eqb (eval_n var a) (eval_n var b)
    | BAnd a b => match eval_b var a with Some true => eval_b var b | x => x end
    | BOr a b => match eval_b var a with Some false => eval_b var b | x => x end
    | BNot a => option_map negb (eval_b var a)
    | BIf c t e => match eval_b var c with Some true => eval_b var t | Some false => eval_b var e | None => None end
    | BLet v body => match eval_n var v with Some x => eval_b (Some x) body | None => None end
    | BTextWs a b => cmp2 text_ws (eval_n var a) (eval_n var b)
    end.
End Eval.

Definition toggle (o : op) : op := mkop (orel o) (oall o) (negb (oneg o)) (olim o) (ows o).

(* the value of `self.test(operator, reftextsel, resource)`; None = no arm, an unbound name, an
   underflowing subtraction, or a negation arm whose toggled operator lands on a negation arm again *)
Definition interp_pair (arms : list parm) (ws : list bool) (o : op) (s r : ts) : option bool :=
  match find_arm arms o with
  | Some (PExpr b) => eval_b ws o s r None b
  | Some PToggle =>
      match find_arm arms (toggle o) with
      | Some (PExpr b) => option_map negb (eval_b ws (toggle o) s r None b)
      | _ => None
      end
  | None => None
  end.
