(* A first-match table of the arms of `impl TestTextSelection for TextSelection { fn test }`
   (src/textselection.rs) and its interpretation.  The table itself (Gen/RelPairTable.v) is
   regenerated from the source on every run by tools/translate_relpair.py: every arm's pattern and
   its body, as an expression tree.  Proofs/AgreeRelPair.v proves that the table denotes
   Model/Rel.test_pair (the function all theorems of C13 and C06 are about) and that no
   subtraction in it can underflow.
   Evaluation follows Rust: && and || short-circuit, usize subtraction is checked (None when the
   result would be negative: a panic in debug builds, a wrapped value in release builds). *)
From Coq Require Import List Arith Bool.
Import ListNotations.
From Stam Require Import Model.Rel.

Inductive nexp :=
| NSb | NSe            (* self.begin, self.end *)
| NRb | NRe            (* reftextsel.begin, reftextsel.end *)
| NLim                 (* *limit, bound by a pattern `limit: Some(limit)` *)
| NVar                 (* the variable of the enclosing `let` *)
| NWsLimit             (* WHITESPACE_LIMIT *)
| NLit (n : nat)
| NSub (a b : nexp)
| NAdd (a b : nexp)   (* usize addition; positions are far below the overflow *)
| NFold                (* the value bound by `if let Some(x) = x` for the folded minimum / maximum *)
| NLeftB               (* refset.leftmost().unwrap().begin() *)
| NRightE.             (* refset.rightmost().unwrap().end() *)

Inductive bexp :=
| BTrue | BFalse
| BAllowWs             (* allow_whitespace, bound by the pattern *)
| BTsEq                (* self == reftextsel *)
| BLe (a b : nexp) | BLt (a b : nexp) | BEq (a b : nexp)
| BAnd (a b : bexp) | BOr (a b : bexp) | BNot (a : bexp)
| BIf (c t e : bexp)
| BLet (v : nexp) (body : bexp)
| BSomeEqFold (a : nexp)      (* Some(a) == <the folded minimum / maximum> *)
| BIfFold (t e : bexp)       (* if let Some(x) = <the folded value> { t } else { e } *)
| BTextWs (a b : nexp). (* if let Ok(gap) = resource.text_by_offset(&Offset::simple(a, b))
                            { gap.chars().all(|c| c.is_whitespace()) } else { false } *)

Inductive pbody :=
| PExpr (b : bexp)
| PToggle.             (* !self.test(&operator.toggle_negate(), reftextsel, resource) *)

(* `TextSelectionOperator::X { all: .., negate: .., limit: .., .. }`: None = not mentioned (or bound
   to a name); for the limit Some true = `Some(limit)`, Some false = `None` *)
Record ppat := mkpp { p_rel : rel; p_all : option bool; p_neg : option bool; p_lim : option bool }.
Record parm := mkparm { pa_pats : list ppat; pa_body : pbody }.

Definition rel_eqb (a b : rel) : bool :=
  match a, b with
  | Equals, Equals | Overlaps, Overlaps | Embeds, Embeds | Embedded, Embedded | Before, Before
  | After, After | Precedes, Precedes | Succeeds, Succeeds | SameBegin, SameBegin | SameEnd, SameEnd
  | InSet, InSet | SameRange, SameRange => true
  | _, _ => false
  end.

Definition flag_matches (p : option bool) (v : bool) : bool :=
  match p with None => true | Some b => Bool.eqb b v end.

Definition pat_matches (p : ppat) (o : op) : bool :=
  rel_eqb (p_rel p) (orel o) && flag_matches (p_all p) (oall o) && flag_matches (p_neg p) (oneg o)
  && match p_lim p, olim o with
     | None, _ => true
     | Some true, Some _ => true
     | Some false, None => true
     | _, _ => false
     end.

Fixpoint find_arm (arms : list parm) (o : op) : option pbody :=
  match arms with
  | [] => None
  | a :: arms' => if existsb (fun p => pat_matches p o) (pa_pats a) then Some (pa_body a) else find_arm arms' o
  end.

Section Eval.
  Variable ws : list bool.
  Variable o : op.
  Variables s r : ts.
  (* only in the tests against a set: the folded value (None before the first member), the begin of
     refset.leftmost() and the end of refset.rightmost() (None = the set is empty: unwrap() panics) *)
  Variables fold lmb rme : option nat.

  (* resource.text_by_offset(Offset::simple(b, e)) is Ok (b <= e <= length) and all of it whitespace *)
  Definition text_ws (b e : nat) : bool :=
    if (b <=? e) && (e <=? length ws) then forallb (fun x => x) (firstn (e - b) (skipn b ws)) else false.

  Fixpoint eval_n (var : option nat) (e : nexp) : option nat :=
    match e with
    | NSb => Some (tb s) | NSe => Some (te s) | NRb => Some (tb r) | NRe => Some (te r)
    | NLim => olim o
    | NVar => var
    | NWsLimit => Some WHITESPACE_LIMIT
    | NLit n => Some n
    | NSub a b =>
        match eval_n var a, eval_n var b with
        | Some x, Some y => if y <=? x then Some (x - y) else None
        | _, _ => None
        end
    | NAdd a b => match eval_n var a, eval_n var b with Some x, Some y => Some (x + y) | _, _ => None end
    | NFold => fold
    | NLeftB => lmb
    | NRightE => rme
    end.

  Definition cmp2 (f : nat -> nat -> bool) (x y : option nat) : option bool :=
    match x, y with Some a, Some b => Some (f a b) | _, _ => None end.

  Fixpoint eval_b (var : option nat) (e : bexp) : option bool :=
    match e with
    | BTrue => Some true | BFalse => Some false
    | BAllowWs => Some (ows o)
    | BTsEq => Some (ts_eqb s r)
    | BLe a b => cmp2 Nat.leb (eval_n var a) (eval_n var b)
    | BLt a b => cmp2 Nat.ltb (eval_n var a) (eval_n var b)
    | BEq a b => cmp2 Nat.eqb (eval_n var a) (eval_n var b)
    | BAnd a b => match eval_b var a with Some true => eval_b var b | x => x end
    | BOr a b => match eval_b var a with Some false => eval_b var b | x => x end
    | BNot a => option_map negb (eval_b var a)
    | BIf c t e => match eval_b var c with Some true => eval_b var t | Some false => eval_b var e | None => None end
    | BLet v body => match eval_n var v with Some x => eval_b (Some x) body | None => None end
    | BSomeEqFold a =>
        match eval_n var a with
        | Some x => Some (match fold with Some y => Nat.eqb x y | None => false end)
        | None => None
        end
    | BIfFold t e => match fold with Some _ => eval_b var t | None => eval_b var e end
    | BTextWs a b => cmp2 text_ws (eval_n var a) (eval_n var b)
    end.
End Eval.

Definition toggle (o : op) : op := mkop (orel o) (oall o) (negb (oneg o)) (olim o) (ows o).

(* the value of `self.test(operator, reftextsel, resource)`; None = no arm, an unbound name, an
   underflowing subtraction, or a negation arm whose toggled operator lands on a negation arm again *)
Definition interp_pair (arms : list parm) (ws : list bool) (o : op) (s r : ts) : option bool :=
  match find_arm arms o with
  | Some (PExpr b) => eval_b ws o s r None None None None b
  | Some PToggle =>
      match find_arm arms (toggle o) with
      | Some (PExpr b) => option_map negb (eval_b ws (toggle o) s r None None None None b)
      | _ => None
      end
  | None => None
  end.

(** * TextSelection::test_set: one selection against a set *)

Inductive sstmt :=
| SAny           (* for reftextsel in refset.iter() { if self.test(operator, reftextsel, resource) { return true; } } false *)
| SAllNonEmpty   (* if refset.is_empty() { return false; } for .. { if !self.test(..) { return false; } } true *)
| SNonEmpty (b : bexp)       (* if refset.is_empty() { return false; } <expression> *)
| SFoldMinBegin (b : bexp)   (* ... let mut m = None; for other in refset.iter() { if m.is_none() || other.begin < m.unwrap() { m = Some(other.begin); } } <expression> *)
| SFoldMaxEnd (b : bexp)     (* ... the same with other.end > m.unwrap() *)
| SToggle.                   (* !self.test_set(&operator.toggle_negate(), refset, resource) *)

Record sarm := mksarm { sa_pats : list ppat; sa_body : sstmt }.

Fixpoint find_sarm (arms : list sarm) (o : op) : option sstmt :=
  match arms with
  | [] => None
  | a :: arms' => if existsb (fun p => pat_matches p o) (sa_pats a) then Some (sa_body a) else find_sarm arms' o
  end.

(* a loop with an early return over tests that may fail *)
Fixpoint any_opt (f : ts -> option bool) (l : list ts) : option bool :=
  match l with
  | [] => Some false
  | x :: l' => match f x with Some true => Some true | Some false => any_opt f l' | None => None end
  end.
Fixpoint all_opt (f : ts -> option bool) (l : list ts) : option bool :=
  match l with
  | [] => Some true
  | x :: l' => match f x with Some true => all_opt f l' | Some false => Some false | None => None end
  end.

Definition fold_min_begin (l : list ts) : option nat :=
  fold_left (fun m y => match m with None => Some (tb y) | Some v => if tb y <? v then Some (tb y) else Some v end) l None.
Definition fold_max_end (l : list ts) : option nat :=
  fold_left (fun m y => match m with None => Some (te y) | Some v => if v <? te y then Some (te y) else Some v end) l None.

Definition is_nil' {X} (l : list X) : bool := match l with [] => true | _ => false end.

Definition run_stmt (parms : list parm) (ws : list bool) (o : op) (s : ts) (B : tset) (st : sstmt) : option bool :=
  let lmb := option_map tb (leftmost B) in
  let rme := option_map te (rightmost B) in
  match st with
  | SAny => any_opt (interp_pair parms ws o s) (items B)
  | SAllNonEmpty => if is_nil' (items B) then Some false else all_opt (interp_pair parms ws o s) (items B)
  | SNonEmpty b => if is_nil' (items B) then Some false else eval_b ws o s s None lmb rme None b
  | SFoldMinBegin b => if is_nil' (items B) then Some false else eval_b ws o s s (fold_min_begin (items B)) lmb rme None b
  | SFoldMaxEnd b => if is_nil' (items B) then Some false else eval_b ws o s s (fold_max_end (items B)) lmb rme None b
  | SToggle => None
  end.

Definition interp_ts_set (parms : list parm) (arms : list sarm) (ws : list bool) (o : op) (s : ts) (B : tset) : option bool :=
  match find_sarm arms o with
  | Some SToggle =>
      match find_sarm arms (toggle o) with
      | Some SToggle | None => None
      | Some st => option_map negb (run_stmt parms ws (toggle o) s B st)
      end
  | Some st => run_stmt parms ws o s B st
  | None => None
  end.

(** * TextSelectionSet::test and TextSelectionSet::test_set: a set against a selection / a set *)
(* both begin with `if self.is_empty() { return false; }` and delegate to the tests of the members *)

Inductive gstmt :=
| GAll          (* for item in self.iter() { if !item.<test>(operator, <ref>, resource) { return false; } } true *)
| GLenAll       (* if self.len() != refset.len() { return false; } and then GAll *)
| GRightmost    (* self.rightmost().unwrap().<test>(operator, <ref>, resource) *)
| GLeftmost     (* self.leftmost().unwrap().<test>(operator, <ref>, resource) *)
| GSameRange    (* the comparison of self.begin() / self.end() with those of the reference *)
| GToggle.      (* !self.<test>(&operator.toggle_negate(), <ref>, resource) *)

Record garm := mkgarm { ga_pats : list ppat; ga_body : gstmt }.

Fixpoint find_garm (arms : list garm) (o : op) : option gstmt :=
  match arms with
  | [] => None
  | a :: arms' => if existsb (fun p => pat_matches p o) (ga_pats a) then Some (ga_body a) else find_garm arms' o
  end.

Definition run_gstmt (inner : ts -> option bool) (lens_differ : bool) (same_range : bool) (A : tset) (st : gstmt) : option bool :=
  match st with
  | GAll => all_opt inner (items A)
  | GLenAll => if lens_differ then Some false else all_opt inner (items A)
  | GRightmost => match rightmost A with Some a => inner a | None => None end
  | GLeftmost => match leftmost A with Some a => inner a | None => None end
  | GSameRange => Some same_range
  | GToggle => None
  end.

Definition interp_g (arms : list garm) (inner : op -> ts -> option bool) (lens_differ same_range : bool) (o : op) (A : tset) : option bool :=
  if is_nil' (items A) then Some false
  else match find_garm arms o with
       | Some GToggle =>
           match find_garm arms (toggle o) with
           | Some GToggle | None => None
           | Some st => option_map negb (run_gstmt (inner (toggle o)) lens_differ same_range A st)
           end
       | Some st => run_gstmt (inner o) lens_differ same_range A st
       | None => None
       end.

Definition opt_nat_eqb (a b : option nat) : bool :=
  match a, b with Some x, Some y => Nat.eqb x y | None, None => true | _, _ => false end.

(* self.begin() == Some(reftextsel.begin()) && self.end() == Some(reftextsel.end()) *)
Definition same_range_ts (A : tset) (r : ts) : bool :=
  opt_nat_eqb (option_map tb (leftmost A)) (Some (tb r)) && opt_nat_eqb (option_map te (rightmost A)) (Some (te r)).
(* !refset.is_empty() && self.begin() == refset.begin() && self.end() == refset.end() *)
Definition same_range_set (A B : tset) : bool :=
  negb (is_nil' (items B)) && opt_nat_eqb (option_map tb (leftmost A)) (option_map tb (leftmost B))
  && opt_nat_eqb (option_map te (rightmost A)) (option_map te (rightmost B)).

Definition interp_set_ts (parms : list parm) (arms : list garm) (ws : list bool) (o : op) (A : tset) (r : ts) : option bool :=
  interp_g arms (fun o' a => interp_pair parms ws o' a r) false (same_range_ts A r) o A.

Definition interp_set_set (parms : list parm) (sarms : list sarm) (arms : list garm) (ws : list bool) (o : op) (A B : tset) : option bool :=
  interp_g arms (fun o' a => interp_ts_set parms sarms ws o' a B)
           (negb (Nat.eqb (length (items A)) (length (items B)))) (same_range_set A B) o A.
