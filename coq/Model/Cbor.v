(* C11.  Executable model of the binary (CBOR) serialisation of stam-rust.

   Three layers, bottom up:
   1. bytes <-> tokens: a token is the head of one CBOR data item (RFC 8949 major type +
      argument, text strings with their payload).  [bytes_of_toks] writes the shortest form the
      way minicbor's Encoder does (u8/u16/u32/u64 argument chosen by value, f64 always 9 bytes);
      [toks_of_bytes] reads any definite-length head.
   2. a SCHEMA: what `#[derive(Encode, Decode)]` sees on every item of the crate: structs and
      enums with their fields, the index `#[n(k)]`, `#[cbor(skip)]`, `#[cbor(transparent)]` and
      `encode_with/decode_with` function names.  coq/Gen/CborSchema.v is this value extracted
      from the current Rust source by tools/translate_c11.py.
   3. the generic encoder/decoder of minicbor-derive 0.15 (array encoding, the only one the
      crate uses) over untyped value trees:
        struct   = array(max index of a non-nil field + 1); slot i = the field with index i,
                   `null` where no field has that index; fields behind the last non-nil one are
                   left out; [] when every field is nil;   (encode.rs encode_fields / decode.rs
                   gen_statements; nil = Option::None)
        enum     = array(2) [variant index, fields encoded like a struct except that no field
                   is ever left out]; a unit variant has array(0) as payload and the decoder
                   skips one item for it;
        transparent struct = its only field;
        Option   = null | the value;  Vec = array(n) items;  maps = map(n) key value ...;
        tuples   = array(k) items;  PhantomData = array(0);
        custom codecs: looked up BY NAME PAIR in [codec_table]; a pair that is not in the
        table makes [wf_schema] false and the decoder fail.
   Decoding errors are [None]; nothing here can panic. *)
From Coq Require Import String Ascii.
From Coq Require Import List Arith ZArith NArith Bool.
Import ListNotations.
Local Open Scope nat_scope.

(* ------------------------------------------------------------------ *)
(* 1. wire                                                              *)

Inductive tok : Type :=
| TUInt (n : N)          (* major 0 *)
| TNInt (n : N)          (* major 1, denotes -1-n *)
| TText (s : list N)     (* major 3, payload bytes *)
| TArr (n : nat)         (* major 4, definite length header *)
| TMap (n : nat)         (* major 5, definite length header *)
| TNull
| TBool (b : bool)
| TF64 (bits : N).       (* major 7, additional 27: the 64 bits of the double *)

Definition two8 : N := 256.
Definition two16 : N := 65536.
Definition two32 : N := 4294967296.
Definition two64 : N := 18446744073709551616.
Definition two63z : Z := 9223372036854775808.

(* k bytes, big endian *)
Fixpoint be_bytes (k : nat) (a : N) : list N :=
  match k with
  | 0 => []
  | S k' => N.modulo (N.div a (N.pow 256 (N.of_nat k'))) 256 :: be_bytes k' a
  end.

Definition from_be (l : list N) : N := fold_left (fun acc b => N.add (N.mul acc 256) b) l 0%N.

Definition head (m : N) (a : N) : list N :=
  let b := N.mul m 32 in
  if N.ltb a 24 then [N.add b a]
  else if N.ltb a two8 then [N.add b 24; a]
  else if N.ltb a two16 then N.add b 25 :: be_bytes 2 a
  else if N.ltb a two32 then N.add b 26 :: be_bytes 4 a
  else N.add b 27 :: be_bytes 8 a.

Definition bytes_of_tok (t : tok) : list N :=
  match t with
  | TUInt n => head 0 n
  | TNInt n => head 1 n
  | TText s => head 3 (N.of_nat (length s)) ++ s
  | TArr n => head 4 (N.of_nat n)
  | TMap n => head 5 (N.of_nat n)
  | TNull => [246%N]
  | TBool false => [244%N]
  | TBool true => [245%N]
  | TF64 b => 251%N :: be_bytes 8 b
  end.

Definition bytes_of_toks (l : list tok) : list N := flat_map bytes_of_tok l.

(* argument of a head whose additional information is [ai]: value and rest *)
Definition read_arg (ai : N) (bs : list N) : option (N * list N) :=
  if N.ltb ai 24 then Some (ai, bs)
  else
    let k := if N.eqb ai 24 then 1 else if N.eqb ai 25 then 2 else if N.eqb ai 26 then 4
             else if N.eqb ai 27 then 8 else 0 in
    if Nat.eqb k 0 then None
    else if Nat.ltb (length bs) k then None
    else Some (from_be (firstn k bs), skipn k bs).

Definition tok_of_bytes (bs : list N) : option (tok * list N) :=
  match bs with
  | [] => None
  | b :: r =>
      let m := N.div b 32 in
      let ai := N.modulo b 32 in
      if N.eqb m 7 then
        if N.eqb ai 20 then Some (TBool false, r)
        else if N.eqb ai 21 then Some (TBool true, r)
        else if N.eqb ai 22 then Some (TNull, r)
        else if N.eqb ai 27 then
          (if Nat.ltb (length r) 8 then None else Some (TF64 (from_be (firstn 8 r)), skipn 8 r))
        else None
      else
        match read_arg ai r with
        | None => None
        | Some (a, r') =>
            if N.eqb m 0 then Some (TUInt a, r')
            else if N.eqb m 1 then Some (TNInt a, r')
            else if N.eqb m 3 then
              (let n := N.to_nat a in
               if Nat.ltb (length r') n then None else Some (TText (firstn n r'), skipn n r'))
            else if N.eqb m 4 then Some (TArr (N.to_nat a), r')
            else if N.eqb m 5 then Some (TMap (N.to_nat a), r')
            else None  (* byte strings, tags: never written by the crate *)
        end
  end.

Fixpoint toks_of_bytes (fuel : nat) (bs : list N) : option (list tok) :=
  match bs with
  | [] => Some []
  | _ =>
      match fuel with
      | 0 => None
      | S fuel' =>
          match tok_of_bytes bs with
          | None => None
          | Some (t, r) =>
              match toks_of_bytes fuel' r with
              | None => None
              | Some l => Some (t :: l)
              end
          end
      end
  end.

(* skip [n] complete data items (Decoder::skip), fuel = tokens available + 1 *)
Fixpoint skip_items (fuel : nat) (n : nat) (ts : list tok) : option (list tok) :=
  match fuel with
  | 0 => None
  | S f =>
      match n with
      | 0 => Some ts
      | S n' =>
          match ts with
          | [] => None
          | TArr k :: r => skip_items f (k + n') r
          | TMap k :: r => skip_items f (k + k + n') r
          | _ :: r => skip_items f n' r
          end
      end
  end.

Definition skip1 (ts : list tok) : option (list tok) := skip_items (S (length ts)) 1 ts.

(* the whole stream is exactly [n] well-formed items: every array/map header is followed by
   exactly as many items as it announces *)
Definition wellformed_items (n : nat) (ts : list tok) : bool :=
  match skip_items (S (length ts)) n ts with Some [] => true | _ => false end.

(* identifiers: lists of characters (Coq's [string] is avoided in everything that is extracted;
   [i_] is only used under [Eval vm_compute], so no string survives in a definition) *)
Definition ident : Type := list ascii.
Fixpoint ident_eqb (a b : ident) {struct a} : bool :=
  match a, b with
  | [], [] => true
  | x :: a', y :: b' => Ascii.eqb x y && ident_eqb a' b'
  | _, _ => false
  end.
Definition i_ (s : string) : ident := list_ascii_of_string s.

(* ------------------------------------------------------------------ *)
(* 2. schema                                                            *)

Inductive prim : Type := PU16 | PU32 | PU64 | PI64 | PBool | PStr | PF64 | PUnit.

Inductive ty : Type :=
| TP (p : prim)
| TOpt (t : ty)
| TVec (t : ty)
| TMapT (k v : ty)
| TTup (l : list ty)
| TRef (name : ident)
| TOpaque (name : ident).   (* a type the derive never looks into: only under a custom codec *)

Record field : Type := mkField {
  f_name : ident;
  f_idx : option nat;                 (* None = #[cbor(skip)] *)
  f_ty : ty;
  f_codec : option (ident * ident)  (* encode_with, decode_with *)
}.

Record variant : Type := mkVariant {
  v_name : ident;
  v_idx : nat;
  v_unit : bool;                      (* unit variant: no field list at all *)
  v_fields : list field
}.

Inductive item : Type :=
| IStruct (transparent : bool) (fs : list field)
| IEnum (vs : list variant).

Definition schema : Type := list (ident * item).

(* untyped value trees *)
Inductive value : Type :=
| VN (n : N)
| VZ (z : Z)
| VB (b : bool)
| VS (s : list N)
| VF (bits : N)
| VU
| VNone
| VSome (v : value)
| VSeq (l : list value)          (* Vec, tuple *)
| VPair (k v : value)            (* map entry *)
| VMapv (l : list value)         (* entries in iteration order *)
| VRec (l : list value)          (* struct: one value per declared field, declaration order *)
| VVar (k : nat) (l : list value). (* enum: position of the variant in the declaration, its fields *)

(* custom codecs, by what they do on the wire *)
Inductive codec : Type :=
| CAs (t : ty)              (* writes/reads exactly what a field of type [t] would *)
| CConstNull (v : value).   (* writes one null; reads it back (or nothing, for files written
                               before the null was there) and yields the constant [v] *)

(* The pairs whose behaviour was read off /repo/src/cbor.rs:
   - positionitem_smallvec: e.array(len); each (usize, TextSelectionHandle) through its own
     Encode (a 2-tuple; the handle is a transparent u32); decoded with array_iter_with;
   - datetime: the RFC 3339 text (chrono's print/parse round trip is trusted);
   - serialize_mode: transient flag of the JSON serialiser; one null on the wire; a loaded
     store is at rest, i.e. AllowInclude (modelled as [VB true]), like a fresh Config. *)
Definition codec_table : list (ident * ident * codec) := Eval vm_compute in
  [ (i_ "cbor_encode_positionitem_smallvec", i_ "cbor_decode_positionitem_smallvec",
     CAs (TVec (TTup [TP PU64; TP PU32])));
    (i_ "cbor_encode_datetime", i_ "cbor_decode_datetime", CAs (TP PStr));
    (i_ "cbor_encode_serialize_mode", i_ "cbor_decode_serialize_mode", CConstNull (VB true)) ].

Fixpoint lookup_codec_in (tbl : list (ident * ident * codec)) (e d : ident) : option codec :=
  match tbl with
  | [] => None
  | (e', d', c) :: r => if ident_eqb e e' && ident_eqb d d' then Some c else lookup_codec_in r e d
  end.
Definition lookup_codec := lookup_codec_in codec_table.

Inductive fkind : Type := FK_ty (t : ty) | FK_const (v : value) | FK_bad.

Definition fkind_of (f : field) : fkind :=
  match f_codec f with
  | None => FK_ty (f_ty f)
  | Some (e, d) =>
      match lookup_codec e d with
      | Some (CAs t) => FK_ty t
      | Some (CConstNull v) => FK_const v
      | None => FK_bad
      end
  end.

Definition is_opt (t : ty) : bool := match t with TOpt _ => true | _ => false end.
Definition is_none (v : value) : bool := match v with VNone => true | _ => false end.

(* Encode::is_nil as the derive calls it: the type's own for plain fields (only Option
   overrides it), `Option::is_none` for a custom codec on a syntactic Option, else false *)
Definition isnil (f : field) (v : value) : bool :=
  match f_codec f with
  | None => is_none v
  | Some _ => is_opt (f_ty f) && is_none v
  end.

(* Inside an enum variant the derive binds the fields by pattern (`Enum::Var(a, b) =>`), so the
   nil test is applied to a `&&Option<T>`, i.e. to the blanket `impl Encode for &T`, which does
   not forward is_nil: no field of a variant is ever left out (found by the byte comparison with
   real files: AnnotationSelector(h, None) is written as [h, null], not [h]). *)
Definition no_nils (l : list value) : list bool := map (fun _ => false) l.

Definition default_prim (p : prim) : value :=
  match p with
  | PU16 | PU32 | PU64 => VN 0
  | PI64 => VZ 0
  | PBool => VB false
  | PStr => VS []
  | PF64 => VF 0
  | PUnit => VU
  end.
Definition default_of (t : ty) : value :=
  match t with TP p => default_prim p | TOpt _ => VNone | TVec _ => VSeq [] | TMapT _ _ => VMapv [] | _ => VNone end.

(* position and declaration of the field with index i *)
Fixpoint find_fld_from (p : nat) (fs : list field) (i : nat) : option (nat * field) :=
  match fs with
  | [] => None
  | f :: r =>
      match f_idx f with
      | Some j => if Nat.eqb j i then Some (p, f) else find_fld_from (S p) r i
      | None => find_fld_from (S p) r i
      end
  end.
Definition find_fld := find_fld_from 0.

(* --- the body of a struct / variant as minicbor-derive 0.15 `encode_fields` writes it under
       array encoding.  What the generated code needs of each non-skipped field: --- *)
Record dfield : Type := mkD { d_idx : nat; d_enc : list tok; d_nil : bool }.

Fixpoint collect (fs : list field) (encs : list (list tok)) (nils : list bool) : list dfield :=
  match fs, encs, nils with
  | f :: fr, e :: er, b :: br =>
      match f_idx f with
      | Some i => mkD i e b :: collect fr er br
      | None => collect fr er br
      end
  | _, _, _ => []
  end.

(* Fields::try_from: `fields.sort_unstable_by_key(|f| f.index.val())` (indices are unique) *)
Fixpoint insert_d (x : dfield) (l : list dfield) : list dfield :=
  match l with
  | [] => [x]
  | y :: r => if Nat.leb (d_idx x) (d_idx y) then x :: l else y :: insert_d x r
  end.
Definition sort_d (l : list dfield) : list dfield := fold_right insert_d [] l.

(* the tests, one per field in index order: `if !is_nil(&field) { __max_index = Some(n) }` *)
Fixpoint derive_max (sf : list dfield) (acc : option nat) : option nat :=
  match sf with
  | [] => acc
  | x :: r => derive_max r (if d_nil x then acc else Some (d_idx x))
  end.

(* the statements, one per field in index order:
   `if n <= __i { for _ in 0 .. gaps { e.null()? } encode(field) }`
   where `gaps` is computed when the macro expands: n - k for the first field, n - k - 1
   afterwards, k = index of the previous field (0 at the start) *)
Fixpoint derive_emit (first : bool) (k : nat) (m : nat) (sf : list dfield) : list tok :=
  match sf with
  | [] => []
  | x :: r =>
      let gaps := if first then d_idx x - k else d_idx x - k - 1 in
      (if Nat.leb (d_idx x) m then repeat TNull gaps ++ d_enc x else [])
      ++ derive_emit false (d_idx x) m r
  end.

(* `if let Some(i) = __max_index { e.array(i + 1); statements } else { e.array(0) }` *)
Definition enc_rec (fs : list field) (encs : list (list tok)) (nils : list bool) : list tok :=
  let sf := sort_d (collect fs encs nils) in
  match derive_max sf None with
  | None => [TArr 0]
  | Some m => TArr (S m) :: derive_emit true 0 m sf
  end.

Fixpoint find_var_from (p : nat) (vs : list variant) (k : nat) : option (nat * variant) :=
  match vs with
  | [] => None
  | v :: r => if Nat.eqb (v_idx v) k then Some (p, v) else find_var_from (S p) r k
  end.
Definition find_var := find_var_from 0.

Definition dec_prim (p : prim) (ts : list tok) : option (value * list tok) :=
  match p, ts with
  | PU16, TUInt n :: r => if N.ltb n two16 then Some (VN n, r) else None
  | PU32, TUInt n :: r => if N.ltb n two32 then Some (VN n, r) else None
  | PU64, TUInt n :: r => if N.ltb n two64 then Some (VN n, r) else None
  | PI64, TUInt n :: r => if Z.ltb (Z.of_N n) two63z then Some (VZ (Z.of_N n), r) else None
  | PI64, TNInt n :: r => if Z.ltb (Z.of_N n) two63z then Some (VZ (-1 - Z.of_N n), r) else None
  | PBool, TBool b :: r => Some (VB b, r)
  | PStr, TText s :: r => Some (VS s, r)
  | PF64, TF64 b :: r => Some (VF b, r)
  | PUnit, TArr 0 :: r => Some (VU, r)
  | _, _ => None
  end.

Definition enc_prim (p : prim) (v : value) : list tok :=
  match p, v with
  | PU16, VN n | PU32, VN n | PU64, VN n => [TUInt n]
  | PI64, VZ z => [if Z.leb 0 z then TUInt (Z.to_N z) else TNInt (Z.to_N (-1 - z))]
  | PBool, VB b => [TBool b]
  | PStr, VS s => [TText s]
  | PF64, VF b => [TF64 b]
  | PUnit, VU => [TArr 0]
  | _, _ => []
  end.

Definition ht_prim (p : prim) (v : value) : bool :=
  match p, v with
  | PU16, VN n => N.ltb n two16
  | PU32, VN n => N.ltb n two32
  | PU64, VN n => N.ltb n two64
  | PI64, VZ z => Z.leb (- two63z) z && Z.ltb z two63z
  | PBool, VB _ => true
  | PStr, VS _ => true
  | PF64, VF _ => true
  | PUnit, VU => true
  | _, _ => false
  end.

(* n items with the same decoder *)
Fixpoint dec_list (d : list tok -> option (value * list tok)) (n : nat) (ts : list tok)
  : option (list value * list tok) :=
  match n with
  | 0 => Some ([], ts)
  | S n' =>
      match d ts with
      | None => None
      | Some (v, r) =>
          match dec_list d n' r with
          | None => None
          | Some (l, r') => Some (v :: l, r')
          end
      end
  end.

(* one item per decoder *)
Fixpoint dec_each (ds : list (list tok -> option (value * list tok))) (ts : list tok)
  : option (list value * list tok) :=
  match ds with
  | [] => Some ([], ts)
  | d :: dr =>
      match d ts with
      | None => None
      | Some (v, r) =>
          match dec_each dr r with
          | None => None
          | Some (l, r') => Some (v :: l, r')
          end
      end
  end.

(* the slot loop of the derived decoder: for i in 0..n, the field with index i or skip *)
Fixpoint dec_slots (decf : field -> list tok -> option (value * list tok)) (fs : list field)
         (i n : nat) (ts : list tok) (acc : list (nat * value)) : option (list (nat * value) * list tok) :=
  match n with
  | 0 => Some (acc, ts)
  | S n' =>
      match find_fld fs i with
      | Some (p, f) =>
          match decf f ts with
          | None => None
          | Some (v, r) => dec_slots decf fs (S i) n' r ((p, v) :: acc)
          end
      | None =>
          match skip1 ts with
          | None => None
          | Some r => dec_slots decf fs (S i) n' r acc
          end
      end
  end.

Fixpoint assoc_pos (p : nat) (acc : list (nat * value)) : option value :=
  match acc with
  | [] => None
  | (q, v) :: r => if Nat.eqb q p then Some v else assoc_pos p r
  end.

(* struct construction: decoded value, else nil() (None for an Option), else "missing value";
   skipped fields get Default::default() *)
Fixpoint build_from (p : nat) (fs : list field) (acc : list (nat * value)) : option (list value) :=
  match fs with
  | [] => Some []
  | f :: r =>
      let here :=
        match f_idx f with
        | None => Some (default_of (f_ty f))
        | Some _ =>
            match assoc_pos p acc with
            | Some v => Some v
            | None => if is_opt (f_ty f) then Some VNone else None
            end
        end in
      match here, build_from (S p) r acc with
      | Some v, Some l => Some (v :: l)
      | _, _ => None
      end
  end.

Definition dec_rec (decf : field -> list tok -> option (value * list tok)) (fs : list field)
           (ts : list tok) : option (list value * list tok) :=
  match ts with
  | TArr n :: r =>
      match dec_slots decf fs 0 n r [] with
      | None => None
      | Some (acc, r') =>
          match build_from 0 fs acc with
          | None => None
          | Some l => Some (l, r')
          end
      end
  | _ => None
  end.

(* pointwise combinators over a declaration list and a value list *)
Fixpoint zipw {A B C : Type} (f : A -> B -> C) (la : list A) (lb : list B) {struct lb} : list C :=
  match la, lb with
  | x :: la', y :: lb' => f x y :: zipw f la' lb'
  | _, _ => []
  end.
Fixpoint all2 {A B : Type} (f : A -> B -> bool) (la : list A) (lb : list B) {struct lb} : bool :=
  match la, lb with
  | [], [] => true
  | x :: la', y :: lb' => f x y && all2 f la' lb'
  | _, _ => false
  end.

Section WithSchema.
Variable Sc : schema.

Fixpoint lookup_in (s : schema) (name : ident) : option item :=
  match s with
  | [] => None
  | (n, it) :: r => if ident_eqb n name then Some it else lookup_in r name
  end.
Definition lookup := lookup_in Sc.

(* --- encoder: structural in the value --- *)
Fixpoint enc (t : ty) (v : value) {struct v} : list tok :=
  match t with
  | TP p => enc_prim p v
  | TOpt t' =>
      match v with
      | VNone => [TNull]
      | VSome v' => enc t' v'
      | _ => []
      end
  | TVec t' =>
      match v with
      | VSeq l => TArr (length l) :: flat_map (enc t') l
      | _ => []
      end
  | TMapT kt vt =>
      match v with
      | VMapv l =>
          TMap (length l) ::
          flat_map (fun e => match e with VPair k x => enc kt k ++ enc vt x | _ => [] end) l
      | _ => []
      end
  | TTup tys =>
      match v with
      | VSeq l =>
          TArr (length tys) ::
          (fix go (tys : list ty) (l : list value) {struct l} : list tok :=
             match tys, l with
             | t' :: tr, v' :: lr => enc t' v' ++ go tr lr
             | _, _ => []
             end) tys l
      | _ => []
      end
  | TRef name =>
      let encs :=
        fix go (fs : list field) (l : list value) {struct l} : list (list tok) :=
          match fs, l with
          | f :: fr, v' :: lr =>
              match fkind_of f with
              | FK_ty t' => enc t' v'
              | FK_const _ => [TNull]
              | FK_bad => []
              end :: go fr lr
          | _, _ => []
          end in
      match lookup name with
      | Some (IStruct true fs) =>
          match v with
          | VRec l => match encs fs l with [e] => e | _ => [] end
          | _ => []
          end
      | Some (IStruct false fs) =>
          match v with
          | VRec l => enc_rec fs (encs fs l) (zipw isnil fs l)
          | _ => []
          end
      | Some (IEnum vs) =>
          match v with
          | VVar k l =>
              match nth_error vs k with
              | Some vr =>
                  TArr 2 :: TUInt (N.of_nat (v_idx vr)) ::
                  enc_rec (v_fields vr) (encs (v_fields vr) l) (no_nils l)
              | None => []
              end
          | _ => []
          end
      | None => []
      end
  | TOpaque _ => []
  end.

Definition encf (f : field) (v : value) : list tok :=
  match fkind_of f with
  | FK_ty t => enc t v
  | FK_const _ => [TNull]
  | FK_bad => []
  end.
Fixpoint encs (fs : list field) (l : list value) {struct l} : list (list tok) :=
  match fs, l with
  | f :: fr, v :: lr => encf f v :: encs fr lr
  | _, _ => []
  end.
Fixpoint enc_tuple (tys : list ty) (l : list value) {struct l} : list tok :=
  match tys, l with
  | t :: tr, v :: lr => enc t v ++ enc_tuple tr lr
  | _, _ => []
  end.

(* --- decoder: fuel bounds the nesting depth --- *)
Definition decf_with (dec : ty -> list tok -> option (value * list tok)) (f : field) (ts : list tok)
  : option (value * list tok) :=
  match fkind_of f with
  | FK_ty t => dec t ts
  | FK_const c => match ts with TNull :: r => Some (c, r) | _ => Some (c, ts) end
  | FK_bad => None
  end.

Fixpoint dec (fuel : nat) (t : ty) (ts : list tok) {struct fuel} : option (value * list tok) :=
  match fuel with
  | 0 => None
  | S fuel' =>
      match t with
      | TP p => dec_prim p ts
      | TOpt t' =>
          match ts with
          | TNull :: r => Some (VNone, r)
          | _ => match dec fuel' t' ts with
                 | Some (v, r) => Some (VSome v, r)
                 | None => None
                 end
          end
      | TVec t' =>
          match ts with
          | TArr n :: r =>
              match dec_list (dec fuel' t') n r with
              | Some (l, r') => Some (VSeq l, r')
              | None => None
              end
          | _ => None
          end
      | TMapT kt vt =>
          match ts with
          | TMap n :: r =>
              match dec_list (fun ts' =>
                                match dec fuel' kt ts' with
                                | None => None
                                | Some (k, r1) =>
                                    match dec fuel' vt r1 with
                                    | None => None
                                    | Some (x, r2) => Some (VPair k x, r2)
                                    end
                                end) n r with
              | Some (l, r') => Some (VMapv l, r')
              | None => None
              end
          | _ => None
          end
      | TTup tys =>
          match ts with
          | TArr n :: r =>
              if Nat.eqb n (length tys) then
                match dec_each (map (dec fuel') tys) r with
                | Some (l, r') => Some (VSeq l, r')
                | None => None
                end
              else None
          | _ => None
          end
      | TRef name =>
          match lookup name with
          | Some (IStruct true fs) =>
              match fs with
              | [f] =>
                  match decf_with (dec fuel') f ts with
                  | Some (v, r) => Some (VRec [v], r)
                  | None => None
                  end
              | _ => None
              end
          | Some (IStruct false fs) =>
              match dec_rec (decf_with (dec fuel')) fs ts with
              | Some (l, r) => Some (VRec l, r)
              | None => None
              end
          | Some (IEnum vs) =>
              match ts with
              | TArr 2 :: TUInt k :: r =>
                  if N.ltb k two32 then
                    match find_var vs (N.to_nat k) with
                    | Some (p, vr) =>
                        if v_unit vr then
                          match skip1 r with
                          | Some r' => Some (VVar p [], r')
                          | None => None
                          end
                        else
                          match dec_rec (decf_with (dec fuel')) (v_fields vr) r with
                          | Some (l, r') => Some (VVar p l, r')
                          | None => None
                          end
                    | None => None
                    end
                  else None
              | _ => None
              end
          | None => None
          end
      | TOpaque _ => None
      end
  end.

Definition decf (fuel : nat) := decf_with (dec fuel).

(* --- typing of value trees --- *)
Fixpoint ht (t : ty) (v : value) {struct v} : bool :=
  match t with
  | TP p => ht_prim p v
  | TOpt t' =>
      match v with
      | VNone => true
      | VSome v' => ht t' v'
      | _ => false
      end
  | TVec t' =>
      match v with
      | VSeq l => forallb (ht t') l
      | _ => false
      end
  | TMapT kt vt =>
      match v with
      | VMapv l => forallb (fun e => match e with VPair k x => ht kt k && ht vt x | _ => false end) l
      | _ => false
      end
  | TTup tys =>
      match v with
      | VSeq l =>
          (fix go (tys : list ty) (l : list value) {struct l} : bool :=
             match tys, l with
             | [], [] => true
             | t' :: tr, v' :: lr => ht t' v' && go tr lr
             | _, _ => false
             end) tys l
      | _ => false
      end
  | TRef name =>
      let hts :=
        fix go (fs : list field) (l : list value) {struct l} : bool :=
          match fs, l with
          | [], [] => true
          | f :: fr, v' :: lr =>
              (match f_idx f with
               | None => ht (f_ty f) v'
               | Some _ =>
                   match fkind_of f with
                   | FK_ty t' => ht t' v'
                   | FK_const _ => true
                   | FK_bad => false
                   end
               end) && go fr lr
          | _, _ => false
          end in
      match lookup name with
      | Some (IStruct _ fs) =>
          match v with
          | VRec l => hts fs l
          | _ => false
          end
      | Some (IEnum vs) =>
          match v with
          | VVar k l =>
              match nth_error vs k with
              | Some vr => hts (v_fields vr) l
              | None => false
              end
          | _ => false
          end
      | None => false
      end
  | TOpaque _ => false
  end.

Definition htf (f : field) (v : value) : bool :=
  match f_idx f with
  | None => ht (f_ty f) v
  | Some _ =>
      match fkind_of f with
      | FK_ty t => ht t v
      | FK_const _ => true
      | FK_bad => false
      end
  end.
Fixpoint hts (fs : list field) (l : list value) {struct l} : bool :=
  match fs, l with
  | [], [] => true
  | f :: fr, v :: lr => htf f v && hts fr lr
  | _, _ => false
  end.
Fixpoint ht_tuple (tys : list ty) (l : list value) {struct l} : bool :=
  match tys, l with
  | [], [] => true
  | t :: tr, v :: lr => ht t v && ht_tuple tr lr
  | _, _ => false
  end.

(* --- what a reload is allowed to change: skipped fields take their default, a constant
       codec yields its constant; everything else is kept --- *)
Fixpoint erase (t : ty) (v : value) {struct v} : value :=
  match t with
  | TP _ => v
  | TOpt t' =>
      match v with
      | VSome v' => VSome (erase t' v')
      | _ => v
      end
  | TVec t' =>
      match v with
      | VSeq l => VSeq (map (erase t') l)
      | _ => v
      end
  | TMapT kt vt =>
      match v with
      | VMapv l => VMapv (map (fun e => match e with VPair k x => VPair (erase kt k) (erase vt x) | _ => e end) l)
      | _ => v
      end
  | TTup tys =>
      match v with
      | VSeq l =>
          VSeq ((fix go (tys : list ty) (l : list value) {struct l} : list value :=
                   match tys, l with
                   | t' :: tr, v' :: lr => erase t' v' :: go tr lr
                   | _, _ => []
                   end) tys l)
      | _ => v
      end
  | TRef name =>
      let ers :=
        fix go (fs : list field) (l : list value) {struct l} : list value :=
          match fs, l with
          | f :: fr, v' :: lr =>
              (match f_idx f with
               | None => default_of (f_ty f)
               | Some _ =>
                   match fkind_of f with
                   | FK_ty t' => erase t' v'
                   | FK_const c => c
                   | FK_bad => v'
                   end
               end) :: go fr lr
          | _, _ => []
          end in
      match lookup name with
      | Some (IStruct _ fs) =>
          match v with
          | VRec l => VRec (ers fs l)
          | _ => v
          end
      | Some (IEnum vs) =>
          match v with
          | VVar k l =>
              match nth_error vs k with
              | Some vr => VVar k (ers (v_fields vr) l)
              | None => v
              end
          | _ => v
          end
      | None => v
      end
  | TOpaque _ => v
  end.

Definition erasef (f : field) (v : value) : value :=
  match f_idx f with
  | None => default_of (f_ty f)
  | Some _ =>
      match fkind_of f with
      | FK_ty t => erase t v
      | FK_const c => c
      | FK_bad => v
      end
  end.
Fixpoint erases (fs : list field) (l : list value) {struct l} : list value :=
  match fs, l with
  | f :: fr, v :: lr => erasef f v :: erases fr lr
  | _, _ => []
  end.
Fixpoint erase_tuple (tys : list ty) (l : list value) {struct l} : list value :=
  match tys, l with
  | t :: tr, v :: lr => erase t v :: erase_tuple tr lr
  | _, _ => []
  end.

(* --- static well-formedness of a schema --- *)

(* the encoding of a value of this type never starts with null (needed under Option) *)
Fixpoint nn (fuel : nat) (t : ty) : bool :=
  match t with
  | TP _ | TVec _ | TMapT _ _ | TTup _ => true
  | TOpt _ | TOpaque _ => false
  | TRef name =>
      match lookup name with
      | Some (IStruct true [f]) =>
          match fuel with
          | 0 => false
          | S fuel' =>
              match f_idx f, fkind_of f with
              | Some _, FK_ty t' => nn fuel' t'
              | _, _ => false
              end
          end
      | Some (IStruct true _) => false
      | Some (IStruct false _) => true
      | Some (IEnum _) => true
      | None => false
      end
  end.

Definition defined (name : ident) : bool :=
  match lookup name with Some _ => true | None => false end.

Fixpoint ty_wf (t : ty) : bool :=
  match t with
  | TP _ => true
  | TOpt t' => ty_wf t' && nn (length Sc) t'
  | TVec t' => ty_wf t'
  | TMapT k v => ty_wf k && ty_wf v
  | TTup l => (fix go (l : list ty) : bool := match l with [] => true | t' :: r => ty_wf t' && go r end) l
  | TRef name => defined name
  | TOpaque _ => false
  end.

Definition field_wf (f : field) : bool :=
  match f_idx f with
  | None =>
      (* skipped: plain data with an obvious Default, no codec *)
      match f_ty f, f_codec f with
      | TP _, None => true
      | _, _ => false
      end
  | Some _ =>
      match f_codec f with
      | None => ty_wf (f_ty f)
      | Some _ =>
          negb (is_opt (f_ty f)) &&
          match fkind_of f with
          | FK_ty t => ty_wf t
          | FK_const _ => true
          | FK_bad => false
          end
      end
  end.

Fixpoint nodup_nat (l : list nat) : bool :=
  match l with
  | [] => true
  | x :: r => negb (existsb (Nat.eqb x) r) && nodup_nat r
  end.
Fixpoint nodup_str (l : list ident) : bool :=
  match l with
  | [] => true
  | x :: r => negb (existsb (ident_eqb x) r) && nodup_str r
  end.

Fixpoint idxs (fs : list field) : list nat :=
  match fs with
  | [] => []
  | f :: r => match f_idx f with Some i => i :: idxs r | None => idxs r end
  end.

Definition fields_wf (fs : list field) : bool :=
  forallb field_wf fs && nodup_nat (idxs fs).

Definition variant_wf (v : variant) : bool :=
  fields_wf (v_fields v) &&
  (if v_unit v then match v_fields v with [] => true | _ => false end else true).

Definition item_wf (it : item) : bool :=
  match it with
  | IStruct true fs =>
      match fs with
      | [f] => field_wf f && match f_idx f with Some _ => true | None => false end
      | _ => false
      end
  | IStruct false fs => fields_wf fs
  | IEnum vs => forallb variant_wf vs && nodup_nat (map v_idx vs)
                && forallb (fun v => N.ltb (N.of_nat (v_idx v)) two32) vs
  end.

Definition wf_schema : bool :=
  nodup_str (map fst Sc) && forallb (fun e => item_wf (snd e)) Sc.

(* nesting depth of a value: the fuel the decoder needs *)
Fixpoint vdepth (v : value) : nat :=
  match v with
  | VSome v' => S (vdepth v')
  | VSeq l | VMapv l | VRec l | VVar _ l => S (fold_right (fun x m => Nat.max (vdepth x) m) 0 l)
  | VPair k x => S (Nat.max (vdepth k) (vdepth x))
  | _ => 1
  end.

End WithSchema.

(* every (item, field) that is skipped or replaced by a constant on reload *)
Definition erased_fields_of (fs : list field) : list ident :=
  flat_map (fun f => match f_idx f with
                     | None => [f_name f]
                     | Some _ => match fkind_of f with FK_const _ => [f_name f] | _ => [] end
                     end) fs.
Definition erased_fields (S : schema) : list (ident * ident) :=
  flat_map (fun e =>
              match snd e with
              | IStruct _ fs => map (fun n => (fst e, n)) (erased_fields_of fs)
              | IEnum vs => flat_map (fun v => map (fun n => (fst e, n)) (erased_fields_of (v_fields v))) vs
              end) S.

(* every custom codec pair a schema uses *)
Definition codecs_of (fs : list field) : list (ident * ident) :=
  flat_map (fun f => match f_codec f with Some p => [p] | None => [] end) fs.
Definition codecs_used (S : schema) : list (ident * ident) :=
  flat_map (fun e =>
              match snd e with
              | IStruct _ fs => codecs_of fs
              | IEnum vs => flat_map (fun v => codecs_of (v_fields v)) vs
              end) S.
