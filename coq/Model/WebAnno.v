(* Executable transcription of src/api/webanno.rs (stam-rust, after the fix: commits f5fdf1f,
   ac52297, b489d89, 484f8a3, cd26ed5, cf99644, 00f3950): to_webannotation, output_predicate_datavalue,
   output_selector, value_to_json, is_iri, into_iri, WebAnnoConfig::{serialize_context,
   uri_to_namespace}.  Definitions only.  The output is built by string concatenation exactly
   as the Rust code does (same literals, same order, same whitespace); [None] stands for a
   panic (expect / unreachable!) of the Rust code.

   The store is seen through a read-only view (what the exporter reads from it): resources with
   their identifier and their text selections by handle, the identifiers of the data sets, the
   annotations with identifier, target selector (handles as in the store, internal ranged
   selectors included) and data (set identifier, key identifier, value). *)
From Coq Require Import List NArith ZArith Bool Arith String Ascii.
From Stam Require Import Model.Json.
Import ListNotations.
Local Open Scope N_scope.

(* an ASCII literal as a list of scalar values *)
Definition lit (x : string) : str := map N_of_ascii (list_ascii_of_string x).
(* LIT "abc" is the explicit list, computed when the definition is read (so that neither
   [string] nor [ascii] reach the extracted code) *)
Notation "'LIT' s" := (ltac:(let v := eval vm_compute in (lit s%string) in exact v))
  (at level 0, s at level 0, only parsing).

(* ---------- values and their Display ---------- *)

(* f64 values: the grid of multiples of 1/4 (small magnitudes), whole numbers of any magnitude
   given by the digits of their shortest representation (mantissa digits followed by zeros: what
   core::fmt prints for them; e.g. 2^64 is 18446744073709552 and three zeros), and the non-finite ones *)
Inductive fl : Type := FQ (q : Z) | FW (neg : bool) (mant : str) (zeros : nat) | FNaN | FInf (neg : bool).

Inductive value : Type :=
| VNull
| VStr (s : str)
| VBool (b : bool)
| VInt (z : Z)
| VFloat (f : fl)
| VList (l : list value)
| VDate (rfc3339 : str).   (* the text chrono's to_rfc3339() gives; trusted, not modelled *)

Fixpoint uint_chars (d : Decimal.uint) : str :=
  match d with
  | Decimal.Nil => []
  | Decimal.D0 r => 48 :: uint_chars r
  | Decimal.D1 r => 49 :: uint_chars r
  | Decimal.D2 r => 50 :: uint_chars r
  | Decimal.D3 r => 51 :: uint_chars r
  | Decimal.D4 r => 52 :: uint_chars r
  | Decimal.D5 r => 53 :: uint_chars r
  | Decimal.D6 r => 54 :: uint_chars r
  | Decimal.D7 r => 55 :: uint_chars r
  | Decimal.D8 r => 56 :: uint_chars r
  | Decimal.D9 r => 57 :: uint_chars r
  end.

(* Display of an unsigned / signed integer *)
Definition dec_N (n : N) : str := uint_chars (N.to_uint n).
Definition dec_Z (z : Z) : str :=
  if (z <? 0)%Z then 45 :: dec_N (Z.abs_N z) else dec_N (Z.abs_N z).
Definition dec_nat (n : nat) : str := dec_N (N.of_nat n).

(* Display of an f64 that is q/4: shortest representation, never an exponent, "1" for 1.0 *)
Definition float_str (f : fl) : str :=
  match f with
  | FQ q =>
      let a := Z.abs_N q in
      (if (q <? 0)%Z then [45] else []) ++ dec_N (a / 4) ++
      (match a mod 4 with
       | 0 => []
       | 1 => LIT ".25"
       | 2 => LIT ".5"
       | _ => LIT ".75"
       end)
  | FW neg mant zeros => (if neg then [45] else []) ++ mant ++ repeat 48 zeros
  | FNaN => LIT "NaN"
  | FInf false => LIT "inf"
  | FInf true => LIT "-inf"
  end.

(* format!("\"{}\"", s) *)
Definition q (s : str) : str := 34 :: s ++ [34].
(* serde_json::to_string(s) *)
Definition jstr (s : str) : str := 34 :: escape s ++ [34].

Fixpoint value_to_json (v : value) : str :=
  match v with
  | VStr s => jstr s
  | VDate s => q s
  | VList l =>
      91 :: (fix go (l : list value) : str :=
               match l with
               | [] => []
               | x :: r =>
                   match r with
                   | [] => value_to_json x
                   | _ => value_to_json x ++ [44; 32] ++ go r
                   end
               end) l ++ [93]
  | VNull => LIT "null"
  | VBool true => LIT "true"
  | VBool false => LIT "false"
  | VInt z => dec_Z z
  | VFloat f => float_str f
  end.

(* ---------- IRIs ---------- *)

Definition is_control (c : N) : bool := (c <? 32) || ((127 <=? c) && (c <=? 159)).

Definition invalid_in_iri (c : N) : bool :=
  (c =? 32) || (c =? 34) || (c =? 92) || is_control c.

Fixpoint before_colon (s : str) : option str :=
  match s with
  | [] => None
  | c :: r => if c =? 58 then Some []
              else match before_colon r with Some x => Some (c :: x) | None => None end
  end.

Definition is_iri (s : str) : bool :=
  match before_colon s with
  | Some scheme =>
      if existsb invalid_in_iri s then false
      else str_eqb scheme (LIT "http") || str_eqb scheme (LIT "https") || str_eqb scheme (LIT "urn")
           || str_eqb scheme (LIT "file") || str_eqb scheme (LIT "_")
  | None => false
  end.

Definition into_iri (s prefix : str) : str :=
  if is_iri s then s
  else
    let prefix := if is_nil prefix then LIT "_:" else prefix in
    let sep := last prefix 0 in
    let cleaned := map (fun c => if invalid_in_iri c then 45 else c) s in
    if (sep =? 47) || (sep =? 35) || (sep =? 58) then prefix ++ cleaned
    else prefix ++ [47] ++ cleaned.

(* ---------- configuration ---------- *)

Record config : Type := {
  c_ann_iri : str;                    (* default_annotation_iri *)
  c_set_iri : str;                    (* default_set_iri *)
  c_res_iri : str;                    (* default_resource_iri *)
  c_extra_context : list str;
  c_generated : option str;           (* auto_generated: Some (the timestamp written) *)
  c_generator : bool;                 (* auto_generator *)
  c_namespaces : list (str * str);    (* (uri prefix, namespace prefix) *)
  c_template : option str             (* extra_target_template *)
}.
(* generate_annotation_iri is taken to be false (random identifiers) *)

Fixpoint starts_with (p s : str) : bool :=
  match p with
  | [] => true
  | x :: p' => match s with y :: s' => (x =? y) && starts_with p' s' | [] => false end
  end.

Fixpoint uri_to_namespace (ns : list (str * str)) (s : str) : str :=
  match ns with
  | [] => s
  | (uri, pre) :: ns' =>
      if starts_with uri s then pre ++ [58] ++ skipn (List.length uri) s
      else uri_to_namespace ns' s
  end.

Definition CONTEXT_ANNO : str := LIT "http://www.w3.org/ns/anno.jsonld".
Definition NS_ANNO : str := LIT "http://www.w3.org/ns/anno/".

Fixpoint join (sep : str) (l : list str) : str :=
  match l with
  | [] => []
  | x :: r => match r with [] => x | _ => x ++ sep ++ join sep r end
  end.

Definition serialize_extra_context (c : config) : str :=
  join (LIT ", ") (map q (c_extra_context c)).

Fixpoint serialize_context_namespaces (ns : list (str * str)) (first : bool) : str :=
  match ns with
  | [] => []
  | (uri, pre) :: ns' =>
      (if first then [] else LIT ", ") ++ q pre ++ LIT ": " ++ q uri
        ++ serialize_context_namespaces ns' false
  end.

Definition serialize_context (c : config) : str :=
  if negb (is_nil (c_extra_context c)) then
    if negb (is_nil (c_namespaces c)) then
      LIT "[ " ++ q CONTEXT_ANNO ++ LIT ", " ++ serialize_extra_context c ++ LIT ", { "
        ++ serialize_context_namespaces (c_namespaces c) true ++ LIT " } ]"
    else
      LIT "[ " ++ q CONTEXT_ANNO ++ LIT ", " ++ serialize_extra_context c ++ LIT " ]"
  else if negb (is_nil (c_namespaces c)) then
    LIT "[ " ++ q CONTEXT_ANNO ++ LIT ", { "
      ++ serialize_context_namespaces (c_namespaces c) true ++ LIT " } ]"
  else q CONTEXT_ANNO.

(* ---------- the store as the exporter reads it ---------- *)

Inductive sel : Type :=
| STxt (r t : nat)                            (* TextSelector(resource, textselection, _) *)
| SAnn (a : nat) (txt : option (nat * nat))   (* AnnotationSelector(annotation, Some((resource, textselection, _))) *)
| SRes (r : nat)
| SSet (d : nat)
| SMulti (l : list sel)
| SComp (l : list sel)
| SDir (l : list sel)
| SKey                                        (* DataKeySelector *)
| SData                                       (* AnnotationDataSelector *)
| SRTxt (r b e : nat)                         (* RangedTextSelector, end inclusive *)
| SRAnn (b e : nat) (with_text : bool).       (* RangedAnnotationSelector, end inclusive *)

Record datum : Type := { d_set : str; d_key : str; d_val : value }.

Record resv : Type := { r_id : str; r_sels : list (option (nat * nat)) }.
Record annv : Type := { a_id : option str; a_target : sel; a_data : list datum }.
Record storev : Type := {
  s_res : list (option resv);
  s_sets : list (option str);
  s_anns : list (option annv)
}.

Definition get_res (st : storev) (r : nat) : option resv := nth r (s_res st) None.
Definition get_set (st : storev) (d : nat) : option str := nth d (s_sets st) None.
Definition get_ann (st : storev) (a : nat) : option annv := nth a (s_anns st) None.
Definition get_tsel (rv : resv) (t : nat) : option (nat * nat) := nth t (r_sels rv) None.

(* Selector::textselection_handle / resource_handle *)
Definition textselection_handle (s : sel) : option nat :=
  match s with
  | STxt _ t => Some t
  | SAnn _ (Some (_, t)) => Some t
  | _ => None
  end.
Definition resource_handle (s : sel) : option nat :=
  match s with
  | SRes r => Some r
  | STxt r _ => Some r
  | SAnn _ (Some (r, _)) => Some r
  | _ => None
  end.

(* ---------- values as predicates ---------- *)

Definition display_str (v : value) : str := match v with VStr s => s | _ => [] end.

Definition value_is_iri (v : value) : bool :=
  match v with VStr s => is_iri s | _ => false end.

Definition output_predicate_datavalue (predicate : str) (v : value) (c : config) : str :=
  let p := jstr (uri_to_namespace (c_namespaces c) predicate) in
  if value_is_iri v then p ++ LIT ": { ""id"": " ++ q (display_str v) ++ LIT " }"
  else p ++ LIT ": " ++ value_to_json v.

(* ---------- targets ---------- *)

Fixpoint replace_fuel (fuel : nat) (pat to s : str) : str :=
  match fuel with
  | O => s
  | S f =>
      match s with
      | [] => []
      | c :: r =>
          if starts_with pat s then to ++ replace_fuel f pat to (skipn (List.length pat) s)
          else c :: replace_fuel f pat to r
      end
  end.
(* str::replace for a non-empty pattern *)
Definition replace_all (pat to s : str) : str := replace_fuel (S (List.length s)) pat to s.

Definition fill_template (template iri : str) (b e : nat) : str :=
  replace_all (LIT "{end}") (dec_nat e)
    (replace_all (LIT "{begin}") (dec_nat b)
       (replace_all (LIT "{resource}") iri template)).

Definition is_some {X} (o : option X) : bool := match o with Some _ => true | None => false end.

(* the source / TextPositionSelector object *)
Definition source_object (iri : str) (b e : nat) : str :=
  LIT "{ ""source"": " ++ q iri
    ++ LIT ", ""selector"": { ""type"": ""TextPositionSelector"", ""start"": "
    ++ dec_nat b ++ LIT ", ""end"": " ++ dec_nat e ++ LIT " } }".

(* the TextSelector / AnnotationSelector-with-text arm of output_selector;
   result: text and whether a second pass was requested *)
Definition out_text (st : storev) (c : config) (r t : nat) (nested second_pass : bool)
  : option (str * bool) :=
  match get_res st r with
  | None => None
  | Some rv =>
      match get_tsel rv t with
      | None => None
      | Some (b, e) =>
          let iri := into_iri (r_id rv) (c_res_iri c) in
          let o1 :=
            if negb second_pass then
              (if is_some (c_template c) && negb nested then LIT "[" else []) ++ source_object iri b e
            else [] in
          if (negb nested && negb second_pass) || (nested && second_pass) then
            match c_template c with
            | Some tpl =>
                let o2 := o1 ++ (if is_nil o1 then [] else [44]) ++ q (fill_template tpl iri b e) in
                Some (o2 ++ (if negb nested && negb second_pass then LIT " ]" else []), false)
            | None => Some (o1, false)
            end
          else Some (o1, is_some (c_template c) && negb second_pass)
      end
  end.

(* the AnnotationSelector(a, None) arm *)
Definition out_annref (st : storev) (c : config) (a : nat) : option str :=
  match get_ann st a with
  | None => None
  | Some av =>
      match a_id av with
      | Some i => Some (LIT "{ ""id"": " ++ q (into_iri i (c_ann_iri c)) ++ LIT ", ""type"": ""Annotation"" }")
      | None => Some (LIT "{ ""id"": null }")
      end
  end.

(* items joined as the loops of output_selector do (push_item): a comma between the items that
   were actually emitted; a skipped selector (empty text) leaves no separator *)
Fixpoint join_items (l : list (option (str * bool))) : option (str * bool) :=
  match l with
  | [] => Some ([], false)
  | x :: r =>
      match x, join_items r with
      | Some (s, n), Some (s', n') =>
          Some (if is_nil s then s' else if is_nil s' then s else s ++ [44] ++ s', n || n')
      | _, _ => None
      end
  end.

Fixpoint output_selector (st : storev) (c : config) (nested second_pass : bool) (s : sel)
  : option (str * bool) :=
  let complex (ty : str) (l : list sel) :=
    match join_items (map (output_selector st c true second_pass) l) with
    | Some (items, n) =>
        Some (LIT "{ ""type"": " ++ q ty ++ LIT ", ""items"": [" ++ items ++ LIT " ]}", n)
    | None => None
    end in
  match s with
  | STxt r t => out_text st c r t nested second_pass
  | SAnn _ (Some (r, t)) => out_text st c r t nested second_pass
  | SAnn a None => match out_annref st c a with Some x => Some (x, false) | None => None end
  | SRes r =>
      match get_res st r with
      | Some rv => Some (LIT "{ ""id"": " ++ q (into_iri (r_id rv) (c_res_iri c)) ++ LIT ", ""type"": ""Text"" }", false)
      | None => None
      end
  | SSet d =>
      match get_set st d with
      | Some i => Some (LIT "{ ""id"": " ++ q (into_iri i (c_res_iri c)) ++ LIT ", ""type"": ""Dataset"" }", false)
      | None => None
      end
  | SComp l => complex (LIT "http://www.w3.org/ns/oa#Composite") l
  | SMulti l => complex (LIT "http://www.w3.org/ns/oa#Independents") l
  | SDir l => complex (LIT "http://www.w3.org/ns/oa#List") l
  | SKey | SData => if nested then Some ([], false) else None
  | SRTxt r b e =>
      if nested then
        join_items (map (fun t => out_text st c r t true second_pass) (seq b (S e - b)))
      else None
  | SRAnn b e with_text =>
      if nested then
        join_items (map (fun a =>
                           match get_ann st a with
                           | None => None
                           | Some av =>
                               match (if with_text then textselection_handle (a_target av) else None),
                                     resource_handle (a_target av) with
                               | Some t, Some r => out_text st c r t true second_pass
                               | _, _ => match out_annref st c a with Some x => Some (x, false) | None => None end
                               end
                           end) (seq b (S e - b)))
      else None
  end.

(* ---------- the annotation ---------- *)

Record dstate : Type := {
  main_out : str; body_out : str;
  sup_type : bool; sup_id : bool; sup_generated : bool; sup_generator : bool;
  to_main : bool
}.

Definition dstate0 : dstate :=
  {| main_out := []; body_out := []; sup_type := false; sup_id := false;
     sup_generated := false; sup_generator := false; to_main := false |}.

Definition add_main (ds : dstate) (text : str) : dstate :=
  {| main_out := main_out ds ++ (if to_main ds then [44] else []) ++ text;
     body_out := body_out ds; sup_type := sup_type ds; sup_id := sup_id ds;
     sup_generated := sup_generated ds; sup_generator := sup_generator ds; to_main := true |}.

Definition add_body (ds : dstate) (text : str) : dstate :=
  {| main_out := main_out ds;
     body_out := body_out ds ++ (if is_nil (body_out ds) then [] else [44]) ++ text;
     sup_type := sup_type ds; sup_id := sup_id ds;
     sup_generated := sup_generated ds; sup_generator := sup_generator ds; to_main := to_main ds |}.

Definition in_anno_ns (d : datum) : bool :=
  str_eqb (d_set d) CONTEXT_ANNO || str_eqb (d_set d) NS_ANNO.

Definition data_step (c : config) (ds : dstate) (d : datum) : dstate :=
  let k := d_key d in
  if in_anno_ns d then
    if str_eqb k (LIT "generated") then
      let ds' := add_main ds (output_predicate_datavalue k (d_val d) c) in
      {| main_out := main_out ds'; body_out := body_out ds'; sup_type := sup_type ds'; sup_id := sup_id ds';
         sup_generated := true; sup_generator := sup_generator ds'; to_main := true |}
    else if str_eqb k (LIT "generator") then
      let ds' := add_main ds (output_predicate_datavalue k (d_val d) c) in
      {| main_out := main_out ds'; body_out := body_out ds'; sup_type := sup_type ds'; sup_id := sup_id ds';
         sup_generated := sup_generated ds'; sup_generator := true; to_main := true |}
    else if str_eqb k (LIT "motivation") || str_eqb k (LIT "created") || str_eqb k (LIT "creator") then
      add_main ds (output_predicate_datavalue k (d_val d) c)
    else
      let ds' := add_body ds (output_predicate_datavalue k (d_val d) c) in
      {| main_out := main_out ds'; body_out := body_out ds';
         sup_type := sup_type ds' || str_eqb k (LIT "type");
         sup_id := sup_id ds' || str_eqb k (LIT "id");
         sup_generated := sup_generated ds'; sup_generator := sup_generator ds'; to_main := to_main ds' |}
  else
    let predicate := into_iri k (into_iri (d_set d) (c_set_iri c)) in
    add_body ds (output_predicate_datavalue predicate (d_val d) c).

Definition GENERATOR : str :=
  LIT "  ""generator"": { ""id"": ""https://github.com/annotation/stam-rust"", ""type"": ""Software"", ""name"": ""STAM Library""  },".

(* everything to_webannotation writes before the target *)
Definition head_text (c : config) (av : annv) : str :=
  let iri := match a_id av with Some i => Some (into_iri i (c_ann_iri c)) | None => None end in
  let ds := fold_left (data_step c) (a_data av) dstate0 in
  LIT "{ ""@context"": " ++ serialize_context c ++ LIT ","
    ++ (match iri with Some i => LIT "  ""id"": " ++ q i ++ LIT "," | None => [] end)
    ++ LIT " ""type"": ""Annotation"","
    ++ main_out ds
    ++ (if to_main ds then [44] else [])
    ++ (match c_generated c with
        | Some now => if sup_generated ds then [] else LIT " ""generated"": " ++ q now ++ LIT ","
        | None => []
        end)
    ++ (if c_generator c && negb (sup_generator ds) then GENERATOR else [])
    ++ (if is_nil (body_out ds) then []
        else LIT " ""body"": {"
               ++ (if sup_type ds then [] else LIT " ""type"": ""Dataset"",")
               ++ (if sup_id ds then []
                   else match iri with
                        | Some i => LIT " ""id"": " ++ q (i ++ LIT "/body") ++ LIT ","
                        | None => []
                        end)
               ++ body_out ds ++ LIT "},").

(* the target member: one pass, or two when a template is configured and text is nested *)
Definition target_text (st : storev) (c : config) (s : sel) : option str :=
  match output_selector st c false false s with
  | None => None
  | Some (first, need_second) =>
      if need_second then
        match output_selector st c false true s with
        | None => None
        | Some (second, _) => Some (LIT " ""target"": [ " ++ first ++ LIT ", " ++ second ++ LIT " ]")
        end
      else Some (LIT " ""target"": " ++ first)
  end.

(* ResultItem<Annotation>::to_webannotation; Some [] = the annotation is refused (empty string) *)
Definition to_webannotation (st : storev) (c : config) (a : nat) : option str :=
  match get_ann st a with
  | None => None
  | Some av =>
      match a_target av with
      | SKey | SData => Some []
      | _ =>
          match target_text st c (a_target av) with
          | None => None
          | Some t => Some (head_text c av ++ t ++ LIT "}")
          end
      end
  end.
