(* Model of the annotation store and its reverse indices:
     src/store.rs            RelationMap, RelationBTreeMap, TripleRelationMap (insert, remove,
                             remove_all, remove_second, get), StoreFor::{insert, remove}, id maps
     src/annotationstore.rs  struct AnnotationStore, StoreCallbacks::{inserted, preremove} for
                             Annotation / TextResource / AnnotationDataSet, selector(),
                             remove_data, remove_key
     src/annotation.rs       AnnotationStore::{annotate, insert_data}, Annotation::remove_data
     src/annotationdataset.rs  insert_data, data_by_value, key_data_map callbacks
   Items are identified by handles (= index in the owning Vec, None = removed slot).
   Public identifiers are tokens (nat); the harness maps token n to a string.
   A target selector is kept in resolved, expanded form: its kind and the list of leaf
   selectors (internal ranged selectors are a storage detail of the code and are compared
   through their expansion).  Executable definitions only. *)
From Coq Require Import List Arith Bool ZArith.
Import ListNotations.
From Stam Require Import Model.Offset.

(** * Relation maps *)

Definition rmap := list (list nat).     (* RelationMap / RelationBTreeMap: x -> [y] *)
Definition tmap := list rmap.           (* TripleRelationMap: x -> y -> [z] *)

Definition rget (m : rmap) (x : nat) : list nat := nth x m [].

(* push unless y already is the last entry of the row *)
Fixpoint push_new (row : list nat) (y : nat) : list nat :=
  match row with
  | [] => [y]
  | [z] => if Nat.eqb z y then [z] else [z; y]
  | z :: row' => z :: push_new row' y
  end.

(* resize_with(x+1) when needed, then push *)
Fixpoint rins (m : rmap) (x y : nat) : rmap :=
  match m, x with
  | [], 0 => [[y]]
  | [], S x' => [] :: rins [] x' y
  | row :: m', 0 => push_new row y :: m'
  | row :: m', S x' => row :: rins m' x' y
  end.

(* position() + Vec::remove: the first occurrence *)
Fixpoint remove_first (y : nat) (l : list nat) : list nat :=
  match l with
  | [] => []
  | z :: l' => if Nat.eqb z y then l' else z :: remove_first y l'
  end.

Fixpoint rupd (m : rmap) (x : nat) (f : list nat -> list nat) : rmap :=
  match m, x with
  | [], _ => []
  | row :: m', 0 => f row :: m'
  | row :: m', S x' => row :: rupd m' x' f
  end.

Definition rrem (m : rmap) (x y : nat) : rmap := rupd m x (remove_first y).
(* remove_all: the row is emptied *)
Definition rclear (m : rmap) (x : nat) : rmap := rupd m x (fun _ => []).

Definition tget (m : tmap) (x y : nat) : list nat := rget (nth x m []) y.

Fixpoint tupd (m : tmap) (x : nat) (f : rmap -> rmap) : tmap :=
  match m, x with
  | [], _ => []
  | row :: m', 0 => f row :: m'
  | row :: m', S x' => row :: tupd m' x' f
  end.

Fixpoint tins (m : tmap) (x y z : nat) : tmap :=
  match m, x with
  | [], 0 => [rins [] y z]
  | [], S x' => [] :: tins [] x' y z
  | row :: m', 0 => rins row y z :: m'
  | row :: m', S x' => row :: tins m' x' y z
  end.

Definition trem (m : tmap) (x y z : nat) : tmap := tupd m x (fun r => rrem r y z).
Definition tclear (m : tmap) (x : nat) : tmap := tupd m x (fun _ => []).         (* remove_all *)
Definition tclear2 (m : tmap) (x y : nat) : tmap := tupd m x (fun r => rclear r y). (* remove_second *)

(** * Id maps (public id token -> handle) *)
Definition idmap := list (nat * nat).
Fixpoint id_get (m : idmap) (k : nat) : option nat :=
  match m with
  | [] => None
  | (k', h) :: m' => if Nat.eqb k' k then Some h else id_get m' k
  end.
Definition id_del (m : idmap) (k : nat) : idmap := filter (fun p => negb (Nat.eqb (fst p) k)) m.
(* HashMap::insert replaces *)
Definition id_put (m : idmap) (k h : nat) : idmap := (k, h) :: id_del m k.

(** * Items *)

Inductive value :=
| VNull | VBool (b : bool) | VInt (z : Z) | VFix (z : Z) (* float on a 1/1000 grid *)
| VStr (s : list N) | VList (l : list value).

Fixpoint value_eqb (a b : value) {struct a} : bool :=
  match a, b with
  | VNull, VNull => true
  | VBool x, VBool y => Bool.eqb x y
  | VInt x, VInt y => Z.eqb x y
  | VFix x, VFix y => Z.eqb x y
  | VStr x, VStr y =>
      (fix go (x y : list N) : bool :=
         match x, y with
         | [], [] => true
         | c :: x', d :: y' => N.eqb c d && go x' y'
         | _, _ => false
         end) x y
  | VList x, VList y =>
      (fix go (x y : list value) : bool :=
         match x, y with
         | [], [] => true
         | c :: x', d :: y' => value_eqb c d && go x' y'
         | _, _ => false
         end) x y
  | _, _ => false
  end.

Record adata := mkdata { x_id : option nat; x_key : nat; x_val : value }.

Record dset := mkset {
  d_id : nat;
  d_keys : list (option nat);          (* slot -> public id of the key *)
  d_data : list (option adata);
  d_kidx : idmap;                      (* key id -> key handle *)
  d_xidx : idmap;                      (* data id -> data handle *)
  d_k2x : rmap                         (* key_data_map *)
}.

Record res := mkres { r_id : nat; r_len : nat; r_sels : list (nat * nat) }.

(* leaf selectors; the offset mode (0..3) is part of the stored selector *)
Inductive leaf :=
| LText (r t m : nat)
| LAnn (a : nat)
| LAnnText (a r t m : nat)
| LRes (r : nat)
| LSet (d : nat)
| LKey (d k : nat)
| LData (d x : nat).

(* 0 simple, 1 MultiSelector, 2 CompositeSelector, 3 DirectionalSelector *)
Record ann := mkann { a_id : option nat; a_data : list (nat * nat); a_kind : nat; a_leaves : list leaf }.

Record store := mkstore {
  anns : list (option ann);
  sets : list (option dset);
  ress : list (option res);
  aidx : idmap; sidx : idmap; ridx : idmap;
  ddam : tmap;       (* dataset_data_annotation_map *)
  trm : tmap;        (* textrelationmap *)
  kamm : tmap;       (* key_annotation_metamap *)
  damm : tmap;       (* data_annotation_metamap *)
  ramm : rmap;       (* resource_annotation_metamap *)
  samm : rmap;       (* dataset_annotation_metamap *)
  aam : rmap         (* annotation_annotation_map *)
}.

Definition empty_store : store := mkstore [] [] [] [] [] [] [] [] [] [] [] [] [].

(* functional record update helpers *)
Definition set_anns (s : store) v := mkstore v (sets s) (ress s) (aidx s) (sidx s) (ridx s) (ddam s) (trm s) (kamm s) (damm s) (ramm s) (samm s) (aam s).
Definition set_sets (s : store) v := mkstore (anns s) v (ress s) (aidx s) (sidx s) (ridx s) (ddam s) (trm s) (kamm s) (damm s) (ramm s) (samm s) (aam s).
Definition set_ress (s : store) v := mkstore (anns s) (sets s) v (aidx s) (sidx s) (ridx s) (ddam s) (trm s) (kamm s) (damm s) (ramm s) (samm s) (aam s).
Definition set_aidx (s : store) v := mkstore (anns s) (sets s) (ress s) v (sidx s) (ridx s) (ddam s) (trm s) (kamm s) (damm s) (ramm s) (samm s) (aam s).
Definition set_sidx (s : store) v := mkstore (anns s) (sets s) (ress s) (aidx s) v (ridx s) (ddam s) (trm s) (kamm s) (damm s) (ramm s) (samm s) (aam s).
Definition set_ridx (s : store) v := mkstore (anns s) (sets s) (ress s) (aidx s) (sidx s) v (ddam s) (trm s) (kamm s) (damm s) (ramm s) (samm s) (aam s).
Definition set_ddam (s : store) v := mkstore (anns s) (sets s) (ress s) (aidx s) (sidx s) (ridx s) v (trm s) (kamm s) (damm s) (ramm s) (samm s) (aam s).
Definition set_trm (s : store) v := mkstore (anns s) (sets s) (ress s) (aidx s) (sidx s) (ridx s) (ddam s) v (kamm s) (damm s) (ramm s) (samm s) (aam s).
Definition set_kamm (s : store) v := mkstore (anns s) (sets s) (ress s) (aidx s) (sidx s) (ridx s) (ddam s) (trm s) v (damm s) (ramm s) (samm s) (aam s).
Definition set_damm (s : store) v := mkstore (anns s) (sets s) (ress s) (aidx s) (sidx s) (ridx s) (ddam s) (trm s) (kamm s) v (ramm s) (samm s) (aam s).
Definition set_ramm (s : store) v := mkstore (anns s) (sets s) (ress s) (aidx s) (sidx s) (ridx s) (ddam s) (trm s) (kamm s) (damm s) v (samm s) (aam s).
Definition set_samm (s : store) v := mkstore (anns s) (sets s) (ress s) (aidx s) (sidx s) (ridx s) (ddam s) (trm s) (kamm s) (damm s) (ramm s) v (aam s).
Definition set_aam (s : store) v := mkstore (anns s) (sets s) (ress s) (aidx s) (sidx s) (ridx s) (ddam s) (trm s) (kamm s) (damm s) (ramm s) (samm s) v.

Definition slot {X} (l : list (option X)) (h : nat) : option X := nth h l None.
Fixpoint set_slot {X} (l : list (option X)) (h : nat) (v : option X) : list (option X) :=
  match l, h with
  | [], _ => []
  | _ :: l', 0 => v :: l'
  | x :: l', S h' => x :: set_slot l' h' v
  end.

Definition get_ann (s : store) (h : nat) : option ann := slot (anns s) h.
Definition get_set (s : store) (h : nat) : option dset := slot (sets s) h.
Definition get_res (s : store) (h : nat) : option res := slot (ress s) h.

(** * Requests: an item is named by public id or by handle *)
Inductive iref := ById (tok : nat) | ByHandle (h : nat).

Definition resolve_ref {X} (l : list (option X)) (m : idmap) (r : iref) : option nat :=
  match r with
  | ById tok => match id_get m tok with
                | Some h => match slot l h with Some _ => Some h | None => None end
                | None => None
                end
  | ByHandle h => match slot l h with Some _ => Some h | None => None end
  end.

Definition ref_ann (s : store) := resolve_ref (anns s) (aidx s).
Definition ref_set (s : store) := resolve_ref (sets s) (sidx s).
Definition ref_res (s : store) := resolve_ref (ress s) (ridx s).
Definition ref_key (d : dset) := resolve_ref (d_keys d) (d_kidx d).
Definition ref_data (d : dset) := resolve_ref (d_data d) (d_xidx d).

(** * Outcomes *)
Inductive out := OOk (h : nat) | OErr | OPanic.

(** * Adding resources and datasets (StoreFor::insert) *)

Definition add_res (s : store) (id len : nat) : store * out :=
  match id_get (ridx s) id with
  | Some h =>
      match get_res s h with
      | Some r => if Nat.eqb (r_len r) len then (s, OOk h) else (s, OErr)   (* identical item / DuplicateIdError *)
      | None => (s, OPanic)
      end
  | None =>
      let h := length (ress s) in
      (set_ridx (set_ress s (ress s ++ [Some (mkres id len [])])) (id_put (ridx s) id h), OOk h)
  end.

Definition dset_is_empty (d : dset) : bool :=
  match d_keys d, d_data d with [], [] => true | _, _ => false end.

Definition add_set (s : store) (id : nat) : store * out :=
  match id_get (sidx s) id with
  | Some h =>
      match get_set s h with
      | Some d => if dset_is_empty d then (s, OOk h) else (s, OErr)
      | None => (s, OPanic)
      end
  | None =>
      let h := length (sets s) in
      (set_sidx (set_sets s (sets s ++ [Some (mkset id [] [] [] [] [])])) (id_put (sidx s) id h), OOk h)
  end.

(** * Data vocabulary (AnnotationDataSet::insert_data) *)

(* data_by_value: first item in key_data_map[key] with that value *)
Definition data_by_value (d : dset) (k : nat) (v : value) : option nat :=
  find (fun x => match slot (d_data d) x with
                 | Some it => value_eqb (x_val it) v
                 | None => false
                 end) (rget (d_k2x d) k).

Record dbuild := mkdb { db_set : iref; db_id : option iref; db_key : option iref; db_val : value }.

Definition dset_insert_data (d : dset) (id : option iref) (key : option iref) (v : value) : dset * out :=
  match (match id with Some r => ref_data d r | None => None end) with
  | Some h => (d, OOk h)                                   (* already exists: returned as is *)
  | None =>
      match key with
      | None => (d, OErr)
      | Some kr =>
          let '(d1, kres, newkey) :=
            match ref_key d kr with
            | Some k => (d, Some k, false)
            | None =>
                match kr with
                | ById tok =>
                    let k := length (d_keys d) in
                    (mkset (d_id d) (d_keys d ++ [Some tok]) (d_data d) (id_put (d_kidx d) tok k) (d_xidx d) (d_k2x d),
                     Some k, true)
                | ByHandle _ => (d, None, false)
                end
            end in
          match kres with
          | None => (d1, OErr)
          | Some k =>
              let dedup := if negb newkey then
                             match id with None => data_by_value d1 k v | Some _ => None end
                           else None in
              match dedup with
              | Some h => (d1, OOk h)
              | None =>
                  (* a handle that does not resolve has no string form: the item is inserted without id *)
                  let pid := match id with Some (ById tok) => Some tok | _ => None end in
                  let h := length (d_data d1) in
                  (mkset (d_id d1) (d_keys d1) (d_data d1 ++ [Some (mkdata pid k v)])
                         (d_kidx d1)
                         (match pid with Some tok => id_put (d_xidx d1) tok h | None => d_xidx d1 end)
                         (rins (d_k2x d1) k h),
                   OOk h)
              end
          end
      end
  end.

Definition DEFAULT_SET_TOKEN := 77.

(* AnnotationStore::insert_data: the dataset is created when it does not exist *)
Definition store_insert_data (s : store) (b : dbuild) : store * option (nat * nat) :=
  let '(s1, sh) :=
    match ref_set s (db_set b) with
    | Some h => (s, Some h)
    | None =>
        (* a set named by id is created under that id; anything else under 'default-annotationset' *)
        let tok := match db_set b with ById tok => tok | ByHandle _ => DEFAULT_SET_TOKEN end in
        match add_set s tok with
        | (s', OOk h) => (s', Some h)
        | (s', _) => (s', None)
        end
    end in
  match sh with
  | None => (s1, None)
  | Some h =>
      match get_set s1 h with
      | None => (s1, None)
      | Some d =>
          match dset_insert_data d (db_id b) (db_key b) (db_val b) with
          | (d', OOk x) => (set_sets s1 (set_slot (sets s1) h (Some d')), Some (h, x))
          | (d', _) => (set_sets s1 (set_slot (sets s1) h (Some d')), None)
          end
      end
  end.

(** * Selector resolution (AnnotationStore::selector) *)

Inductive sbuild :=
| BText (r : iref) (o : offset)
| BAnn (a : iref) (o : option offset)
| BRes (r : iref)
| BSet (d : iref)
| BKey (d k : iref)
| BData (d x : iref)
| BComplex (kind : nat) (l : list sbuild).   (* 1 Multi, 2 Composite, 3 Directional *)

Definition mode_nat (o : offset) : nat :=
  match mode_of o with BeginBegin => 0 | BeginEnd => 1 | EndEnd => 2 | EndBegin => 3 end.

(* known_textselection: the handle of the selection with this range, if any *)
Fixpoint find_sel (l : list (nat * nat)) (t : nat * nat) (i : nat) : option nat :=
  match l with
  | [] => None
  | u :: l' => if Nat.eqb (fst u) (fst t) && Nat.eqb (snd u) (snd t) then Some i else find_sel l' t (S i)
  end.

(* the text selection a (simple) target denotes: TextSelector or AnnotationSelector with offset *)
Definition ann_textsel (s : store) (a : ann) : option (nat * nat * (nat * nat)) :=
  match a_kind a, a_leaves a with
  | 0, [LText r t _] | 0, [LAnnText _ r t _] =>
      match get_res s r with
      | Some rs => match nth_error (r_sels rs) t with Some rg => Some (r, t, rg) | None => None end
      | None => None
      end
  | _, _ => None
  end.

(* get-or-insert a text selection in a resource *)
Definition intern_sel (s : store) (r : nat) (rs : res) (rg : nat * nat) : store * nat :=
  match find_sel (r_sels rs) rg 0 with
  | Some t => (s, t)
  | None =>
      let t := length (r_sels rs) in
      (set_ress s (set_slot (ress s) r (Some (mkres (r_id rs) (r_len rs) (r_sels rs ++ [rg])))), t)
  end.

Definition resolve_simple (s : store) (b : sbuild) : store * option leaf :=
  match b with
  | BText rr o =>
      match ref_res s rr with
      | None => (s, None)
      | Some r =>
          match get_res s r with
          | None => (s, None)
          | Some rs =>
              match resource_ts (r_len rs) o with
              | Err => (s, None)
              | Ok rg => let '(s', t) := intern_sel s r rs rg in (s', Some (LText r t (mode_nat o)))
              end
          end
      end
  | BAnn ar None =>
      match ref_ann s ar with Some a => (s, Some (LAnn a)) | None => (s, None) end
  | BAnn ar (Some o) =>
      match ref_ann s ar with
      | None => (s, None)
      | Some a =>
          match get_ann s a with
          | None => (s, None)
          | Some an =>
              match ann_textsel s an with
              | None => (s, Some (LAnn a))      (* target has no single text selection: offset ignored *)
              | Some (r, _, prg) =>
                  match selection_ts prg o with
                  | Err => (s, None)
                  | Ok rg =>
                      match get_res s r with
                      | None => (s, None)
                      | Some rs => let '(s', t) := intern_sel s r rs rg in (s', Some (LAnnText a r t (mode_nat o)))
                      end
                  end
              end
          end
      end
  | BRes rr => match ref_res s rr with Some r => (s, Some (LRes r)) | None => (s, None) end
  | BSet dr => match ref_set s dr with Some d => (s, Some (LSet d)) | None => (s, None) end
  | BKey dr kr =>
      match ref_set s dr with
      | None => (s, None)
      | Some d => match get_set s d with
                  | None => (s, None)
                  | Some ds => match ref_key ds kr with Some k => (s, Some (LKey d k)) | None => (s, None) end
                  end
      end
  | BData dr xr =>
      match ref_set s dr with
      | None => (s, None)
      | Some d => match get_set s d with
                  | None => (s, None)
                  | Some ds => match ref_data ds xr with Some x => (s, Some (LData d x)) | None => (s, None) end
                  end
      end
  | BComplex _ _ => (s, None)     (* complex selectors may not be nested *)
  end.

Fixpoint resolve_subs (s : store) (l : list sbuild) : store * option (list leaf) :=
  match l with
  | [] => (s, Some [])
  | b :: l' =>
      match resolve_simple s b with
      | (s1, None) => (s1, None)
      | (s1, Some lf) =>
          match resolve_subs s1 l' with
          | (s2, None) => (s2, None)
          | (s2, Some lfs) => (s2, Some (lf :: lfs))
          end
      end
  end.

Definition resolve_target (s : store) (b : sbuild) : store * option (nat * list leaf) :=
  match b with
  | BComplex k l =>
      match resolve_subs s l with
      | (s', Some lfs) => (s', Some (k, lfs))
      | (s', None) => (s', None)
      end
  | _ =>
      match resolve_simple s b with
      | (s', Some lf) => (s', Some (0, [lf]))
      | (s', None) => (s', None)
      end
  end.

(** * Indexing an inserted annotation (StoreCallbacks<Annotation>::inserted) *)

Definition index_leaf (h : nat) (s : store) (lf : leaf) : store :=
  match lf with
  | LText r t _ => set_trm s (tins (trm s) r t h)
  | LAnn a => set_aam s (rins (aam s) a h)
  | LAnnText a r t _ => set_aam (set_trm s (tins (trm s) r t h)) (rins (aam s) a h)
  | LRes r => set_ramm s (rins (ramm s) r h)
  | LSet d => set_samm s (rins (samm s) d h)
  | LKey d k => set_kamm s (tins (kamm s) d k h)
  | LData d x => set_damm s (tins (damm s) d x h)
  end.

Definition index_ann (s : store) (h : nat) (a : ann) : store :=
  let s1 := fold_left (fun s dx => set_ddam s (tins (ddam s) (fst dx) (snd dx) h)) (a_data a) s in
  fold_left (index_leaf h) (a_leaves a) s1.

Definition leaf_eqb (x y : leaf) : bool :=
  match x, y with
  | LText r t m, LText r' t' m' => Nat.eqb r r' && Nat.eqb t t' && Nat.eqb m m'
  | LAnn a, LAnn a' => Nat.eqb a a'
  | LAnnText a r t m, LAnnText a' r' t' m' => Nat.eqb a a' && Nat.eqb r r' && Nat.eqb t t' && Nat.eqb m m'
  | LRes r, LRes r' => Nat.eqb r r'
  | LSet d, LSet d' => Nat.eqb d d'
  | LKey d k, LKey d' k' => Nat.eqb d d' && Nat.eqb k k'
  | LData d k, LData d' k' => Nat.eqb d d' && Nat.eqb k k'
  | _, _ => false
  end.

Fixpoint list_eqb {X} (f : X -> X -> bool) (a b : list X) : bool :=
  match a, b with
  | [], [] => true
  | x :: a', y :: b' => f x y && list_eqb f a' b'
  | _, _ => false
  end.

Definition pair_eqb (x y : nat * nat) : bool := Nat.eqb (fst x) (fst y) && Nat.eqb (snd x) (snd y).

Record abuild := mkab { ab_id : option nat; ab_target : option sbuild; ab_data : list dbuild }.

Fixpoint insert_datas (s : store) (l : list dbuild) : store * option (list (nat * nat)) :=
  match l with
  | [] => (s, Some [])
  | b :: l' =>
      match store_insert_data s b with
      | (s1, None) => (s1, None)
      | (s1, Some dx) =>
          match insert_datas s1 l' with
          | (s2, None) => (s2, None)
          | (s2, Some dxs) => (s2, Some (dx :: dxs))
          end
      end
  end.

Definition annotate (s : store) (b : abuild) : store * out :=
  match ab_target b with
  | None => (s, OErr)
  | Some tb =>
      match resolve_target s tb with
      | (s1, None) => (s1, OErr)
      | (s1, Some (kind, leaves)) =>
          match insert_datas s1 (ab_data b) with
          | (s2, None) => (s2, OErr)
          | (s2, Some data) =>
              let a := mkann (ab_id b) data kind leaves in
              let h := length (anns s2) in
              let dup := match ab_id b with Some tok => id_get (aidx s2) tok | None => None end in
              match dup with
              | Some h' =>
                  match get_ann s2 h' with
                  | Some ex =>
                      if Nat.eqb (a_kind ex) kind && list_eqb leaf_eqb (a_leaves ex) leaves
                         && list_eqb pair_eqb (a_data ex) data
                      then (s2, OOk h') else (s2, OErr)
                  | None => (s2, OPanic)
                  end
              | None =>
                  let s3 := set_anns s2 (anns s2 ++ [Some a]) in
                  let s4 := match ab_id b with Some tok => set_aidx s3 (id_put (aidx s3) tok h) | None => s3 end in
                  (index_ann s4 h a, OOk h)
              end
          end
      end
  end.

(** * Removal *)

(* BTreeSet of handles: sorted, duplicate-free *)
Fixpoint ins_sorted (x : nat) (l : list nat) : list nat :=
  match l with
  | [] => [x]
  | y :: l' => if x <? y then x :: l else if Nat.eqb x y then l else y :: ins_sorted x l'
  end.
Definition sort_dedup (l : list nat) : list nat := fold_right ins_sorted [] l.

Definition dedup_nat (l : list nat) : list nat :=
  fold_right (fun x acc => if existsb (Nat.eqb x) acc then acc else x :: acc) [] l.

(* preremove(Annotation) without the recursion: take the annotation out of every map *)
Definition unindex_leaf (h : nat) (s : store) (lf : leaf) : store :=
  match lf with
  | LText r t _ => set_trm s (trem (trm s) r t h)
  | LAnn a => set_aam s (rrem (aam s) a h)
  | LAnnText a r t _ => set_aam (set_trm s (trem (trm s) r t h)) (rrem (aam s) a h)
  | LRes r => set_ramm s (rrem (ramm s) r h)
  | LSet d => set_samm s (rrem (samm s) d h)
  | LKey d k => set_kamm s (trem (kamm s) d k h)
  | LData d x => set_damm s (trem (damm s) d x h)
  end.

Definition unindex_ann (s : store) (h : nat) (a : ann) : store :=
  let s1 := fold_left (fun s dx => set_ddam s (trem (ddam s) (fst dx) (snd dx) h)) (a_data a) s in
  fold_left (unindex_leaf h) (a_leaves a) s1.

(* StoreFor<Annotation>::remove: recursion over the annotations that target this one
   (annotation_annotation_map), then preremove, id map, slot.  Fuel bounds the depth. *)
Fixpoint remove_ann (fuel : nat) (s : store) (h : nat) : store * out :=
  match fuel with
  | 0 => (s, OPanic)
  | S fuel' =>
      match get_ann s h with
      | None => (s, OErr)
      | Some _ =>
          let s1 := fold_left (fun s c => fst (remove_ann fuel' s c)) (rget (aam s) h) s in
          let s2 := set_aam s1 (rclear (aam s1) h) in
          match get_ann s2 h with
          | None => (s2, OErr)
          | Some a =>
              let s3 := unindex_ann s2 h a in
              let s4 := match a_id a with Some tok => set_aidx s3 (id_del (aidx s3) tok) | None => s3 end in
              (set_anns s4 (set_slot (anns s4) h None), OOk h)
          end
      end
  end.

Definition fuel_of (s : store) : nat := S (length (anns s)).

Definition remove_anns (s : store) (l : list nat) : store :=
  fold_left (fun s c => fst (remove_ann (fuel_of s) s c)) l s.

Definition rm_annotation (s : store) (r : iref) : store * out :=
  match ref_ann s r with
  | None => (s, OErr)
  | Some h => remove_ann (fuel_of s) s h
  end.

(* preremove(TextResource) + remove *)
Definition rm_resource (s : store) (r : iref) : store * out :=
  match ref_res s r with
  | None => (s, OErr)
  | Some h =>
      let s1 := remove_anns s (rget (ramm s) h) in
      let texts := sort_dedup (concat (nth h (trm s1) [])) in
      let s2 := remove_anns s1 texts in
      let s3 := set_trm (set_ramm s2 (rclear (ramm s2) h)) (tclear (trm s2) h) in
      match get_res s3 h with
      | None => (s3, OErr)
      | Some rs => (set_ress (set_ridx s3 (id_del (ridx s3) (r_id rs))) (set_slot (ress s3) h None), OOk h)
      end
  end.

Definition live_handles {X} (l : list (option X)) : list nat :=
  filter (fun h => match slot l h with Some _ => true | None => false end) (seq 0 (length l)).

(* preremove(AnnotationDataSet) + remove *)
Definition rm_dataset (s : store) (r : iref) : store * out :=
  match ref_set s r with
  | None => (s, OErr)
  | Some h =>
      let users := filter (fun a => match get_ann s a with
                                    | Some an => existsb (fun dx => Nat.eqb (fst dx) h) (a_data an)
                                    | None => false
                                    end) (live_handles (anns s)) in
      let s1 := remove_anns s users in
      let s2 := remove_anns s1 (rget (samm s1) h) in
      let s3 := set_samm s2 (rclear (samm s2) h) in
      let metas := sort_dedup (concat (nth h (kamm s3) []) ++ concat (nth h (damm s3) [])) in
      let s4 := remove_anns s3 metas in
      let s5 := set_ddam (set_damm (set_kamm s4 (tclear (kamm s4) h)) (tclear (damm s4) h)) (tclear (ddam s4) h) in
      match get_set s5 h with
      | None => (s5, OErr)
      | Some d => (set_sets (set_sidx s5 (id_del (sidx s5) (d_id d))) (set_slot (sets s5) h None), OOk h)
      end
  end.

(* Annotation::remove_data *)
Definition ann_remove_data (a : ann) (d x : nat) : ann :=
  mkann (a_id a) (filter (fun dx => negb (Nat.eqb (fst dx) d && Nat.eqb (snd dx) x)) (a_data a)) (a_kind a) (a_leaves a).

(* AnnotationStore::remove_data on resolved handles *)
Definition remove_data_h (s : store) (d x : nat) (strict : bool) : store * out :=
  let users := tget (ddam s) d x in
  let s1 :=
    fold_left (fun s a =>
                 if strict then fst (remove_ann (fuel_of s) s a)
                 else match get_ann s a with
                      | None => s
                      | Some an =>
                          let an' := ann_remove_data an d x in
                          let s' := set_anns s (set_slot (anns s) a (Some an')) in
                          match a_data an', a_data an with
                          | [], _ :: _ => fst (remove_ann (fuel_of s') s' a)
                          | _, _ => s'
                          end
                      end) users s in
  let s2 := remove_anns s1 (tget (damm s1) d x) in
  let s3 := set_damm s2 (tclear2 (damm s2) d x) in
  match get_set s3 d with
  | None => (s3, OErr)
  | Some ds =>
      match slot (d_data ds) x with
      | None => (s3, OErr)
      | Some it =>
          let ds' := mkset (d_id ds) (d_keys ds) (set_slot (d_data ds) x None) (d_kidx ds)
                           (match x_id it with Some tok => id_del (d_xidx ds) tok | None => d_xidx ds end)
                           (rrem (d_k2x ds) (x_key it) x) in
          let s4 := set_sets s3 (set_slot (sets s3) d (Some ds')) in
          (fold_left (fun s a => set_ddam s (trem (ddam s) d x a)) users s4, OOk x)
      end
  end.

(* Request::to_handle: an id goes through the id map, a handle is taken as it is *)
Definition to_handle (m : idmap) (r : iref) : option nat :=
  match r with ById tok => id_get m tok | ByHandle h => Some h end.

Definition rm_data (s : store) (dr xr : iref) (strict : bool) : store * out :=
  match to_handle (sidx s) dr with
  | None => (s, OOk 0)          (* remove_data ignores ids that do not resolve *)
  | Some d =>
      match get_set s d with
      | None => (s, OErr)
      | Some ds =>
          match to_handle (d_xidx ds) xr with
          | None => (s, OOk 0)
          | Some x => remove_data_h s d x strict
          end
      end
  end.

Definition rm_key (s : store) (dr kr : iref) (strict : bool) : store * out :=
  match to_handle (sidx s) dr with
  | None => (s, OOk 0)
  | Some d =>
      match get_set s d with
      | None => (s, OErr)
      | Some ds =>
          match to_handle (d_kidx ds) kr with
          | None => (s, OOk 0)
          | Some k =>
              let s1 := fold_left (fun s x => fst (remove_data_h s d x strict)) (rget (d_k2x ds) k) s in
              match get_set s1 d with
              | None => (s1, OErr)
              | Some ds1 =>
                  match slot (d_keys ds1) k with
                  | None => (s1, OErr)
                  | Some tok =>
                      let ds' := mkset (d_id ds1) (set_slot (d_keys ds1) k None) (d_data ds1)
                                       (id_del (d_kidx ds1) tok) (d_xidx ds1) (rclear (d_k2x ds1) k) in
                      let s2 := set_sets s1 (set_slot (sets s1) d (Some ds')) in
                      let s3 := remove_anns s2 (tget (kamm s2) d k) in
                      (set_kamm s3 (tclear2 (kamm s3) d k), OOk k)
                  end
              end
          end
      end
  end.

(** * Operations *)
(* AnnotationDataSet::insert(DataKey::new(id)) on an existing set: a key declared without data.
   The key -> data index only grows when data is inserted, so a declared key may lie beyond it. *)
Definition dset_add_key (d : dset) (tok : nat) : dset * out :=
  match ref_key d (ById tok) with
  | Some k => (d, OOk k)              (* the same key again: returned as is *)
  | None =>
      let k := length (d_keys d) in
      (mkset (d_id d) (d_keys d ++ [Some tok]) (d_data d) (id_put (d_kidx d) tok k) (d_xidx d) (d_k2x d), OOk k)
  end.

Definition store_add_key (s : store) (dr : iref) (tok : nat) : store * out :=
  match ref_set s dr with
  | None => (s, OErr)
  | Some h =>
      match get_set s h with
      | None => (s, OErr)
      | Some d => let '(d', r) := dset_add_key d tok in (set_sets s (set_slot (sets s) h (Some d')), r)
      end
  end.

Inductive op :=
| AddRes (id len : nat)
| AddSet (id : nat)
| InsData (b : dbuild)
| Annotate (b : abuild)
| RmAnn (r : iref)
| RmData (d x : iref) (strict : bool)
| RmKey (d k : iref) (strict : bool)
| RmRes (r : iref)
| RmSet (r : iref)
| AddKey (d : iref) (tok : nat).

Definition step (s : store) (o : op) : store * out :=
  match o with
  | AddRes id len => add_res s id len
  | AddSet id => add_set s id
  | InsData b => match store_insert_data s b with
                 | (s', Some (_, x)) => (s', OOk x)
                 | (s', None) => (s', OErr)
                 end
  | Annotate b => annotate s b
  | RmAnn r => rm_annotation s r
  | RmData d x st => rm_data s d x st
  | RmKey d k st => rm_key s d k st
  | RmRes r => rm_resource s r
  | RmSet r => rm_dataset s r
  | AddKey d tok => store_add_key s d tok
  end.

Definition run (ops : list op) : store := fold_left (fun s o => fst (step s o)) ops empty_store.
