(* Model of cursor / offset resolution and reporting:
     Text::beginaligned_cursor                         (src/text.rs)
     TextResource::textselection_by_offset(_unchecked) (src/resources.rs)
     TextSelection::{beginaligned_cursor, textselection_by_offset, relative_begin,
       relative_end, relative_*_endaligned, relative_offset}  (src/textselection.rs)
     Selector::offset_with_mode                        (src/selector.rs)
   Positions are codepoint positions.  A selection is (begin, end). *)
From Coq Require Import List ZArith Bool Arith.
Import ListNotations.

Inductive cursor := CB (n : nat) | CE (z : Z).
Record offset := mkoff { o_begin : cursor; o_end : cursor }.
Inductive omode := BeginBegin | BeginEnd | EndEnd | EndBegin.

Inductive res (A : Type) := Ok (a : A) | Err.
Arguments Ok {A} a.
Arguments Err {A}.

(* beginaligned_cursor on a text of [len] codepoints (resource: len = textlen;
   selection: len = end - begin): an end-aligned cursor must be <= 0 and may
   not reach before the beginning *)
Definition beginaligned (len : nat) (c : cursor) : res nat :=
  match c with
  | CB n => Ok n
  | CE z =>
      if (0 <? z)%Z then Err
      else if len <? Z.abs_nat z then Err
      else Ok (len - Z.abs_nat z)
  end.

(* TextResource::textselection_by_offset / textselection_by_offset_unchecked *)
Definition resource_ts (len : nat) (o : offset) : res (nat * nat) :=
  match beginaligned len (o_begin o) with
  | Err => Err
  | Ok b =>
      match beginaligned len (o_end o) with
      | Err => Err
      | Ok e =>
          if len <? b then Err
          else if len <? e then Err
          else if b <=? e then Ok (b, e) else Err
      end
  end.

(* TextSelection::textselection_by_offset: offset relative to the selection [pb, pe) *)
Definition selection_ts (p : nat * nat) (o : offset) : res (nat * nat) :=
  let len := snd p - fst p in
  match beginaligned len (o_begin o) with
  | Err => Err
  | Ok b =>
      match beginaligned len (o_end o) with
      | Err => Err
      | Ok e =>
          if (len <? e) || (e <? b) then Err
          else Ok (fst p + b, fst p + e)
      end
  end.

Definition mode_of (o : offset) : omode :=
  match o_begin o, o_end o with
  | CB _, CB _ => BeginBegin
  | CB _, CE _ => BeginEnd
  | CE _, CB _ => EndBegin
  | CE _, CE _ => EndEnd
  end.

(* Selector::offset_with_mode for a TextSelector on a resource of [len] codepoints *)
Definition report_resource (len : nat) (t : nat * nat) (m : omode) : offset :=
  let '(b, e) := t in
  let eb := (Z.of_nat b - Z.of_nat len)%Z in
  let ee := (Z.of_nat e - Z.of_nat len)%Z in
  match m with
  | BeginBegin => mkoff (CB b) (CB e)
  | BeginEnd => mkoff (CB b) (CE ee)
  | EndBegin => mkoff (CE eb) (CB e)
  | EndEnd => mkoff (CE eb) (CE ee)
  end.

(* relative_begin / relative_end / the end-aligned variants *)
Definition relative_begin (t c : nat * nat) : option nat :=
  if fst c <=? fst t then Some (fst t - fst c) else None.
Definition relative_end (t c : nat * nat) : option nat :=
  if (snd t <=? snd c) && (fst c <=? snd t) then Some (snd t - fst c) else None.
Definition relative_begin_endaligned (t c : nat * nat) : option Z :=
  if fst c <=? fst t then
    let beginaligned := fst t - fst c in
    let containerlen := (Z.of_nat (snd c) - Z.of_nat (fst c))%Z in
    Some (Z.of_nat beginaligned - containerlen)%Z
  else None.
Definition relative_end_endaligned (t c : nat * nat) : option Z :=
  if (snd t <=? snd c) && (fst c <=? snd t) then
    let beginaligned := snd t - fst c in
    let containerlen := (Z.of_nat (snd c) - Z.of_nat (fst c))%Z in
    Some (Z.of_nat beginaligned - containerlen)%Z
  else None.

(* TextSelection::relative_offset (= offset_with_mode for an AnnotationSelector) *)
Definition relative_offset (t c : nat * nat) (m : omode) : option offset :=
  match m with
  | BeginBegin =>
      match relative_begin t c, relative_end t c with
      | Some b, Some e => Some (mkoff (CB b) (CB e)) | _, _ => None end
  | BeginEnd =>
      match relative_begin t c, relative_end_endaligned t c with
      | Some b, Some e => Some (mkoff (CB b) (CE e)) | _, _ => None end
  | EndEnd =>
      match relative_begin_endaligned t c, relative_end_endaligned t c with
      | Some b, Some e => Some (mkoff (CE b) (CE e)) | _, _ => None end
  | EndBegin =>
      match relative_begin_endaligned t c, relative_end t c with
      | Some b, Some e => Some (mkoff (CE b) (CB e)) | _, _ => None end
  end.

(* a chain of annotation-relative offsets: level 0 against the resource, level
   k+1 against the selection of level k; the list of accepted selections *)
Fixpoint resolve_chain (parent : nat * nat) (os : list offset) : list (res (nat * nat)) :=
  match os with
  | [] => []
  | o :: os' =>
      match selection_ts parent o with
      | Ok t => Ok t :: resolve_chain t os'
      | Err => [Err]
      end
  end.

(* FindText::textselection on a selection: Text::absolute_offset (bounds of the
   selection), then the resource-level check *)
Definition findtext_sel_ts (len : nat) (p : nat * nat) (o : offset) : res (nat * nat) :=
  let plen := snd p - fst p in
  match beginaligned plen (o_begin o), beginaligned plen (o_end o) with
  | Ok b, Ok e =>
      if (plen <? b) || (plen <? e) then Err
      else resource_ts len (mkoff (CB (fst p + b)) (CB (fst p + e)))
  | _, _ => Err
  end.
