(* Model of the codepoint <-> UTF-8 byte conversion of a TextResource:
     create_milestones, utf8byte, utf8byte_to_charpos, the position-index part
     of StoreCallbacks<TextSelection>::inserted           (src/resources.rs)
     the relative variants on text selections            (src/api/text.rs)
   A text is the list of its scalar values; the position index is reduced to
   its (charpos -> bytepos) content, byte2charmap to (bytepos -> charpos). *)
From Coq Require Import List NArith Arith Bool.
Import ListNotations.
From Stam Require Import Model.Offset.

Definition text := list N.

(* UTF-8 length of a scalar value *)
Definition clen (c : N) : nat :=
  if (c <? 128)%N then 1 else if (c <? 2048)%N then 2 else if (c <? 65536)%N then 3 else 4.

Definition blen (t : text) : nat := fold_right (fun c n => clen c + n) 0 t.
(* byte position of codepoint position p *)
Definition bytepos (t : text) (p : nat) : nat := blen (firstn p t).

Definition index := list (nat * nat).

Fixpoint lookup (k : nat) (m : index) : option nat :=
  match m with
  | [] => None
  | (k', v) :: m' => if k =? k' then Some v else lookup k m'
  end.

(* BTreeMap::range(0..k).next_back(): the entry with the greatest key < k *)
Fixpoint pred_entry (k : nat) (m : index) : option (nat * nat) :=
  match m with
  | [] => None
  | (k', v) :: m' =>
      match pred_entry k m' with
      | Some (k2, v2) => if (k' <? k) && (k2 <? k') then Some (k', v) else Some (k2, v2)
      | None => if k' <? k then Some (k', v) else None
      end
  end.

(* or_insert: keep an existing entry *)
Definition insert_absent (k v : nat) (m : index) : index :=
  match lookup k m with Some _ => m | None => (k, v) :: m end.

(* &text[b..]: the characters starting at byte offset b; None = not on a
   character boundary or beyond the text (a panic in Rust) *)
Fixpoint drop_bytes (b : nat) (t : text) : option text :=
  match b, t with
  | 0, _ => Some t
  | _, [] => None
  | _, c :: t' => if clen c <=? b then drop_bytes (b - clen c) t' else None
  end.

(* textslice.char_indices().enumerate(): find the k-th character, return its byte offset *)
Fixpoint scan_char (k : nat) (bp : nat) (t : text) : option nat :=
  match t with
  | [] => None
  | c :: t' => if k =? 0 then Some bp else scan_char (k - 1) (bp + clen c) t'
  end.

(* find the character that starts at byte offset b (relative), return its index *)
Fixpoint scan_byte (b : nat) (cp bp : nat) (t : text) : option nat :=
  match t with
  | [] => None
  | c :: t' => if bp =? b then Some cp else scan_byte b (S cp) (bp + clen c) t'
  end.

Inductive out (A : Type) := OOk (a : A) | OErr | OPanic.
Arguments OOk {A} a.
Arguments OErr {A}.
Arguments OPanic {A}.

(* TextResource::utf8byte *)
Definition utf8byte (idx : index) (t : text) (p : nat) : out nat :=
  match lookup p idx with
  | Some bp => OOk bp
  | None =>
      match pred_entry p idx with
      | Some (before_pos, before_byte) =>
          match drop_bytes before_byte t with
          | None => OPanic
          | Some slice =>
              if length t =? p then OOk (before_byte + blen slice)
              else match scan_char (p - before_pos) before_byte slice with
                   | Some bp => OOk bp
                   | None => OErr
                   end
          end
      | None =>
          if length t =? p then OOk (blen t)
          else match scan_char p 0 t with Some bp => OOk bp | None => OErr end
      end
  end.

(* TextResource::utf8byte_to_charpos *)
Definition utf8byte_to_charpos (b2c : index) (t : text) (b : nat) : out nat :=
  match lookup b b2c with
  | Some cp => OOk cp
  | None =>
      match pred_entry b b2c with
      | Some (before_byte, before_char) =>
          match drop_bytes before_byte t with
          | None => OPanic
          | Some slice =>
              if before_byte + blen slice =? b then OOk (length t)
              else match scan_byte b before_char before_byte slice with
                   | Some cp => OOk cp
                   | None => OErr
                   end
          end
      | None =>
          if blen t =? b then OOk (length t)
          else match scan_byte b 0 0 t with Some cp => OOk cp | None => OErr end
      end
  end.

(* create_milestones *)
Fixpoint milestones_go (interval cp bp : nat) (t : text) : index * index :=
  match t with
  | [] => ([], [])
  | c :: t' =>
      let '(i, m) := milestones_go interval (S cp) (bp + clen c) t' in
      if (0 <? cp) && (cp mod interval =? 0) then ((cp, bp) :: i, (bp, cp) :: m) else (i, m)
  end.
Definition milestones (interval : nat) (t : text) : index * index :=
  if interval =? 0 then ([], []) else milestones_go interval 0 0 t.

(* the position-index part of inserted(): both ends get an entry unless present *)
Definition insert_selection (st : index * index) (t : text) (b e : nat) : out (index * index) :=
  let '(idx, b2c) := st in
  match utf8byte idx t b, utf8byte idx t e with
  | OOk bb, OOk eb =>
      let idx1 := insert_absent b bb idx in
      let idx2 := insert_absent e eb idx1 in
      OOk (idx2, insert_absent eb e (insert_absent bb b b2c))
  | OPanic, _ | _, OPanic => OPanic
  | _, _ => OErr
  end.

(* relative variants on a selection [sb, se) (src/api/text.rs) *)
Definition sel_utf8byte (idx : index) (t : text) (sb se : nat) (p : nat) : out nat :=
  if se - sb <? p then OErr
  else match utf8byte idx t (sb + p) with
       | OOk b => OOk (b - bytepos t sb)
       | OErr => OErr
       | OPanic => OPanic
       end.

Definition sel_utf8byte_to_charpos (b2c : index) (t : text) (sb se : nat) (b : nat) : out nat :=
  if bytepos t se - bytepos t sb <? b then OErr
  else match utf8byte_to_charpos b2c t (bytepos t sb + b) with
       | OOk p => OOk (p - sb)
       | OErr => OErr
       | OPanic => OPanic
       end.

(* the text of the codepoint range [b, e) *)
Definition sub (t : text) (b e : nat) : text := firstn (e - b) (skipn b t).

(* &text[x..y] as characters: drop x bytes, then take characters while they fit in y - x bytes;
   None = a boundary falls inside a character (panic) *)
Fixpoint take_bytes (n : nat) (t : text) : option text :=
  match n, t with
  | 0, _ => Some []
  | _, [] => None
  | _, c :: t' =>
      if clen c <=? n then
        match take_bytes (n - clen c) t' with Some r => Some (c :: r) | None => None end
      else None
  end.
Definition byte_slice (t : text) (x y : nat) : option text :=
  match drop_bytes x t with
  | Some s => take_bytes (y - x) s
  | None => None
  end.
