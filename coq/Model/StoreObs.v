(* The public lookups of the store as the code computes them: through the
   reverse indices and id maps (src/annotationstore.rs annotations_by_*,
   src/api/*.rs).  FromHandles skips handles whose slot is empty. *)
From Coq Require Import List Arith Bool ZArith.
Import ListNotations.
From Stam Require Import Model.Offset Model.Store Model.Handles.

Definition live_ann (s : store) (h : nat) : bool :=
  match get_ann s h with Some _ => true | None => false end.
Definition flt (s : store) (l : list nat) : list nat := filter (live_ann s) l.

Definition m_ann_anns (s : store) (a : nat) := flt s (rget (aam s) a).
Definition m_res_meta (s : store) (r : nat) := flt s (rget (ramm s) r).
Definition m_res_text (s : store) (r : nat) := flt s (sort_dedup (concat (nth r (trm s) []))).
Definition m_ts_anns (s : store) (r t : nat) := flt s (tget (trm s) r t).
Definition m_set_meta (s : store) (d : nat) := flt s (rget (samm s) d).
Definition m_key_meta (s : store) (d k : nat) := flt s (tget (kamm s) d k).
Definition m_data_meta (s : store) (d x : nat) := flt s (tget (damm s) d x).
Definition m_data_anns (s : store) (d x : nat) := flt s (tget (ddam s) d x).
Definition m_key_data (ds : dset) (k : nat) : list nat :=
  filter (fun x => match slot (d_data ds) x with Some _ => true | None => false end) (rget (d_k2x ds) k).
Definition m_key_anns (s : store) (d : nat) (ds : dset) (k : nat) : list nat :=
  flt s (sort_dedup (flat_map (fun x => tget (ddam s) d x) (rget (d_k2x ds) k))).

(* id resolution through the id map; the item must exist *)
Definition m_resolve {X} (l : list (option X)) (m : idmap) (tok : nat) : list nat :=
  match resolve_ref l m (ById tok) with Some h => [h] | None => [] end.
