(* Model of temporary identifiers and id resolution on strings
     src/store.rs   resolve_temp_id, StoreFor::resolve_id, Storable::temp_id
     src/types.rs   TypeInfo::temp_id_prefix
   Strings are lists of Unicode scalar values (N).  Public ids of the harness
   are a kind letter followed by the canonical decimal token ("a3", "r0", ...), except two
   tokens whose ids look like the beginning of a temporary id (see plain_token). *)
From Coq Require Import List NArith Bool Arith.
Import ListNotations.
From Stam Require Import Model.Offset Model.Store.
Local Open Scope N_scope.

Inductive kind := KAnn | KRes | KSet | KKey | KData.

(* temp_id_prefix: '!' and a capital letter *)
Definition letter (k : kind) : N :=
  match k with KAnn => 65 | KRes => 82 | KSet => 83 | KKey => 75 | KData => 68 end.
(* the handle types are u32 (annotations, resources, data) and u16 (datasets, keys) *)
Definition width (k : kind) : N :=
  match k with KSet | KKey => 65536 | _ => 4294967296 end.
(* the lower-case letter the harness uses for ordinary ids of that kind *)
Definition idletter (k : kind) : N :=
  match k with KAnn => 97 | KRes => 114 | KSet => 115 | KKey => 107 | KData => 100 end.

Definition is_digit (c : N) : bool := (48 <=? c) && (c <=? 57).

Fixpoint parse_digits (acc : N) (s : list N) : option N :=
  match s with
  | [] => Some acc
  | c :: s' => if is_digit c then parse_digits (acc * 10 + (c - 48)) s' else None
  end.

(* usize::from_str: optional '+', at least one digit, digits only, no overflow (64 bit) *)
Definition parse_usize (s : list N) : option N :=
  let body := match s with 43 :: r => r | _ => s end in
  match body with
  | [] => None
  | _ => match parse_digits 0 body with
         | Some n => if n <? 18446744073709551616 then Some n else None
         | None => None
         end
  end.

(* resolve_id's temporary-id branch for items of kind k *)
Definition temp_resolve (k : kind) (s : list N) : option N :=
  match s with
  | c0 :: l :: rest =>
      if N.eqb c0 33 && N.eqb l (letter k) then
        match parse_usize rest with
        | Some n => if n <? width k then Some n else None
        | None => None
        end
      else None
  | _ => None
  end.

(* decimal printing (format!("{}", usize)) *)
Fixpoint digits_f (fuel : nat) (n : N) : list N :=
  match fuel with
  | O => []
  | S f => if n <? 10 then [48 + n] else digits_f f (n / 10) ++ [48 + n mod 10]
  end.
Definition digits (n : N) : list N := digits_f (S (N.to_nat (N.log2 n))) n.

Definition temp_id (k : kind) (h : N) : list N := 33 :: letter k :: digits h.

(* an ordinary id of the harness: letter + canonical decimal token ("a3"); the ids of tokens 4 and
   5 begin like a temporary id of their own kind without being one: '!', the capital, 'x', the
   token ("!Ax4") *)
Definition bang_named (n : N) : bool := N.eqb n 4 || N.eqb n 5.

Definition canonical_token (rest : list N) : option N :=
  match parse_digits 0 rest with
  | Some n => if (match rest with [] => false | _ => true end) && (n <? 1000)
                 && (list_eqb N.eqb (digits n) rest) then Some n else None
  | None => None
  end.

Definition plain_token (k : kind) (s : list N) : option N :=
  match s with
  | 33 :: l :: 120 :: rest =>
      if N.eqb l (letter k) then
        match canonical_token rest with
        | Some n => if bang_named n then Some n else None
        | None => None
        end
      else None
  | l :: rest =>
      if N.eqb l (idletter k) then
        match canonical_token rest with
        | Some n => if bang_named n then None else Some n
        | None => None
        end
      else None
  | [] => None
  end.

Local Close Scope N_scope.

Definition exists_slot {X} (l : list (option X)) (n : N) : option nat :=
  if N.ltb n (N.of_nat (length l)) then
    match slot l (N.to_nat n) with Some _ => Some (N.to_nat n) | None => None end
  else None.

(* store.annotation(str) / resource(str) / dataset(str) / set.key(str) / set.annotationdata(str):
   resolve_id (temporary id first, then the id map), then the item must exist *)
Definition lookup_str {X} (k : kind) (l : list (option X)) (m : idmap) (s : list N) : option nat :=
  match temp_resolve k s with
  | Some n => exists_slot l n
  | None =>
      match plain_token k s with
      | Some tok => resolve_ref l m (ById (N.to_nat tok))
      | None => None
      end
  end.

(* a store configured with strip_temp_ids(false): the id maps do not resolve temporary ids, a
   string in that syntax is an ordinary identifier *)
Definition lookup_str_plain {X} (k : kind) (l : list (option X)) (m : idmap) (s : list N) : option nat :=
  match plain_token k s with
  | Some tok => resolve_ref l m (ById (N.to_nat tok))
  | None => None
  end.
