(* A first-match table of comparator arms and its interpretation.  The table itself
   (Gen/SubOrderTable.v) is regenerated from src/annotationstore.rs on every run by
   tools/translate_suborder.py; Proofs/AgreeSubOrder.v proves that it denotes Model/SubOrder.leaf_cmp. *)
From Coq Require Import List Arith Bool.
Import ListNotations.
From Stam Require Import Model.Offset Model.Store Model.Compress Model.SubOrder.

(* what a pattern `Selector::X(..)` of the comparator accepts *)
Inductive pk := KText | KAnnText | KAnnNone | KAnnAny | KRes | KSet | KKey | KData | KAny.

Inductive act :=
| ALt | AGt | AEq
| ACmp (i : nat)          (* x.cmp(y), x and y the i-th field of the left / right selector *)
| ACmp2 (i j : nat)       (* (x, y).cmp(&(x2, y2)) on fields i and j *)
| AText.                  (* same resource: the text selections (begin, end), else the resources *)

Record arm := mkarm { arm_alts : list (pk * pk); arm_act : act }.

Definition pk_matches (p : pk) (lf : leaf) : bool :=
  match p, lf with
  | KAny, _ => true
  | KText, LText _ _ _ => true
  | KAnnText, LAnnText _ _ _ _ => true
  | KAnnNone, LAnn _ => true
  | KAnnAny, LAnn _ | KAnnAny, LAnnText _ _ _ _ => true
  | KRes, LRes _ => true
  | KSet, LSet _ => true
  | KKey, LKey _ _ => true
  | KData, LData _ _ => true
  | _, _ => false
  end.

(* the fields of a selector in the order of the Rust variant *)
Definition fields (lf : leaf) : list nat :=
  match lf with
  | LText r t m => [r; t; m]
  | LAnnText a r t m => [a; r; t; m]
  | LAnn a => [a]
  | LRes r => [r]
  | LSet d => [d]
  | LKey d k => [d; k]
  | LData d x => [d; x]
  end.

Definition text_of (lf : leaf) : nat * nat :=
  match lf with LText r t _ | LAnnText _ r t _ => (r, t) | _ => (0, 0) end.

Definition run_act (s : store) (a : act) (x y : leaf) : comparison :=
  match a with
  | ALt => Lt | AGt => Gt | AEq => Eq
  | ACmp i => Nat.compare (nth i (fields x) 0) (nth i (fields y) 0)
  | ACmp2 i j => cmp_then (Nat.compare (nth i (fields x) 0) (nth i (fields y) 0))
                          (Nat.compare (nth j (fields x) 0) (nth j (fields y) 0))
  | AText => text_cmp s (fst (text_of x)) (snd (text_of x)) (fst (text_of y)) (snd (text_of y))
  end.

Fixpoint interp (arms : list arm) (s : store) (x y : leaf) : comparison :=
  match arms with
  | [] => Eq
  | a :: arms' =>
      if existsb (fun pq => pk_matches (fst pq) x && pk_matches (snd pq) y) (arm_alts a)
      then run_act s (arm_act a) x y else interp arms' s x y
  end.
