(* Model of the STAM JSON serialisation and of the loader, at the level of JSON trees:
     src/annotationstore.rs  Serialize for AnnotationStore / WrappedStore<..>, the visitors
                             AnnotationStoreVisitor, AnnotationsVisitor (temp-id gap filling),
                             ResourcesVisitor, AnnotationDataSetsVisitor
     src/annotation.rs       Serialize for ResultItem<Annotation>, AnnotationDataRef, AnnotationJson
     src/selector.rs         Serialize for WrappedSelector(s), SelectorJson, Offset; Selector::offset
     src/types.rs            Cursor (serde: tag "@type", content "value")
     src/annotationdataset.rs  Serialize for AnnotationDataSet, the visitors (DataVisitor gap filling)
     src/annotationdata.rs   Serialize for ResultItem<AnnotationData>, AnnotationDataJson
     src/datakey.rs, src/datavalue.rs (serde: tag "@type", content "value")
     src/resources.rs        Serialize for TextResource (inline / @include), TextResourceBuilder::build
     src/store.rs            temp_id, resolve_temp_id, resolve_id
   Three levels:
     dstore  the store as the library holds it: slots (None = removed), references by handle,
             text targets as absolute ranges plus the alignment mode of the stored selector
     cstore  what the serialiser reads out of it: live items in order, every reference by
             name (public id, or the temporary id "!A7" of the handle), offsets as reported by
             Selector::offset; this is also the canonical observation of a store
     bstore  the documents: what the builders (serde helper structs) hold after parsing; the
             main document plus the stand-off files
   json_of_* / parse_* go between bstore and JSON trees (Model/Json.v); [docs] goes from
   cstore to the documents; [build] is the loader (insert, gap filling, id resolution,
   annotate) from documents to a dstore.  Executable definitions only. *)
From Coq Require Import String Ascii.
From Coq Require Import List NArith ZArith Bool Arith.
From Stam Require Import Model.Offset Model.Json Model.TempId.
Import ListNotations.

Definition lit (x : string) : str := map N_of_ascii (list_ascii_of_string x).
Notation "'LIT' s" := (ltac:(let v := eval vm_compute in (lit s%string) in exact v))
  (at level 0, s at level 0, only parsing).

(** * Numbers *)

Definition n_lit (n : N) : str := digits n.
Definition nat_lit (n : nat) : str := digits (N.of_nat n).
Definition z_lit (z : Z) : str :=
  if (z <? 0)%Z then 45%N :: digits (Z.abs_N z) else digits (Z.abs_N z).

(* digits only, at least one *)
Definition lit_n (s : str) : option N :=
  match s with [] => None | _ => parse_digits 0 s end.
Definition lit_nat (s : str) : option nat := option_map N.to_nat (lit_n s).
Definition lit_z (s : str) : option Z :=
  match s with
  | c :: r => if N.eqb c 45 then option_map (fun n => (- Z.of_N n)%Z) (lit_n r)
              else option_map Z.of_N (lit_n s)
  | [] => None
  end.

(* a float on the grid of multiples of 1/1000, as serde_json (ryu) prints it: the integer part,
   a point, the fraction without trailing zeros but with at least one digit *)
Definition frac_lit (fp : N) : str :=
  let d1 := (fp / 100)%N in let d2 := ((fp / 10) mod 10)%N in let d3 := (fp mod 10)%N in
  if N.eqb d3 0 then (if N.eqb d2 0 then [48 + d1] else [48 + d1; 48 + d2])%N
  else [48 + d1; 48 + d2; 48 + d3]%N.
Definition fix_lit (z : Z) : str :=
  let a := Z.abs_N z in
  (if (z <? 0)%Z then [45%N] else []) ++ digits (a / 1000) ++ 46%N :: frac_lit (a mod 1000).

Definition dig (c : N) : option N := if TempId.is_digit c then Some (c - 48)%N else None.
Definition lit_frac (fr : str) : option N :=
  match fr with
  | [a] => match dig a with Some x => Some (x * 100)%N | None => None end
  | [a; b] => match dig a, dig b with Some x, Some y => Some (x * 100 + y * 10)%N | _, _ => None end
  | [a; b; c] => match dig a, dig b, dig c with
                 | Some x, Some y, Some w => Some (x * 100 + y * 10 + w)%N | _, _, _ => None end
  | _ => None
  end.
Fixpoint split_at_dot (s : str) : option (str * str) :=
  match s with
  | [] => None
  | c :: r => if N.eqb c 46 then Some ([], r)
              else match split_at_dot r with Some (a, b) => Some (c :: a, b) | None => None end
  end.
Definition lit_ufix (s : str) : option N :=
  match split_at_dot s with
  | Some (ip, fr) => match lit_n ip, lit_frac fr with
                     | Some i, Some f => Some (i * 1000 + f)%N | _, _ => None end
  | None => None
  end.
Definition lit_fix (s : str) : option Z :=
  match s with
  | c :: r => if N.eqb c 45 then option_map (fun n => (- Z.of_N n)%Z) (lit_ufix r)
              else option_map Z.of_N (lit_ufix s)
  | [] => None
  end.

(** * Member names and type names *)
Definition K_type := LIT "@type".
Definition K_id := LIT "@id".
Definition K_include := LIT "@include".
Definition K_value := LIT "value".
Definition K_text := LIT "text".
Definition K_resources := LIT "resources".
Definition K_annotationsets := LIT "annotationsets".
Definition K_annotations := LIT "annotations".
Definition K_keys := LIT "keys".
Definition K_data := LIT "data".
Definition K_key := LIT "key".
Definition K_set := LIT "set".
Definition K_target := LIT "target".
Definition K_offset := LIT "offset".
Definition K_begin := LIT "begin".
Definition K_end := LIT "end".
Definition K_resource := LIT "resource".
Definition K_annotation := LIT "annotation".
Definition K_annotationset := LIT "annotationset".
Definition K_selectors := LIT "selectors".

Definition T_Null := LIT "Null".
Definition T_String := LIT "String".
Definition T_Bool := LIT "Bool".
Definition T_Int := LIT "Int".
Definition T_Float := LIT "Float".
Definition T_List := LIT "List".
Definition T_Datetime := LIT "Datetime".
Definition T_Begin := LIT "BeginAlignedCursor".
Definition T_End := LIT "EndAlignedCursor".
Definition T_Offset := LIT "Offset".
Definition T_TextSelector := LIT "TextSelector".
Definition T_AnnotationSelector := LIT "AnnotationSelector".
Definition T_ResourceSelector := LIT "ResourceSelector".
Definition T_DataSetSelector := LIT "DataSetSelector".
Definition T_DataKeySelector := LIT "DataKeySelector".
Definition T_AnnotationDataSelector := LIT "AnnotationDataSelector".
Definition T_MultiSelector := LIT "MultiSelector".
Definition T_CompositeSelector := LIT "CompositeSelector".
Definition T_DirectionalSelector := LIT "DirectionalSelector".
Definition T_AnnotationStore := LIT "AnnotationStore".
Definition T_TextResource := LIT "TextResource".
Definition T_AnnotationDataSet := LIT "AnnotationDataSet".
Definition T_DataKey := LIT "DataKey".
Definition T_AnnotationData := LIT "AnnotationData".
Definition T_Annotation := LIT "Annotation".
Definition EXT_json := LIT ".json".

Definition mem_str (k : str) (m : list (str * json)) : option str :=
  match member k m with Some (JStr s) => Some s | _ => None end.

(** * Values (src/datavalue.rs) *)

Inductive jval :=
| XNull | XBool (b : bool) | XInt (z : Z)
| XFix (z : Z)              (* Float, on the 1/1000 grid *)
| XStr (s : str)
| XList (l : list jval)
| XDate (s : str).          (* the RFC 3339 text chrono prints; its print/parse pair is trusted *)

Fixpoint json_of_val (v : jval) : json :=
  match v with
  | XNull => JObj [(K_type, JStr T_Null)]
  | XBool b => JObj [(K_type, JStr T_Bool); (K_value, JBool b)]
  | XInt z => JObj [(K_type, JStr T_Int); (K_value, JNum (z_lit z))]
  | XFix z => JObj [(K_type, JStr T_Float); (K_value, JNum (fix_lit z))]
  | XStr s => JObj [(K_type, JStr T_String); (K_value, JStr s)]
  | XList l => JObj [(K_type, JStr T_List); (K_value, JArr (map json_of_val l))]
  | XDate s => JObj [(K_type, JStr T_Datetime); (K_value, JStr s)]
  end.

(* the adjacently tagged enum: the tag is looked up by name, then the content member *)
Fixpoint parse_val (j : json) : option jval :=
  match j with
  | JObj m =>
      match mem_str K_type m with
      | None => None
      | Some t =>
          if str_eqb t T_Null then Some XNull else
          (fix find (m : list (str * json)) : option jval :=
             match m with
             | [] => None
             | (k, v) :: m' =>
                 if str_eqb K_value k then
                   if str_eqb t T_Bool then match v with JBool b => Some (XBool b) | _ => None end
                   else if str_eqb t T_Int then
                     match v with JNum l => option_map XInt (lit_z l) | _ => None end
                   else if str_eqb t T_Float then
                     match v with JNum l => option_map XFix (lit_fix l) | _ => None end
                   else if str_eqb t T_String then match v with JStr s => Some (XStr s) | _ => None end
                   else if str_eqb t T_Datetime then match v with JStr s => Some (XDate s) | _ => None end
                   else if str_eqb t T_List then
                     match v with
                     | JArr l =>
                         option_map XList
                           ((fix go (l : list json) : option (list jval) :=
                               match l with
                               | [] => Some []
                               | x :: r => match parse_val x, go r with
                                           | Some a, Some b => Some (a :: b)
                                           | _, _ => None
                                           end
                               end) l)
                     | _ => None
                     end
                   else None
                 else find m'
             end) m
      end
  | _ => None
  end.

(** * Cursors and offsets (src/types.rs, src/selector.rs) *)

Definition json_of_cursor (c : cursor) : json :=
  match c with
  | CB n => JObj [(K_type, JStr T_Begin); (K_value, JNum (nat_lit n))]
  | CE z => JObj [(K_type, JStr T_End); (K_value, JNum (z_lit z))]
  end.
Definition parse_cursor (j : json) : option cursor :=
  match j with
  | JObj m =>
      match mem_str K_type m, member K_value m with
      | Some t, Some (JNum l) =>
          if str_eqb t T_Begin then option_map CB (lit_nat l)
          else if str_eqb t T_End then option_map CE (lit_z l)
          else None
      | _, _ => None
      end
  | _ => None
  end.
Definition json_of_offset (o : offset) : json :=
  JObj [(K_type, JStr T_Offset); (K_begin, json_of_cursor (o_begin o)); (K_end, json_of_cursor (o_end o))].
Definition parse_offset (j : json) : option offset :=
  match j with
  | JObj m =>
      match member K_begin m, member K_end m with
      | Some b, Some e =>
          match parse_cursor b, parse_cursor e with
          | Some cb, Some ce => Some (mkoff cb ce)
          | _, _ => None
          end
      | _, _ => None
      end
  | _ => None
  end.

(** * Builders: what the documents say (names only) *)

Inductive bleaf :=
| BText (r : str) (o : offset)
| BAnn (a : str) (o : option offset)
| BRes (r : str)
| BSet (d : str)
| BKey (d k : str)
| BData (d x : str).

Record bann := mkbann { ba_id : option str; ba_data : list (str * str) (* data id, set id *);
                        ba_kind : nat; ba_leaves : list bleaf }.
Record bdata := mkbdata { bx_id : option str; bx_key : option str; bx_val : jval }.
Record bset := mkbset { bs_id : option str; bs_include : option str;
                        bs_keys : list str; bs_data : list bdata }.
Record bres := mkbres { br_id : option str; br_text : option str; br_include : option str }.
Record bstore := mkbstore { b_id : option str; b_include : list str (* sub-store files *);
                            b_ress : list bres; b_sets : list bset; b_anns : list bann }.

Inductive fcontent := FText (s : str) | FJson (j : json).
Definition files := list (str * fcontent).
Fixpoint file_get (fs : files) (name : str) : option fcontent :=
  match fs with
  | [] => None
  | (n, c) :: fs' => if str_eqb n name then Some c else file_get fs' name
  end.

(* ---- selectors ---- *)
Definition json_of_bleaf (l : bleaf) : json :=
  match l with
  | BText r o => JObj [(K_type, JStr T_TextSelector); (K_resource, JStr r); (K_offset, json_of_offset o)]
  | BAnn a None => JObj [(K_type, JStr T_AnnotationSelector); (K_annotation, JStr a)]
  | BAnn a (Some o) => JObj [(K_type, JStr T_AnnotationSelector); (K_annotation, JStr a); (K_offset, json_of_offset o)]
  | BRes r => JObj [(K_type, JStr T_ResourceSelector); (K_resource, JStr r)]
  | BSet d => JObj [(K_type, JStr T_DataSetSelector); (K_annotationset, JStr d)]
  | BKey d k => JObj [(K_type, JStr T_DataKeySelector); (K_annotationset, JStr d); (K_key, JStr k)]
  | BData d x => JObj [(K_type, JStr T_AnnotationDataSelector); (K_annotationset, JStr d); (K_data, JStr x)]
  end.
Definition kind_name (k : nat) : str :=
  match k with 1 => T_MultiSelector | 2 => T_CompositeSelector | _ => T_DirectionalSelector end.
(* kind 0: the single selector itself; otherwise the complex selector over the sub-selectors
   (internal ranged selectors are written as the selectors they stand for) *)
Definition json_of_target (kind : nat) (ls : list bleaf) : json :=
  match kind with
  | 0 => match ls with l :: _ => json_of_bleaf l | [] => JNull end
  | _ => JObj [(K_type, JStr (kind_name kind)); (K_selectors, JArr (map json_of_bleaf ls))]
  end.

Definition parse_bleaf (j : json) : option bleaf :=
  match j with
  | JObj m =>
      match mem_str K_type m with
      | None => None
      | Some t =>
          if str_eqb t T_TextSelector then
            match mem_str K_resource m, member K_offset m with
            | Some r, Some oj => option_map (BText r) (parse_offset oj)
            | _, _ => None
            end
          else if str_eqb t T_AnnotationSelector then
            match mem_str K_annotation m with
            | Some a =>
                match member K_offset m with
                | None => Some (BAnn a None)
                | Some oj => match parse_offset oj with Some o => Some (BAnn a (Some o)) | None => None end
                end
            | None => None
            end
          else if str_eqb t T_ResourceSelector then option_map BRes (mem_str K_resource m)
          else if str_eqb t T_DataSetSelector then option_map BSet (mem_str K_annotationset m)
          else if str_eqb t T_DataKeySelector then
            match mem_str K_annotationset m, mem_str K_key m with
            | Some d, Some k => Some (BKey d k) | _, _ => None end
          else if str_eqb t T_AnnotationDataSelector then
            match mem_str K_annotationset m, mem_str K_data m with
            | Some d, Some x => Some (BData d x) | _, _ => None end
          else None
      end
  | _ => None
  end.

Fixpoint parse_list {X} (f : json -> option X) (l : list json) : option (list X) :=
  match l with
  | [] => Some []
  | x :: r => match f x, parse_list f r with
              | Some a, Some b => Some (a :: b)
              | _, _ => None
              end
  end.
Definition parse_arr {X} (f : json -> option X) (j : json) : option (list X) :=
  match j with JArr l => parse_list f l | _ => None end.

Definition kind_of_name (t : str) : option nat :=
  if str_eqb t T_MultiSelector then Some 1
  else if str_eqb t T_CompositeSelector then Some 2
  else if str_eqb t T_DirectionalSelector then Some 3
  else None.
Definition parse_target (j : json) : option (nat * list bleaf) :=
  match j with
  | JObj m =>
      match mem_str K_type m with
      | None => None
      | Some t =>
          match kind_of_name t with
          | Some k =>
              match member K_selectors m with
              | Some sj => option_map (fun ls => (k, ls)) (parse_arr parse_bleaf sj)
              | None => None
              end
          | None => option_map (fun l => (0, [l])) (parse_bleaf j)
          end
      end
  | _ => None
  end.

(* ---- annotations ---- *)
Definition json_of_dataref (p : str * str) : json :=
  JObj [(K_type, JStr T_AnnotationData); (K_id, JStr (fst p)); (K_set, JStr (snd p))].
Definition parse_dataref (j : json) : option (str * str) :=
  match j with
  | JObj m => match mem_str K_id m, mem_str K_set m with
              | Some x, Some d => Some (x, d) | _, _ => None end
  | _ => None
  end.
Definition ojstr (k : str) (o : option str) : list (str * json) :=
  match o with Some s => [(k, JStr s)] | None => [] end.
Definition json_of_bann (a : bann) : json :=
  JObj ((K_type, JStr T_Annotation) :: ojstr K_id (ba_id a) ++
        [(K_target, json_of_target (ba_kind a) (ba_leaves a));
         (K_data, JArr (map json_of_dataref (ba_data a)))]).
Definition parse_bann (j : json) : option bann :=
  match j with
  | JObj m =>
      match member K_target m, member K_data m with
      | Some tj, Some dj =>
          match parse_target tj, parse_arr parse_dataref dj with
          | Some (k, ls), Some ds => Some (mkbann (mem_str K_id m) ds k ls)
          | _, _ => None
          end
      | _, _ => None
      end
  | _ => None
  end.

(* ---- keys, data, datasets ---- *)
Definition json_of_key (k : str) : json := JObj [(K_type, JStr T_DataKey); (K_id, JStr k)].
Definition parse_key (j : json) : option str :=
  match j with JObj m => mem_str K_id m | _ => None end.
Definition json_of_bdata (d : bdata) : json :=
  JObj ((K_type, JStr T_AnnotationData) :: ojstr K_id (bx_id d) ++ ojstr K_key (bx_key d) ++
        [(K_value, json_of_val (bx_val d))]).
Definition parse_bdata (j : json) : option bdata :=
  match j with
  | JObj m =>
      match member K_value m with
      | Some vj => option_map (mkbdata (mem_str K_id m) (mem_str K_key m)) (parse_val vj)
      | None => Some (mkbdata (mem_str K_id m) (mem_str K_key m) XNull)
      end
  | _ => None
  end.
(* a dataset document: with "@include" the keys and data are in the named file *)
Definition json_of_bset (s : bset) : json :=
  JObj ((K_type, JStr T_AnnotationDataSet) :: ojstr K_id (bs_id s) ++
        match bs_include s with
        | Some f => [(K_include, JStr f)]
        | None => [(K_keys, JArr (map json_of_key (bs_keys s)));
                   (K_data, JArr (map json_of_bdata (bs_data s)))]
        end).
Definition parse_bset (j : json) : option bset :=
  match j with
  | JObj m =>
      match mem_str K_type m with
      | Some t =>
          if negb (str_eqb t T_AnnotationDataSet) then None else
          match (match member K_keys m with Some kj => parse_arr parse_key kj | None => Some [] end),
                (match member K_data m with Some dj => parse_arr parse_bdata dj | None => Some [] end) with
          | Some ks, Some ds => Some (mkbset (mem_str K_id m) (mem_str K_include m) ks ds)
          | _, _ => None
          end
      | None => None
      end
  | _ => None
  end.

(* ---- resources ---- *)
Definition json_of_bres (r : bres) : json :=
  JObj ((K_type, JStr T_TextResource) :: ojstr K_id (br_id r) ++
        match br_include r with
        | Some f => [(K_include, JStr f)]
        | None => ojstr K_text (br_text r)
        end).
Definition parse_bres (j : json) : option bres :=
  match j with
  | JObj m => Some (mkbres (mem_str K_id m) (mem_str K_text m) (mem_str K_include m))
  | _ => None
  end.

(* ---- the store document ---- *)
(* "@include" of a store: one file name as a string, several as an array *)
Definition json_of_includes (l : list str) : list (str * json) :=
  match l with
  | [] => []
  | [f] => [(K_include, JStr f)]
  | _ => [(K_include, JArr (map JStr l))]
  end.
Definition parse_jstr (j : json) : option str := match j with JStr s => Some s | _ => None end.
Definition parse_includes (m : list (str * json)) : option (list str) :=
  match member K_include m with
  | None => Some []
  | Some (JStr f) => Some [f]
  | Some (JArr l) => parse_list parse_jstr l
  | Some _ => None
  end.
Definition json_of_bstore (s : bstore) : json :=
  JObj ((K_type, JStr T_AnnotationStore) :: ojstr K_id (b_id s) ++ json_of_includes (b_include s) ++
        [(K_resources, JArr (map json_of_bres (b_ress s)));
         (K_annotationsets, JArr (map json_of_bset (b_sets s)));
         (K_annotations, JArr (map json_of_bann (b_anns s)))]).
Definition parse_bstore (j : json) : option bstore :=
  match j with
  | JObj m =>
      match mem_str K_type m with
      | Some t =>
          if negb (str_eqb t T_AnnotationStore) then None else
          match parse_includes m,
                (match member K_resources m with Some x => parse_arr parse_bres x | None => Some [] end),
                (match member K_annotationsets m with Some x => parse_arr parse_bset x | None => Some [] end),
                (match member K_annotations m with Some x => parse_arr parse_bann x | None => Some [] end) with
          | Some inc, Some rs, Some ss, Some aa => Some (mkbstore (mem_str K_id m) inc rs ss aa)
          | _, _, _, _ => None
          end
      | None => None
      end
  | _ => None
  end.

(** * The store as the library holds it *)

Record dres := mkdres { jr_id : str; jr_text : str; jr_file : option str }.
Record ddata := mkddata { jx_id : option str; jx_key : nat; jx_val : jval }.
Record dset := mkdset { js_id : str; js_keys : list (option str); js_data : list (option ddata);
                        js_file : option str }.
Inductive dleaf :=
| DText (r b e : nat) (m : omode)
| DAnn (a : nat)
| DAnnText (a r b e : nat) (m : omode)     (* r, b, e: the resolved absolute selection *)
| DRes (r : nat)
| DSet (d : nat)
| DKey (d k : nat)
| DData (d x : nat).
Record dann := mkdann { ja_id : option str; ja_data : list (nat * nat); ja_kind : nat;
                        ja_leaves : list dleaf }.
Record dstore := mkdstore { st_id : option str; st_ress : list (option dres);
                            st_sets : list (option dset); st_anns : list (option dann) }.

Definition slot {X} (l : list (option X)) (h : nat) : option X := nth h l None.

(* Storable::temp_id *)
Definition name_of (k : kind) (pid : option str) (h : nat) : str :=
  match pid with Some i => i | None => temp_id k (N.of_nat h) end.

(* Selector::textselection of an annotation's target: only a plain TextSelector or an
   AnnotationSelector with offset carries one *)
Definition ann_range (s : dstore) (a : nat) : option (nat * nat * nat) :=
  match slot (st_anns s) a with
  | Some an =>
      match ja_kind an, ja_leaves an with
      | 0, [DText r b e _] | 0, [DAnnText _ r b e _] => Some (r, b, e)
      | _, _ => None
      end
  | None => None
  end.

(** * What the serialiser reads out: the canonical observation *)

Record cleaf := mkcl { cl_sel : bleaf; cl_abs : option (str * nat * nat) }.
Record cann := mkcann { ca_name : str; ca_data : list (str * str); ca_kind : nat; ca_leaves : list cleaf }.
Record cdata := mkcdata { cx_name : str; cx_key : str; cx_val : jval }.
Record cset := mkcset { cs_id : str; cs_keys : list str; cs_data : list cdata; cs_file : option str }.
Record cres := mkcres { cr_id : str; cr_text : str; cr_file : option str }.
Record cstore := mkcstore { c_id : option str; c_ress : list cres; c_sets : list cset; c_anns : list cann }.

Definition res_name (s : dstore) (r : nat) : option str := option_map jr_id (slot (st_ress s) r).
Definition set_name (s : dstore) (d : nat) : option str := option_map js_id (slot (st_sets s) d).
Definition key_name (s : dstore) (d k : nat) : option str :=
  match slot (st_sets s) d with Some ds => slot (js_keys ds) k | None => None end.
Definition data_name (s : dstore) (d x : nat) : option str :=
  match slot (st_sets s) d with
  | Some ds => match slot (js_data ds) x with
               | Some it => Some (name_of KData (jx_id it) x)
               | None => None
               end
  | None => None
  end.
Definition ann_name (s : dstore) (a : nat) : option str :=
  match slot (st_anns s) a with Some an => Some (name_of KAnn (ja_id an) a) | None => None end.

Definition canon_leaf (s : dstore) (lf : dleaf) : option cleaf :=
  match lf with
  | DText r b e m =>
      match slot (st_ress s) r with
      | Some rs => Some (mkcl (BText (jr_id rs) (report_resource (length (jr_text rs)) (b, e) m))
                              (Some (jr_id rs, b, e)))
      | None => None
      end
  | DAnn a => match ann_name s a with Some n => Some (mkcl (BAnn n None) None) | None => None end
  | DAnnText a r b e m =>
      match ann_name s a, res_name s r with
      | Some n, Some rn =>
          let off := match ann_range s a with
                     | Some (_, pb, pe) => relative_offset (b, e) (pb, pe) m
                     | None => None
                     end in
          Some (mkcl (BAnn n off) (Some (rn, b, e)))
      | _, _ => None
      end
  | DRes r => match res_name s r with Some n => Some (mkcl (BRes n) None) | None => None end
  | DSet d => match set_name s d with Some n => Some (mkcl (BSet n) None) | None => None end
  | DKey d k => match set_name s d, key_name s d k with
                | Some n, Some kn => Some (mkcl (BKey n kn) None) | _, _ => None end
  | DData d x => match set_name s d, data_name s d x with
                 | Some n, Some xn => Some (mkcl (BData n xn) None) | _, _ => None end
  end.

Fixpoint omap {X Y} (f : X -> option Y) (l : list X) : option (list Y) :=
  match l with
  | [] => Some []
  | x :: r => match f x, omap f r with
              | Some a, Some b => Some (a :: b)
              | _, _ => None
              end
  end.

(* the live items of a slot list with their handles, in order *)
Fixpoint live_from {X} (h : nat) (l : list (option X)) : list (nat * X) :=
  match l with
  | [] => []
  | Some x :: l' => (h, x) :: live_from (S h) l'
  | None :: l' => live_from (S h) l'
  end.
Definition live {X} (l : list (option X)) : list (nat * X) := live_from 0 l.

Definition canon_dataref (s : dstore) (p : nat * nat) : option (str * str) :=
  match data_name s (fst p) (snd p), set_name s (fst p) with
  | Some x, Some d => Some (x, d) | _, _ => None end.
Definition canon_ann (s : dstore) (p : nat * dann) : option cann :=
  let '(h, a) := p in
  match omap (canon_dataref s) (ja_data a), omap (canon_leaf s) (ja_leaves a) with
  | Some ds, Some ls => Some (mkcann (name_of KAnn (ja_id a) h) ds (ja_kind a) ls)
  | _, _ => None
  end.
Definition canon_data (ds : dset) (p : nat * ddata) : option cdata :=
  let '(x, it) := p in
  match slot (js_keys ds) (jx_key it) with
  | Some kn => Some (mkcdata (name_of KData (jx_id it) x) kn (jx_val it))
  | None => None
  end.
Definition canon_set (ds : dset) : option cset :=
  match omap (canon_data ds) (live (js_data ds)) with
  | Some xs => Some (mkcset (js_id ds) (map snd (live (js_keys ds))) xs (js_file ds))
  | None => None
  end.
Definition canon_res (r : dres) : cres := mkcres (jr_id r) (jr_text r) (jr_file r).
Definition canon (s : dstore) : option cstore :=
  match omap (fun p => canon_set (snd p)) (live (st_sets s)), omap (canon_ann s) (live (st_anns s)) with
  | Some ss, Some aa => Some (mkcstore (st_id s) (map (fun p => canon_res (snd p)) (live (st_ress s))) ss aa)
  | _, _ => None
  end.

(** * From the observation to the documents (the Serialize implementations) *)

Definition bann_of (a : cann) : bann :=
  mkbann (Some (ca_name a)) (ca_data a) (ca_kind a) (map cl_sel (ca_leaves a)).
Definition bdata_of (d : cdata) : bdata := mkbdata (Some (cx_name d)) (Some (cx_key d)) (cx_val d).
Definition ends_with (s suffix : str) : bool :=
  str_eqb (skipn (length s - length suffix) s) suffix.
(* "@id" is left out when it equals the file name *)
Definition id_unless_file (id f : str) : option str := if str_eqb id f then None else Some id.
Definition bres_of (r : cres) : bres :=
  match cr_file r with
  | Some f => mkbres (id_unless_file (cr_id r) f) None (Some f)
  | None => mkbres (Some (cr_id r)) (Some (cr_text r)) None
  end.
Definition bset_inline (s : cset) : bset :=
  mkbset (Some (cs_id s)) None (cs_keys s) (map bdata_of (cs_data s)).
Definition bset_of (s : cset) : bset :=
  match cs_file s with
  | Some f => mkbset (id_unless_file (cs_id s) f) (Some f) [] []
  | None => bset_inline s
  end.
Definition main_doc (c : cstore) : bstore :=
  mkbstore (c_id c) [] (map bres_of (c_ress c)) (map bset_of (c_sets c)) (map bann_of (c_anns c)).
(* the stand-off files: a resource goes to a STAM JSON file when the name ends in .json,
   to a plain text file otherwise; a dataset always to STAM JSON *)
Definition res_file (r : cres) : files :=
  match cr_file r with
  | Some f =>
      [(f, if ends_with f EXT_json
           then FJson (json_of_bres (mkbres (Some (cr_id r)) (Some (cr_text r)) None))
           else FText (cr_text r))]
  | None => []
  end.
Definition set_file (s : cset) : files :=
  match cs_file s with
  | Some f => [(f, FJson (json_of_bset (bset_inline s)))]
  | None => []
  end.
Definition side_files (c : cstore) : files :=
  flat_map res_file (c_ress c) ++ flat_map set_file (c_sets c).

Definition encode_c (c : cstore) : json * files := (json_of_bstore (main_doc c), side_files c).
Definition encode (s : dstore) : option (json * files) := option_map encode_c (canon s).

(** * The loader *)

(* resolve_temp_id as the visitors use it: any capital letter.  The model knows the five
   letters the library itself writes. *)
Definition any_temp (s : str) : option N :=
  match s with
  | c0 :: l :: rest =>
      if N.eqb c0 33 && (N.leb 65 l && N.leb l 90) then parse_usize rest else None
  | _ => None
  end.

Fixpoint find_id {X} (pid : X -> option str) (l : list (option X)) (id : str) (h : nat) : option nat :=
  match l with
  | [] => None
  | Some x :: l' =>
      (match pid x with
       | Some i => if str_eqb i id then Some h else find_id pid l' id (S h)
       | None => find_id pid l' id (S h)
       end)
  | None :: l' => find_id pid l' id (S h)
  end.

(* StoreFor::resolve_id + get: a temporary id of the right kind first, then the id map *)
Definition lookup {X} (k : kind) (pid : X -> option str) (l : list (option X)) (id : str) : option nat :=
  match temp_resolve k id with
  | Some n => match slot l (N.to_nat n) with Some _ => Some (N.to_nat n) | None => None end
  | None => find_id pid l id 0
  end.

(* the gap filling of AnnotationsVisitor / DataVisitor: where the next item goes.
   [pre] is the length before this array was read (0 unless documents are merged). *)
Definition gap_fill {X} (pre : nat) (l : list (option X)) (id : option str) : option (list (option X) * option str) :=
  match id with
  | None => Some (l, None)
  | Some s =>
      match any_temp s with
      | Some n =>
          let h := N.to_nat n in
          if h + pre <? length l then None
          else if length l <? h then Some (l ++ repeat None (h - length l), None)
          else Some (l, None)
      | None => Some (l, Some s)
      end
  end.

(* StoreFor::insert for an item with an id: the id must be new *)
Definition id_free {X} (pid : X -> option str) (l : list (option X)) (id : option str) : bool :=
  match id with Some i => match find_id pid l i 0 with Some _ => false | None => true end | None => true end.

(* ---- resources: TextResourceBuilder::build ---- *)
Definition build_res (fs : files) (b : bres) : option dres :=
  match br_text b with
  | Some t =>
      match br_id b, br_include b with
      | Some i, f => Some (mkdres i t f)
      | None, Some f => Some (mkdres f t (Some f))
      | None, None => None
      end
  | None =>
      match br_include b with
      | None => None
      | Some f =>
          match file_get fs f with
          | Some (FJson j) =>
              if ends_with f EXT_json then
                match parse_bres j with
                | Some b' =>
                    match br_text b' with
                    | None => None
                    | Some t =>
                        let id := match br_id b' with Some i => Some i | None => br_id b end in
                        Some (mkdres (match id with Some i => i | None => f end) t (Some f))
                    end
                | None => None
                end
              else None
          | Some (FText t) =>
              if ends_with f EXT_json then None
              else Some (mkdres (match br_id b with Some i => i | None => f end) t (Some f))
          | None => None
          end
      end
  end.

(* ---- datasets ---- *)
Definition key_pid (k : str) : option str := Some k.
Fixpoint insert_keys (ks : list (option str)) (l : list str) : option (list (option str)) :=
  match l with
  | [] => Some ks
  | k :: l' => if id_free key_pid ks (Some k) then insert_keys (ks ++ [Some k]) l' else None
  end.

(* AnnotationDataSet::insert_data with safety = false: an existing id is returned as it is,
   a missing key is created *)
Definition insert_data (keys : list (option str)) (data : list (option ddata)) (id key : option str) (v : jval)
  : option (list (option str) * list (option ddata) * nat) :=
  match (match id with Some i => lookup KData jx_id data i | None => None end) with
  | Some x => Some (keys, data, x)
  | None =>
      match key with
      | None => None
      | Some k =>
          let '(keys1, kh) := match lookup KKey key_pid keys k with
                              | Some kh => (keys, kh)
                              | None => (keys ++ [Some k], length keys)
                              end in
          if id_free jx_id data id
          then Some (keys1, data ++ [Some (mkddata id kh v)], length data)
          else None
      end
  end.

Fixpoint load_data (pre : nat) (keys : list (option str)) (data : list (option ddata)) (l : list bdata)
  : option (list (option str) * list (option ddata)) :=
  match l with
  | [] => Some (keys, data)
  | b :: l' =>
      match gap_fill pre data (bx_id b) with
      | None => None
      | Some (data1, id1) =>
          match insert_data keys data1 id1 (bx_key b) (bx_val b) with
          | Some (keys2, data2, _) => load_data pre keys2 data2 l'
          | None => None
          end
      end
  end.

(* the set visitor: "@id" (the first one counts), "@include" (merge the file, remember the
   name), keys, data *)
Definition build_set (fs : files) (b : bset) : option dset :=
  let from_file :=
    match bs_include b with
    | None => Some (bs_id b, [], [], None)
    | Some f =>
        match file_get fs f with
        | Some (FJson j) =>
            match parse_bset j with
            | Some b' =>
                match insert_keys [] (bs_keys b') with
                | Some ks =>
                    match load_data 0 ks [] (bs_data b') with
                    | Some (ks', xs') =>
                        Some (match bs_id b with Some i => Some i | None => bs_id b' end, ks', xs', Some f)
                    | None => None
                    end
                | None => None
                end
            | None => None
            end
        | _ => None
        end
    end in
  match from_file with
  | Some (Some id, ks, xs, f) =>
      match insert_keys ks (bs_keys b) with
      | Some ks1 =>
          match load_data (length xs) ks1 xs (bs_data b) with
          | Some (ks2, xs2) => Some (mkdset id ks2 xs2 f)
          | None => None
          end
      | None => None
      end
  | _ => None
  end.

(* ---- annotations: AnnotationStore::selector / annotate ---- *)
Definition res_pid (r : dres) : option str := Some (jr_id r).
Definition set_pid (d : dset) : option str := Some (js_id d).

Definition resolve_leaf (s : dstore) (l : bleaf) : option dleaf :=
  match l with
  | BText r o =>
      match lookup KRes res_pid (st_ress s) r with
      | Some rh =>
          match slot (st_ress s) rh with
          | Some rs =>
              match resource_ts (length (jr_text rs)) o with
              | Ok (b, e) => Some (DText rh b e (mode_of o))
              | Err => None
              end
          | None => None
          end
      | None => None
      end
  | BAnn a None => option_map DAnn (lookup KAnn ja_id (st_anns s) a)
  | BAnn a (Some o) =>
      match lookup KAnn ja_id (st_anns s) a with
      | Some ah =>
          match ann_range s ah with
          | Some (r, pb, pe) =>
              match selection_ts (pb, pe) o with
              | Ok (b, e) => Some (DAnnText ah r b e (mode_of o))
              | Err => None
              end
          | None => Some (DAnn ah)
          end
      | None => None
      end
  | BRes r => option_map DRes (lookup KRes res_pid (st_ress s) r)
  | BSet d => option_map DSet (lookup KSet set_pid (st_sets s) d)
  | BKey d k =>
      match lookup KSet set_pid (st_sets s) d with
      | Some dh =>
          match slot (st_sets s) dh with
          | Some ds => option_map (DKey dh) (lookup KKey key_pid (js_keys ds) k)
          | None => None
          end
      | None => None
      end
  | BData d x =>
      match lookup KSet set_pid (st_sets s) d with
      | Some dh =>
          match slot (st_sets s) dh with
          | Some ds => option_map (DData dh) (lookup KData jx_id (js_data ds) x)
          | None => None
          end
      | None => None
      end
  end.

(* a reference to existing data: AnnotationStore::insert_data with id and set only *)
Definition resolve_dataref (s : dstore) (p : str * str) : option (nat * nat) :=
  match lookup KSet set_pid (st_sets s) (snd p) with
  | Some dh =>
      match slot (st_sets s) dh with
      | Some ds => option_map (fun x => (dh, x)) (lookup KData jx_id (js_data ds) (fst p))
      | None => None
      end
  | None => None
  end.

Definition set_anns (s : dstore) (v : list (option dann)) : dstore :=
  mkdstore (st_id s) (st_ress s) (st_sets s) v.

Definition load_ann (pre : nat) (s : dstore) (b : bann) : option dstore :=
  match gap_fill pre (st_anns s) (ba_id b) with
  | None => None
  | Some (anns1, id1) =>
      let s1 := set_anns s anns1 in
      match omap (resolve_leaf s1) (ba_leaves b), omap (resolve_dataref s1) (ba_data b) with
      | Some ls, Some ds =>
          if id_free ja_id anns1 id1
          then Some (set_anns s1 (anns1 ++ [Some (mkdann id1 ds (ba_kind b) ls)]))
          else None
      | _, _ => None
      end
  end.

Fixpoint load_anns (pre : nat) (s : dstore) (l : list bann) : option dstore :=
  match l with
  | [] => Some s
  | b :: l' => match load_ann pre s b with Some s1 => load_anns pre s1 l' | None => None end
  end.

Fixpoint load_ress (fs : files) (acc : list (option dres)) (l : list bres) : option (list (option dres)) :=
  match l with
  | [] => Some acc
  | b :: l' =>
      match build_res fs b with
      | Some r => if id_free res_pid acc (Some (jr_id r)) then load_ress fs (acc ++ [Some r]) l' else None
      | None => None
      end
  end.
Fixpoint load_sets (fs : files) (acc : list (option dset)) (l : list bset) : option (list (option dset)) :=
  match l with
  | [] => Some acc
  | b :: l' =>
      match build_set fs b with
      | Some d => if id_free set_pid acc (Some (js_id d)) then load_sets fs (acc ++ [Some d]) l' else None
      | None => None
      end
  end.

Definition build (fs : files) (b : bstore) : option dstore :=
  match load_ress fs [] (b_ress b), load_sets fs [] (b_sets b) with
  | Some rs, Some ss => load_anns 0 (mkdstore (b_id b) rs ss []) (b_anns b)
  | _, _ => None
  end.

Definition decode (d : json * files) : option dstore :=
  match parse_bstore (fst d) with
  | Some b => build (snd d) b
  | None => None
  end.

(** * Saving repeatedly: the changed flags of stand-off members
   (ChangeMarker in src/file.rs; mark_changed in the insert / remove callbacks of
   src/annotationdataset.rs and in TextResource::set_filename; the flag is read and cleared in
   Serialize for AnnotationDataSet / TextResource).
   A stand-off file is written on save only when its owner is flagged as changed.  The flag
   logic is modelled by its contract: an operation flags every stand-off member whose file
   content it changes (the library flags on every insertion or removal of a key or data item,
   which is at least that); saving writes the flagged files and clears the flags. *)
Record fstate := mkfs { fs_dirty : list str; fs_disk : files }.

Definition file_put (fs : files) (n : str) (c : fcontent) : files :=
  (n, c) :: filter (fun p => negb (str_eqb (fst p) n)) fs.

Fixpoint json_eqb (a b : json) {struct a} : bool :=
  match a, b with
  | JNull, JNull => true
  | JBool x, JBool y => Bool.eqb x y
  | JNum x, JNum y => str_eqb x y
  | JStr x, JStr y => str_eqb x y
  | JArr x, JArr y =>
      (fix go (x y : list json) {struct x} : bool :=
         match x, y with
         | [], [] => true
         | u :: x', v :: y' => json_eqb u v && go x' y'
         | _, _ => false
         end) x y
  | JObj x, JObj y =>
      (fix go (x y : list (str * json)) {struct x} : bool :=
         match x, y with
         | [], [] => true
         | u :: x', v :: y' => str_eqb (fst u) (fst v) && json_eqb (snd u) (snd v) && go x' y'
         | _, _ => false
         end) x y
  | _, _ => false
  end.
Definition fcontent_eqb (a b : fcontent) : bool :=
  match a, b with
  | FText x, FText y => str_eqb x y
  | FJson x, FJson y => json_eqb x y
  | _, _ => false
  end.

Fixpoint str_mem (x : str) (l : list str) : bool :=
  match l with [] => false | y :: l' => str_eqb y x || str_mem x l' end.

(* an operation took the stand-off files from [before] to [after] (what they should hold) *)
Definition mark (before after : files) (st : fstate) : fstate :=
  mkfs (fs_dirty st ++
        map fst (filter (fun p => match file_get before (fst p) with
                                  | Some c => negb (fcontent_eqb c (snd p))
                                  | None => true
                                  end) after))
       (fs_disk st).

(* save: the flagged members write their files *)
Definition flush (current : files) (st : fstate) : fstate :=
  mkfs [] (fold_left (fun d p => if str_mem (fst p) (fs_dirty st) then file_put d (fst p) (snd p) else d)
                     current (fs_disk st)).

(* what the disk must hold after a save: every stand-off file of the current store is current *)
Definition rewrite_all (current : files) (disk : files) : files :=
  fold_left (fun d p => file_put d (fst p) (snd p)) current disk.

(* a history of modifications and saves over any kind of state: [cur] gives the files the state
   should have on disk; the names in [always] are written on every save (the documents of
   sub-stores carry no changed flag) *)
Inductive sop (X : Type) := SMod (x : X) | SSave.
Arguments SMod {X} x.
Arguments SSave {X}.
Definition flag_all (names : list str) (st : fstate) : fstate := mkfs (fs_dirty st ++ names) (fs_disk st).
Fixpoint save_run {S X} (step : S -> X -> S) (cur : S -> files) (always : S -> list str)
         (ops : list (sop X)) (s : S) (st : fstate) : S * fstate :=
  match ops with
  | [] => (s, st)
  | SSave :: ops' => save_run step cur always ops' s (flush (cur s) (flag_all (always s) st))
  | SMod x :: ops' => let s' := step s x in save_run step cur always ops' s' (mark (cur s) (cur s') st)
  end.

(** * Sub-stores, one level (src/substore.rs; Serialize for AnnotationStore and for
   ResultItem<AnnotationSubStore>; the "@include" arm of AnnotationStoreVisitor)
   Every item belongs to the root document or to one sub-store; a sub-store is written as a
   store document of its own, which the root document includes by file name.  On loading, the
   included documents are merged into the store first, in order, then the root's own items. *)
Record owners := mkown { ow_subs : list (option str * str);   (* identifier and file name *)
                         ow_res : list (option nat); ow_set : list (option nat); ow_ann : list (option nat) }.
Definition no_owners : owners := mkown [] [] [] [].
Definition owner_of (l : list (option nat)) (h : nat) : option nat := nth h l None.
Definition onat_eqb (a b : option nat) : bool :=
  match a, b with None, None => true | Some x, Some y => Nat.eqb x y | _, _ => false end.
Definition pick {X} (own : list (option nat)) (o : option nat) (l : list (nat * X)) : list (nat * X) :=
  filter (fun p => onat_eqb (owner_of own (fst p)) o) l.

(* the part of the store one document holds *)
Definition canon_part (s : dstore) (ow : owners) (o : option nat) (id : option str) : option cstore :=
  match omap (fun p => canon_set (snd p)) (pick (ow_set ow) o (live (st_sets s))),
        omap (canon_ann s) (pick (ow_ann ow) o (live (st_anns s))) with
  | Some ss, Some aa =>
      Some (mkcstore id (map (fun p => canon_res (snd p)) (pick (ow_res ow) o (live (st_ress s)))) ss aa)
  | _, _ => None
  end.

Definition with_include (inc : list str) (b : bstore) : bstore :=
  mkbstore (b_id b) inc (b_ress b) (b_sets b) (b_anns b).

Definition sub_docs (s : dstore) (ow : owners) : option files :=
  omap (fun p => match canon_part s ow (Some (fst p)) (fst (snd p)) with
                 | Some c => Some (snd (snd p), FJson (json_of_bstore (main_doc c)))
                 | None => None
                 end)
       (combine (seq 0 (length (ow_subs ow))) (ow_subs ow)).

Definition encode_o (s : dstore) (ow : owners) : option (json * files) :=
  match canon s, canon_part s ow None (st_id s), sub_docs s ow with
  | Some call, Some croot, Some subs =>
      Some (json_of_bstore (with_include (map snd (ow_subs ow)) (main_doc croot)), subs ++ side_files call)
  | _, _, _ => None
  end.

(* merging one document into the store: resources, datasets, annotations, in this order *)
Definition build_into (fs : files) (b : bstore) (s : dstore) : option dstore :=
  match load_ress fs (st_ress s) (b_ress b), load_sets fs (st_sets s) (b_sets b) with
  | Some rs, Some ss => load_anns (length (st_anns s)) (mkdstore (st_id s) rs ss (st_anns s)) (b_anns b)
  | _, _ => None
  end.

Definition grow (own : list (option nat)) (len : nat) (o : option nat) : list (option nat) :=
  own ++ repeat o (len - length own).
Definition own_new (ow : owners) (s : dstore) (o : option nat) : owners :=
  mkown (ow_subs ow) (grow (ow_res ow) (length (st_ress s)) o) (grow (ow_set ow) (length (st_sets s)) o)
        (grow (ow_ann ow) (length (st_anns s)) o).

Fixpoint load_subs (fs : files) (k : nat) (inc : list str) (s : dstore) (ow : owners) : option (dstore * owners) :=
  match inc with
  | [] => Some (s, ow)
  | f :: inc' =>
      match file_get fs f with
      | Some (FJson j) =>
          match parse_bstore j with
          | Some b =>
              match b_include b with
              | _ :: _ => None                      (* deeper nesting is outside the model *)
              | [] =>
                  match build_into fs b s with
                  | Some s1 =>
                      let ow1 := own_new ow s1 (Some k) in
                      load_subs fs (S k) inc' s1
                                (mkown (ow_subs ow1 ++ [(b_id b, f)]) (ow_res ow1) (ow_set ow1) (ow_ann ow1))
                  | None => None
                  end
              end
          | None => None
          end
      | _ => None
      end
  end.

Definition decode_o (d : json * files) : option (dstore * owners) :=
  match parse_bstore (fst d) with
  | Some b =>
      match load_subs (snd d) 0 (b_include b) (mkdstore None [] [] []) no_owners with
      | Some (s1, ow1) =>
          match build_into (snd d) b (mkdstore (b_id b) (st_ress s1) (st_sets s1) (st_anns s1)) with
          | Some s2 => Some (s2, own_new ow1 s2 None)
          | None => None
          end
      | None => None
      end
  | None => None
  end.

(* the items of a sub-store come before the root's own, sub-stores in their order: the only
   arrangement in which loading keeps the order (and with it the temporary identifiers) *)
Definition rank (nsubs : nat) (o : option nat) : nat := match o with Some k => k | None => nsubs end.
Fixpoint nondecreasing (l : list nat) : bool :=
  match l with
  | x :: ((y :: _) as l') => (x <=? y) && nondecreasing l'
  | _ => true
  end.
Definition natural_order {X} (nsubs : nat) (own : list (option nat)) (l : list (option X)) : bool :=
  nondecreasing (map (fun p => rank nsubs (owner_of own (fst p))) (live l)).
Definition natural (s : dstore) (ow : owners) : bool :=
  let n := length (ow_subs ow) in
  natural_order n (ow_res ow) (st_ress s) && natural_order n (ow_set ow) (st_sets s)
  && natural_order n (ow_ann ow) (st_anns s).

(* a document only refers to items of itself or of documents loaded before it *)
Definition leaf_closed (ow : owners) (n r : nat) (lf : dleaf) : bool :=
  let rr x := rank n (owner_of (ow_res ow) x) <=? r in
  let rs x := rank n (owner_of (ow_set ow) x) <=? r in
  let ra x := rank n (owner_of (ow_ann ow) x) <=? r in
  match lf with
  | DText x _ _ _ => rr x
  | DAnn a => ra a
  | DAnnText a x _ _ _ => ra a && rr x
  | DRes x => rr x
  | DSet d | DKey d _ | DData d _ => rs d
  end.
Definition closed (s : dstore) (ow : owners) : bool :=
  let n := length (ow_subs ow) in
  forallb (fun p => let r := rank n (owner_of (ow_ann ow) (fst p)) in
                    forallb (leaf_closed ow n r) (ja_leaves (snd p))
                    && forallb (fun dx => rank n (owner_of (ow_set ow) (fst dx)) <=? r) (ja_data (snd p)))
          (live (st_anns s)).
Definition arranged (s : dstore) (ow : owners) : bool := natural s ow && closed s ow.
