(* Small tactic library: boolean/arith goals through lia with ZifyBool. *)
From Coq Require Export List Arith Bool Lia ZifyBool Sorted.
Export ListNotations.

(* split every if-then-else on a boolean, remembering the equation *)
Ltac case_ifs :=
  repeat match goal with
         | |- context [if ?c then _ else _] =>
             let E := fresh "E" in destruct c eqn:E
         | H : context [if ?c then _ else _] |- _ =>
             let E := fresh "E" in destruct c eqn:E
         end.

Ltac blia := try reflexivity; try (case_ifs; lia).
