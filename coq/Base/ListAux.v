(* List lemmas missing from the 8.16 standard library. *)
From Coq Require Import List Arith Lia.
Import ListNotations.

Lemma nth_skipn {X} (l : list X) : forall n i d, nth i (skipn n l) d = nth (n + i) l d.
Proof.
  induction l as [|x l IH]; intros n i d.
  - rewrite skipn_nil. destruct i, n; reflexivity.
  - destruct n; cbn [skipn plus]; [reflexivity|]. apply IH.
Qed.

Lemma nth_firstn {X} (l : list X) : forall n i d, i < n -> nth i (firstn n l) d = nth i l d.
Proof.
  induction l as [|x l IH]; intros n i d Hi.
  - rewrite firstn_nil. reflexivity.
  - destruct n; [lia|]. destruct i; cbn [firstn nth]; [reflexivity|]. apply IH. lia.
Qed.

Lemma forallb_nth {X} (f : X -> bool) (l : list X) d :
  forallb f l = true <-> forall i, i < length l -> f (nth i l d) = true.
Proof.
  rewrite forallb_forall. split.
  - intros H i Hi. apply H. apply nth_In. exact Hi.
  - intros H x Hx. apply In_nth with (d := d) in Hx. destruct Hx as (i & Hi & <-). apply H. exact Hi.
Qed.

Lemma skipn_skipn {X} (l : list X) : forall x y, skipn x (skipn y l) = skipn (x + y) l.
Proof.
  induction l as [|a l IH]; intros x y.
  - rewrite !skipn_nil. reflexivity.
  - destruct y.
    + rewrite Nat.add_0_r. reflexivity.
    + rewrite Nat.add_succ_r. cbn [skipn]. apply IH.
Qed.

Lemma NoDup_app' {X} (a b : list X) : NoDup a -> NoDup b -> (forall x, In x a -> ~ In x b) -> NoDup (a ++ b).
Proof.
  induction a as [|x a IH]; intros Ha Hb H; [exact Hb|].
  inversion Ha as [|? ? Hx Ha']; subst. cbn [app]. constructor.
  - rewrite in_app_iff. intros [Hin|Hin]; [exact (Hx Hin)|]. apply (H x); [left; reflexivity|exact Hin].
  - apply IH; [exact Ha'|exact Hb|]. intros y Hy. apply H. right; exact Hy.
Qed.

