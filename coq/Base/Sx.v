(* Generic data exchanged between the Rust harness, the OCaml driver and the
   executable models: integer atoms and lists.  Every property's [run_Cxx]
   has type [sx -> sx]; decoding happens here, in Gallina, so that the
   extracted driver is completely generic. *)
From Coq Require Import List ZArith NArith Bool.
Import ListNotations.
Local Open Scope Z_scope.

Inductive sx : Type :=
| A (z : Z)
| L (l : list sx).

Definition sx_Z (x : sx) : Z := match x with A z => z | L _ => 0 end.
Definition sx_nat (x : sx) : nat := Z.to_nat (sx_Z x).
Definition sx_N (x : sx) : N := Z.to_N (sx_Z x).
Definition sx_bool (x : sx) : bool := negb (Z.eqb (sx_Z x) 0).
Definition sx_list (x : sx) : list sx := match x with A _ => [] | L l => l end.
(* optional natural: negative atom = None *)
Definition sx_onat (x : sx) : option nat :=
  let z := sx_Z x in if Z.ltb z 0 then None else Some (Z.to_nat z).
Definition sx_nth (n : nat) (x : sx) : sx := nth n (sx_list x) (A 0).

Definition of_nat (n : nat) : sx := A (Z.of_nat n).
Definition of_N (n : N) : sx := A (Z.of_N n).
Definition of_bool (b : bool) : sx := A (if b then 1 else 0).
Definition of_onat (o : option nat) : sx :=
  match o with Some n => of_nat n | None => A (-1) end.
Definition of_nats (l : list nat) : sx := L (map of_nat l).
Definition of_Ns (l : list N) : sx := L (map of_N l).

(* result triple returned per sub-case: what the model (transcription of the
   code) computes, what the property demands, and the known-finding class
   (0 = none) the input falls in *)
Definition triple (model spec : sx) (known : nat) : sx :=
  L [model; spec; of_nat known].

Fixpoint sx_eqb (x y : sx) {struct x} : bool :=
  match x, y with
  | A a, A b => Z.eqb a b
  | L l, L m =>
      (fix go (l m : list sx) {struct l} : bool :=
         match l, m with
         | [], [] => true
         | a :: l', b :: m' => sx_eqb a b && go l' m'
         | _, _ => false
         end) l m
  | _, _ => false
  end.
