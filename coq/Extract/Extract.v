(* Extraction of the executable models.  ExtrOcamlBasic only: bool, option,
   unit, prod, list, sumbool, sumor map to OCaml built-ins; nat, N, Z,
   positive stay the extracted inductive types. *)
From Coq Require Import Extraction ExtrOcamlBasic.
From Stam Require Import Base.Sx Run.C13 Run.C08 Run.C04 Run.C12 Run.C06.
Extraction "model.ml" sx_eqb run_C13 run_C08 run_C04 run_C12 run_C06.
