(* C10: the data vocabulary and data search.
   In every reachable store (built with data builders that carry no id or an id by name) every
   dataset satisfies DsInv: key_data_map is exact, every data item's key exists, the key and data
   id maps are exact (each key exists once, each data id once), and data without an id is never a
   second copy of an existing (key, value).  Under DsInv the lookups through the key index equal
   a full scan with the same comparison semantics. *)
From Coq Require Import NArith ZArith.
From Stam Require Import Base.Tac Model.Offset Model.Store Model.StoreObs Model.TempId Model.DataValue
     Spec.StoreSpec Spec.DataSpec Proofs.StoreSets Proofs.DataSearch.

Theorem C10_vocabulary_invariants : forall ops, Forall op_ok ops -> SetsInv (run ops).
Proof. exact reachable_SetsInv. Qed.

Theorem C10_keys_once : forall ds, DsInv ds -> keys_unique ds = true.
Proof. exact keys_unique_ok. Qed.

Theorem C10_idless_data_shared : forall ds, DsInv ds -> vocab_ok ds = true.
Proof. intros ds H. exact (D_vocab ds H). Qed.

Theorem C10_insert_keeps_vocabulary : forall ds id key v,
  DsInv ds -> id_ok id -> DsInv (fst (dset_insert_data ds id key v)).
Proof. exact dset_insert_data_DsInv. Qed.

Theorem C10_key_data_is_scan : forall ds k, DsInv ds -> m_key_data ds k = s_key_data ds k.
Proof. exact key_data_scan. Qed.

Theorem C10_find_data_is_scan : forall ds key o, DsInv ds -> m_find_data ds key o = s_find_data ds key o.
Proof. exact find_data_scan. Qed.

Theorem C10_data_by_value_is_scan : forall ds kr v, DsInv ds -> m_data_by_value ds kr v = s_data_by_value ds kr v.
Proof. exact data_by_value_scan. Qed.

Theorem C10_not_is_complement : forall v o, value_test v (OpNot o) = negb (value_test v o).
Proof. exact value_test_not. Qed.
Theorem C10_and_is_conjunction : forall v l, value_test v (OpAnd l) = forallb (value_test v) l.
Proof. exact value_test_and. Qed.
Theorem C10_or_is_disjunction : forall v l, value_test v (OpOr l) = existsb (value_test v) l.
Proof. exact value_test_or. Qed.
Theorem C10_has_element : forall l s, value_test (VList l) (OpHas s) = existsb (fun e => value_test e (OpEquals s)) l.
Proof. exact value_test_has. Qed.

Example C10_nonvacuous :
  let ops := [AddSet 0;
              InsData (mkdb (ById 0) None (Some (ById 0)) (VInt 1%Z));
              InsData (mkdb (ById 0) None (Some (ById 0)) (VInt 1%Z));
              InsData (mkdb (ById 0) (Some (ById 5)) (Some (ById 0)) (VInt 1%Z));
              InsData (mkdb (ById 0) None (Some (ById 1)) (VStr [49%N]));
              RmKey (ById 0) (ById 0) true] in
  Forall op_ok ops
  /\ (match get_set (run (firstn 5 ops)) 0 with
      | Some ds => length (d_data ds) = 3 /\ m_find_data ds (Some (ById 0)) (OpEqInt 1%Z) = [0; 1]
                   /\ m_find_data ds None (OpEquals [49%N]) = [0; 1; 2]
      | None => False end)
  /\ (match get_set (run ops) 0 with Some ds => m_key_data ds 1 = [2] /\ m_key_data ds 0 = [] | None => False end).
Proof.
  cbv zeta. split; [repeat constructor|]. split; vm_compute; repeat split; reflexivity.
Qed.
