(* C04  Offsets resolve to exactly the addressed codepoints, or are rejected. *)
From Coq Require Import ZArith.
From Stam Require Import Base.Tac Model.Offset Model.Utf8 Spec.OffsetSpec Proofs.Offset Proofs.Utf8.
From Stam Require Model.Store Proofs.StoreSel Proofs.StoreRange.

(* accepted exactly when the offset denotes 0 <= begin <= end <= len *)
Theorem C04_resource_accept_iff : forall len o,
  resource_ts len o = match spec_accept len o with Some t => Ok t | None => Err end.
Proof. exact resource_accept_iff. Qed.

Theorem C04_relative_accept_iff : forall p o, fst p <= snd p ->
  selection_ts p o = match spec_accept_rel p o with Some t => Ok t | None => Err end.
Proof. exact selection_accept_iff. Qed.

Theorem C04_findtext_accept_iff : forall len p o, fst p <= snd p -> snd p <= len ->
  findtext_sel_ts len p o = match spec_accept_rel p o with Some t => Ok t | None => Err end.
Proof. exact findtext_sel_accept_iff. Qed.

(* every nesting depth: each accepted level lies inside the text *)
Theorem C04_chain_inside : forall os p len, fst p <= snd p -> snd p <= len ->
  Forall (fun r => match r with Ok t => fst t <= snd t /\ snd t <= len | Err => True end)
         (resolve_chain p os).
Proof. exact chain_inside. Qed.

(* the text of an accepted range, obtained by byte slicing through any
   consistent index, is precisely its codepoints *)
Theorem C04_text_exact : forall idx t b e x y, Consistent idx t -> b <= e -> e <= length t ->
  utf8byte idx t b = OOk x -> utf8byte idx t e = OOk y -> byte_slice t x y = Some (sub t b e).
Proof.
  intros idx t b e x y HC H1 H2 Hx Hy.
  rewrite utf8byte_exact in Hx, Hy by (try assumption; lia).
  inversion Hx; inversion Hy; subst. apply byte_slice_sub; assumption.
Qed.

(* reports: well-formed cursors, the requested alignment, and the same range again *)
Theorem C04_report_resource : forall len b e m, b <= e -> e <= len ->
  report_resource len (b, e) m = spec_report len b e m
  /\ cursor_wf (o_begin (spec_report len b e m)) = true
  /\ cursor_wf (o_end (spec_report len b e m)) = true
  /\ mode_of (spec_report len b e m) = m
  /\ resource_ts len (spec_report len b e m) = Ok (b, e).
Proof. exact report_resource_spec. Qed.

Theorem C04_report_relative : forall pb pe b e m, pb <= b -> b <= e -> e <= pe ->
  let off := spec_report (pe - pb) (b - pb) (e - pb) m in
  relative_offset (b, e) (pb, pe) m = Some off
  /\ cursor_wf (o_begin off) = true /\ cursor_wf (o_end off) = true
  /\ mode_of off = m
  /\ selection_ts (pb, pe) off = Ok (b, e).
Proof. exact relative_offset_spec. Qed.

(* and nothing is reported for a selection that does not lie inside the other one, in any mode
   (before it, after it, overlapping either side, enclosing it) *)
Theorem C04_report_relative_none : forall b e pb pe m, b <= e -> pb <= pe -> ~ (pb <= b /\ e <= pe) ->
  relative_offset (b, e) (pb, pe) m = None.
Proof.
  intros b e pb pe m H1 H2 Hn. unfold relative_offset, relative_begin, relative_end, relative_begin_endaligned, relative_end_endaligned.
  cbn [fst snd].
  destruct (pb <=? b) eqn:E1; destruct (e <=? pe) eqn:E2; destruct (pb <=? e) eqn:E3; cbn [andb]; destruct m; try reflexivity;
    exfalso; apply Hn; apply Nat.leb_le in E1; apply Nat.leb_le in E2; split; assumption.
Qed.

(* the premises "fst p <= snd p", "snd p <= len" of the theorems above hold for every text selection
   of every store any history of operations can build: what an accepted offset denotes lies inside
   what it is relative to at every nesting depth of annotation-relative offsets, and nothing else
   creates text selections *)
Theorem C04_store_selections_inside : forall ops r rs rg,
  Store.get_res (Store.run ops) r = Some rs -> In rg (Store.r_sels rs) -> fst rg <= snd rg /\ snd rg <= Store.r_len rs.
Proof. intros ops r rs rg H Hin. exact (StoreRange.reachable_RangeInv ops r rs H rg Hin). Qed.

Example C04_nonvacuous :
  resource_ts 5 (mkoff (CE (-4)%Z) (CB 3)) = Ok (1, 3)
  /\ selection_ts (1, 3) (mkoff (CE (-1)%Z) (CE 0%Z)) = Ok (2, 3)
  /\ resource_ts 5 (mkoff (CB 3) (CB 2)) = Err
  /\ resource_ts 5 (mkoff (CB 0) (CE 1%Z)) = Err
  /\ selection_ts (1, 3) (mkoff (CB 0) (CB 3)) = Err.
Proof. repeat split. Qed.
