(* C09: STAMQL parsing is total; printing then parsing is a fixpoint.
   The theorems are about the model of src/api/query.rs (Model/StamqlLex.v,
   Model/Stamql.v) as repaired by the fix: commits of this property.
   dt stands for chrono's RFC 3339 parser and re for Regex::new(..).is_ok();
   the totality theorems hold for ARBITRARY such functions. *)
From Coq Require Import List ZArith NArith Bool.
From Stam Require Import Model.StamqlLex Model.Stamql Proofs.StamqlLex Proofs.StamqlTotal.

(* (a) the lexer never panics, for any input *)
Theorem C09_get_arg_total : forall dt s, get_arg dt s <> Panic /\ get_arg dt s <> Fuel.
Proof. exact get_arg_total. Qed.

Theorem C09_parse_name_total : forall s, parse_name s <> Panic /\ parse_name s <> Fuel.
Proof. exact parse_name_total. Qed.

Theorem C09_parse_attributes_total : forall s, parse_attributes s <> Panic /\ parse_attributes s <> Fuel.
Proof. exact parse_attributes_total. Qed.

(* (b) a fixed-width slice behind a successful keyword dispatch is in range and on a character boundary *)
Theorem C09_slice_safe : forall kw qs,
  str_eqb (split_first qs) kw = true -> exists r, qs = kw ++ r /\ strip kw qs = Ok r.
Proof. exact strip_after_split. Qed.

Theorem C09_slice_safe_prefix : forall p s,
  starts_with p s = true -> exists r, s = p ++ r /\ slice_from (blen p) s = Ok r.
Proof. exact slice_after_prefix. Qed.

(* (c) an argument classified by get_arg_type never reaches an expect()/unreachable!() of
   parse_dataoperator, whatever the operator (after the fix: out-of-range integers are Err) *)
Theorem C09_numeric_safe : forall dt op v quoted,
  parse_dataoperator dt op v (get_arg_type dt v quoted) <> Panic
  /\ parse_dataoperator dt op v (get_arg_type dt v quoted) <> Fuel.
Proof. intros. exact (good_np _ _ (good_parse_dataoperator dt op v quoted)). Qed.

(* the lexer never classifies a token as a float: the "." clears the numeric flag first *)
Theorem C09_float_never_lexed : forall dt s quoted, get_arg_type dt s quoted <> TFloat.
Proof. exact get_arg_type_never_float. Qed.

(* (d) whole-parser totality: every string is answered with a query or a syntax error *)
Theorem C09_constraint_total : forall dt re fuel qs,
  length qs < fuel ->
  parse_constraint dt re fuel qs <> Panic /\ parse_constraint dt re fuel qs <> Fuel.
Proof. intros. exact (good_np _ _ (good_parse_constraint dt re fuel qs H)). Qed.

Theorem C09_parse_total : forall dt re s,
  parse_query dt re s <> Panic /\ parse_query dt re s <> Fuel.
Proof. exact parse_query_total. Qed.

Theorem C09_try_from_total : forall dt re s,
  query_try_from dt re s <> Panic /\ query_try_from dt re s <> Fuel.
Proof. exact query_try_from_total. Qed.

Theorem C09_remainder_bounded : forall dt re s q r,
  parse_query dt re s = Ok (q, r) -> length r <= length s.
Proof. exact parse_query_remainder. Qed.

(* ------------------------------------------------------------------------------------------
   (e) print-then-parse.  Full statement (kept visible; proved bottom-up as far as single
   constraints, the query level is backed by the correspondence run only):

     for the datetime oracle dt (canonical forms are tokens classified as datetimes and their
     own canonical form) and any regex oracle re, every well-formed query outside the known
     classes is a fixpoint of parse . print.                                                   *)
From Stam Require Import Spec.StamqlSpec Proofs.StamqlFix.
Import ListNotations.

Definition C09_print_parse_fix_statement : Prop :=
  forall (dt : str -> option str) (re : str -> bool) (q : query),
    wf_query dt re true q = true -> known_class dt q = 0 ->
    fixpoint_at (parse_query dt re) q.

(* tokens *)
Theorem C09_quoted_token : forall dt s rest,
  bad_quote s = false ->
  get_arg dt (quoted s ++ rest) = Ok (s, trim_start rest, get_arg_type dt s true).
Proof. exact get_arg_quoted. Qed.

Theorem C09_raw_token : forall dt t c rest,
  tok_ok t = true -> is_term c = true ->
  get_arg dt (t ++ c :: rest) = Ok (t, trim_start (c :: rest), get_arg_type dt t false).
Proof. exact get_arg_raw. Qed.

(* numbers: Display of isize / Cursor and the conversions the parser applies *)
Theorem C09_integer_roundtrip : forall dt z, in_isize z ->
  parse_isize (print_Z z) = Some z /\ get_arg_type dt (print_Z z) false = TInteger.
Proof. intros. split; [apply parse_isize_print | apply get_arg_type_print_Z]; assumption. Qed.

Theorem C09_cursor_roundtrip : forall c, cursor_valid c -> cursor_of_str (print_cursor c) = Some c.
Proof. exact cursor_of_str_print. Qed.

Theorem C09_offset_roundtrip : forall dt o rest, off_valid o ->
  parse_offset dt (trim_start (print_offset o ++ c_semicolon :: rest)) = Ok (o, c_semicolon :: rest).
Proof. exact read_offset. Qed.

(* data operators: the printed operator is parsed back to the same operator *)
Theorem C09_dataop_fixpoint : forall dt o t rest, op_ok dt o -> print_dataop o = Some t ->
  read_op dt (t ++ c_semicolon :: rest) = Ok (o, c_semicolon :: rest).
Proof. exact read_op_print. Qed.

(* single constraints: every constraint variant the parser produces except unions, well-formed
   and outside the known classes, followed by any text without trailing white space *)
Theorem C09_print_parse_fix_partial : forall dt re f c t rest,
  wf_constr dt re c = true -> class_free dt c = true -> (forall l, c <> CUnion l) ->
  print_constraint c = Some t -> no_trail (t ++ rest) ->
  parse_constraint dt re (S f) (t ++ rest) = Ok (c, [], trim_start rest).
Proof. exact constraint_fixpoint. Qed.

(* the known classes are real failures of the full statement, not a loosened check *)
Definition nodt (s : str) : option str := None.
Definition anyre (s : str) : bool := true.
Definition refuted (q : query) (k : nat) : Prop :=
  wf_query nodt anyre true q = true /\ known_class nodt q = k /\ ~ fixpoint_at (parse_query nodt anyre) q.
Definition sel (cs : list constr) : query :=
  Q None QSelect false (Some RAnnotation) [] cs (map (fun _ => []) cs) [] [].

Ltac refute := split; [reflexivity|]; split; [reflexivity|]; intros H;
               match goal with H : fixpoint_at _ ?q |- _ =>
                 let t := eval vm_compute in (print_query q) in
                 match t with Some ?s => specialize (H s eq_refl); vm_compute in H; discriminate end
               end.

Local Open Scope N_scope.
Lemma Known_C09_assignments_witness :
  refuted (Q None QAdd false (Some RAnnotation) [AData [115] [107] (VString [53])] [] [] [] []) 1%nat.
Proof. refute. Qed.
Lemma Known_C09_quote_witness : refuted (sel [CId [97; 98; 92]]) 2%nat.
Proof. refute. Qed.
Lemma Known_C09_rawvar_witness : refuted (sel [CTextVar [97; 32; 98]]) 3%nat.
Proof. refute. Qed.
Lemma Known_C09_float_witness : refuted (sel [CValue (Pos (BLeaf (LFlt (FDec false 1%Z [5])))) QNormal]) 4%nat.
Proof. refute. Qed.
Lemma Known_C09_keyword_witness : refuted (sel [CResource [82; 69; 67; 85; 82; 83; 73; 86; 69] QMetadata None]) 5%nat.
Proof. refute. Qed.
Lemma Known_C09_depth_witness : refuted (sel [CAnnotation [120] QNormal DMax None]) 6%nat.
Proof. refute. Qed.
Lemma Known_C09_keyvaluevar_witness : refuted (sel [CKeyValueVar [107] (Pos (BLeaf (LInt 1%Z))) QNormal]) 7%nat.
Proof. refute. Qed.
Lemma Known_C09_relation_witness : refuted (sel [CTextRel [97] RSameRange true]) 8%nat.
Proof. refute. Qed.
Lemma Known_C09_any_witness : refuted (sel [CKeyValue [115] [107] (Pos BAny) QNormal]) 9%nat.
Proof. refute. Qed.

(* non-vacuity: a query with qualifiers, offsets, data operators, a union and sub-queries is a fixpoint *)
Example C09_nonvacuous :
  let q := Q (Some [97]) QSelect false (Some RAnnotation) []
             [CKeyValue [115] [107] (Neg (BLeaf (LInt (-5)%Z))) QMetadata;
              CUnion [CId [120]; CResource [114] QMetadata (Some (CB 1%Z, CE (-2)%Z))];
              CLimit (-3)%Z 0%Z]
             [[[64; 121]]; []; []]
             [Q (Some [100]) QSelect true (Some RData) [] [CAnnotationVar [97] QMetadata DMax None] [[]] [] [[64; 113]];
              Q (Some [116]) QSelect false (Some RText) [] [] [] [] []]
             [[64; 120]] in
  wf_query nodt anyre true q = true /\ known_class nodt q = 0%nat /\ fixpoint_at (parse_query nodt anyre) q.
Proof.
  cbv zeta. split; [reflexivity|]. split; [reflexivity|]. intros t H. vm_compute in H. inversion H; subst.
  vm_compute. reflexivity.
Qed.
