(* C09: STAMQL parsing is total; printing then parsing is a fixpoint.
   The theorems are about the model of src/api/query.rs (Model/StamqlLex.v,
   Model/Stamql.v) as repaired by the fix: commits of this property.
   dt stands for chrono's RFC 3339 parser and re for Regex::new(..).is_ok();
   the totality theorems hold for ARBITRARY such functions. *)
From Coq Require Import List ZArith NArith Bool.
From Stam Require Import Model.StamqlLex Model.Stamql Proofs.StamqlLex Proofs.StamqlTotal.

(* (a) the lexer never panics, for any input *)
Theorem C09_get_arg_total : forall dt s, get_arg dt s <> Panic /\ get_arg dt s <> Fuel.
Proof. exact get_arg_total. Qed.

Theorem C09_parse_name_total : forall s, parse_name s <> Panic /\ parse_name s <> Fuel.
Proof. exact parse_name_total. Qed.

Theorem C09_parse_attributes_total : forall s, parse_attributes s <> Panic /\ parse_attributes s <> Fuel.
Proof. exact parse_attributes_total. Qed.

(* (b) a fixed-width slice behind a successful keyword dispatch is in range and on a character boundary *)
Theorem C09_slice_safe : forall kw qs,
  str_eqb (split_first qs) kw = true -> exists r, qs = kw ++ r /\ strip kw qs = Ok r.
Proof. exact strip_after_split. Qed.

Theorem C09_slice_safe_prefix : forall p s,
  starts_with p s = true -> exists r, s = p ++ r /\ slice_from (blen p) s = Ok r.
Proof. exact slice_after_prefix. Qed.

(* (c) an argument classified by get_arg_type never reaches an expect()/unreachable!() of
   parse_dataoperator, whatever the operator (after the fix: out-of-range integers are Err) *)
Theorem C09_numeric_safe : forall dt op v quoted,
  parse_dataoperator dt op v (get_arg_type dt v quoted) <> Panic
  /\ parse_dataoperator dt op v (get_arg_type dt v quoted) <> Fuel.
Proof. intros. exact (good_np _ _ (good_parse_dataoperator dt op v quoted)). Qed.

(* the lexer never classifies a token as a float: the "." clears the numeric flag first *)
Theorem C09_float_never_lexed : forall dt s quoted, get_arg_type dt s quoted <> TFloat.
Proof. exact get_arg_type_never_float. Qed.

(* (d) whole-parser totality: every string is answered with a query or a syntax error *)
Theorem C09_constraint_total : forall dt re fuel qs,
  length qs < fuel ->
  parse_constraint dt re fuel qs <> Panic /\ parse_constraint dt re fuel qs <> Fuel.
Proof. intros. exact (good_np _ _ (good_parse_constraint dt re fuel qs H)). Qed.

Theorem C09_parse_total : forall dt re s,
  parse_query dt re s <> Panic /\ parse_query dt re s <> Fuel.
Proof. exact parse_query_total. Qed.

Theorem C09_try_from_total : forall dt re s,
  query_try_from dt re s <> Panic /\ query_try_from dt re s <> Fuel.
Proof. exact query_try_from_total. Qed.

Theorem C09_remainder_bounded : forall dt re s q r,
  parse_query dt re s = Ok (q, r) -> length r <= length s.
Proof. exact parse_query_remainder. Qed.
