(* C09: STAMQL parsing is total; printing then parsing is a fixpoint. *)
From Coq Require Import List ZArith NArith Bool.
From Stam Require Import Model.StamqlLex Model.Stamql Proofs.StamqlLex.

Theorem C09_get_arg_total : forall dt s, get_arg dt s <> Panic /\ get_arg dt s <> Fuel.
Proof. exact get_arg_total. Qed.
