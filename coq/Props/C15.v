(* C15: STAM CSV round trip preserves structure, targets and the text of values. *)
From Coq Require Import List NArith ZArith Bool Arith.
Import ListNotations.
From Stam Require Import Base.Sx Model.Offset Model.Store Model.Loader Model.Csv Spec.CsvSpec Proofs.Loader Proofs.Csv.

(* splitting a column on ';' gives back the values that were joined, for any number of values *)
Theorem C15_split_join : forall l, (forall x, In x l -> has_semi x = false) -> l <> [] ->
  split (join_semi l) = l.
Proof. exact split_join. Qed.

(* what the writer's loops produce is the documented column: own slot, then one slot per member *)
Theorem C15_column_shape : forall own l, own ++ push_all l = column_spec own l.
Proof. exact push_all_join. Qed.

Example C15_nonvacuous :
  split (push_all [[114; 48]; []; [114; 49]]%N) = [[]; [114; 48]; []; [114; 49]]%N.
Proof. reflexivity. Qed.
