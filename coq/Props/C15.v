(* C15: STAM CSV round trip preserves structure, targets and the text of values.
   Model: Model/Csv.v (writer, reader) over Model/Store.v and the row decoder of Model/Loader.v;
   specification: Spec/CsvSpec.v.  See notes/C15.md for what is proved and what is checked by
   execution only. *)
From Coq Require Import List NArith ZArith Bool Arith.
Import ListNotations.
From Stam Require Import Base.Sx Model.Offset Model.Store Model.Loader Model.Csv Spec.CsvSpec Proofs.Loader Proofs.StoreIds Proofs.StoreSets Proofs.Csv Proofs.CsvSet Proofs.CsvResolve Proofs.CsvStore Proofs.ValidateProtect Proofs.CsvReach.

(* splitting a column on ';' gives back the values that were joined, for any number of values *)
Theorem C15_split_join : forall l, (forall x, In x l -> has_semi x = false) -> l <> [] ->
  split (join_semi l) = l.
Proof. exact split_join. Qed.

(* what the writer's loops produce is the documented column: own slot, then one slot per member *)
Theorem C15_column_shape : forall own l, own ++ push_all l = column_spec own l.
Proof. exact push_all_join. Qed.

(* every selector kind the writer can emit is accepted by the reader *)
Theorem C15_kind_roundtrip : forall k, kind_of_str (kind_str k) = Ok k.
Proof. exact kind_str_roundtrip. Qed.

(* cursors of both alignments (incl. "-0") are read back, for every value of the integer types *)
Theorem C15_cursor_codec : forall c, Proofs.Loader.cursor_wf c -> cursor_of_str (str_of_cursor c) = Ok c.
Proof. exact cursor_roundtrip. Qed.

(* the data columns: any number of (set, data) references is read back in order *)
Theorem C15_data_columns : forall r ds, pairs_wf ds ->
  c_data r = fst (data_columns ds) -> c_set r = snd (data_columns ds) -> data_of r = ds.
Proof. exact data_of_columns. Qed.

(* unpack (pack) for one row: any id, any number of data references, a simple selector of any
   of the six kinds or a complex selector with any number of members of any mix of kinds *)
Theorem C15_row_roundtrip : forall idcol ds k bs r, pairs_wf ds -> target_wf k bs ->
  assemble idcol (data_columns ds) k (map member_of bs) = Some r ->
  csv_row_now r = Ok {| Loader.ab_id := opt idcol; Loader.ab_data := ds;
                        Loader.ab_target := Some (target_of k bs) |}.
Proof. exact row_roundtrip. Qed.

(* ... and for every live annotation of a store with well-formed ranges: the row the writer
   packs decodes to the builder that names the annotation's id, data and, leaf by leaf, target *)
Theorem C15_unpack_pack : forall s h a r, store_ok s = true -> get_ann s h = Some a ->
  pack_row s h a = Some r ->
  exists bs ds, map_opt (leaf_build s) (a_leaves a) = Some bs /\ data_names s a = Some ds /\
    csv_row_now r = Ok {| Loader.ab_id := opt (id_column h a); Loader.ab_data := ds;
                          Loader.ab_target := Some (target_of (a_kind a) bs) |}.
Proof. exact pack_row_decodes. Qed.

(* ... and resolves to the same target: for every reachable store (any history of the store
   operations) with well-formed ranges, the builder decoded from the row of a live annotation,
   resolved by annotate()'s selector resolution against that store, gives the annotation's kind
   and, leaf by leaf, the same items and the same absolute ranges (relative offsets and the four
   alignments through C04, ids through the exactness of the id maps of C03, items without public
   id through their temporary id); the data references resolve to the annotation's data *)
Theorem C15_reresolve : forall ops h a r, Forall op_ok ops ->
  store_ok (run ops) = true -> ids_fit (run ops) -> get_ann (run ops) h = Some a -> shape_ok a ->
  pack_row (run ops) h a = Some r ->
  exists bs ds tb lfs',
    csv_row_now r = Ok {| Loader.ab_id := opt (id_column h a); Loader.ab_data := ds;
                          Loader.ab_target := Some (target_of (a_kind a) bs) |}
    /\ target_of_loader (target_of (a_kind a) bs) = Some tb
    /\ resolve_target (run ops) tb = (run ops, Some (a_kind a, lfs'))
    /\ map (leaf_desc (run ops)) lfs' = map (leaf_desc (run ops)) (a_leaves a)
    /\ refs_resolve (run ops) a ds.
Proof. exact reachable_reresolve. Qed.

(* offsets in all four alignments: written, parsed, resolved on a text of the same length they
   give the same absolute range (through C04's report/resolve theorems) *)
Theorem C15_offset_text : forall len b e m, b <= e -> e <= len -> fits len = true ->
  exists cb ce,
    cursor_pair (fst (off_strs (Some (report_resource len (b, e) m))))
                (snd (off_strs (Some (report_resource len (b, e) m)))) = Ok (cb, ce)
    /\ resource_ts len (mkoff (ocur cb) (ocur ce)) = Offset.Ok (b, e).
Proof. exact offset_text_roundtrip. Qed.

Theorem C15_offset_relative : forall pb pe b e m len, pb <= b -> b <= e -> e <= pe -> pe <= len -> fits len = true ->
  exists off cb ce,
    relative_offset (b, e) (pb, pe) m = Some off
    /\ cursor_pair (fst (off_strs (Some off))) (snd (off_strs (Some off))) = Ok (cb, ce)
    /\ selection_ts (pb, pe) (mkoff (ocur cb) (ocur ce)) = Offset.Ok (b, e).
Proof. exact offset_relative_roundtrip. Qed.

(* identifiers: an ordinary id is read as that id; a temporary id as the handle it names *)
Theorem C15_name_plain : forall plain temp t, (plain =? 33)%N = false -> tok_fits t ->
  ref_of_name plain temp (plain :: nat_dec t) = Some (ById t).
Proof. exact ref_of_plain_name. Qed.
Theorem C15_name_temp : forall plain temp h, tok_fits h ->
  ref_of_name plain temp (temp_name temp h) = Some (ByHandle h).
Proof. exact ref_of_temp_name. Qed.
Theorem C15_name_set : forall t, tok_fits t -> set_ref_of_name (name_set t) = Some (ById t).
Proof. exact set_ref_of_name_set. Qed.

(* the data set files: saving a set (key rows, then data rows with the value as text) and
   loading the file gives a set with the same id, the same keys in the same order, the same data
   items under the same ids and keys, and the same value text - for every set whose keys and
   data carry distinct public ids (removed keys and data items included: ranks, not handles) *)
Theorem C15_set_file_roundtrip : forall d rows, dset_ok d -> save_set d = Some rows ->
  exists d', load_set (name_set (d_id d)) rows = Some d' /\ content_set d' = content_set d.
Proof. exact set_file_roundtrip. Qed.

(* THE PROPERTY at store level.  For every store with exact id maps whose ranges, target shapes
   and reference order are well-formed (Good: IdInv, SetsInv, store_ok, shape_ok, every item with
   a public id, annotation targets point to earlier annotations) and that the writer can write:
   loading what was saved succeeds and gives a store with the content of the original - same
   resources, same data sets with the same keys, data ids, keys and value texts, same annotations
   with the same ids, data references, selector kinds, referenced items and absolute ranges.
   The proof is a simulation over the rows: after n rows the store being loaded holds the first n
   live annotations of the original under the renaming handle -> rank, text selections interned
   in whatever order (Proofs/CsvStore.v). *)
Theorem C15_load_save : forall s f, Good s -> save s = Some f ->
  exists s', load f = LOk s' /\ content s' = content s.
Proof. exact load_save_content. Qed.

(* the conditions hold for every reachable store: ranges inside their resource (StoreRange),
   relative selections inside the selection of their live parent (ValidateNest), targets with
   smaller handles and nothing dangling (StoreData), targets never change (StoreStable), and
   - proved here - every target has one of the shapes of the API *)
Theorem C15_hyps_ok : forall ops, Forall op_ok ops -> Forall kind_ok ops -> lens_fit (run ops) ->
  hyps_ok (run ops) = true.
Proof. exact reachable_hyps_ok. Qed.

(* the writer never panics on a reachable store *)
Theorem C15_save_total : forall ops, Forall op_ok ops -> Forall kind_ok ops -> save (run ops) <> None.
Proof. exact reachable_save. Qed.

(* THE PROPERTY for every reachable store (any history of add / annotate / remove operations)
   outside the known class: the model of save-then-load equals the specification.  What is
   left as hypothesis concerns the size of numbers (ids_fit: tokens and handles below 2^64,
   lens_fit: text lengths up to isize::MAX), C03's condition on data ids (op_ok) and the three
   complex selector kinds of the API (kind_ok) *)
Theorem C15_statement : forall ops, Forall op_ok ops -> Forall kind_ok ops ->
  ids_fit (run ops) -> lens_fit (run ops) -> known_class (run ops) = 0 ->
  sx_of_loaded (roundtrip (run ops)) = roundtrip_spec (run ops).
Proof. exact reachable_roundtrip_uncond. Qed.

(* the known class is a real failure of the full property *)
Theorem C15_tempid_refuted :
  Known_C15_tempid (run tempid_ops) = true
  /\ sx_of_loaded (roundtrip (run tempid_ops)) <> roundtrip_spec (run tempid_ops)
  /\ Known_C15_tempid (run tempid_gap_ops) = true
  /\ roundtrip (run tempid_gap_ops) = LErr.
Proof. exact Known_C15_tempid_witness. Qed.
(* complex selectors without members (annotate() accepts them) are read back too (8591e12) *)
Example C15_empty_complex :
  length (live_items (anns (run empty_complex_ops))) = 2
  /\ sx_of_loaded (roundtrip (run empty_complex_ops)) = roundtrip_spec (run empty_complex_ops).
Proof. exact empty_complex_roundtrip. Qed.

(* non-vacuity: a store with every selector kind, all alignments, a relative offset, a composite
   with eight mixed members, typed values and a removed annotation satisfies the full property *)
Example C15_nonvacuous :
  known_class (run demo_ops) = 0 /\ hyps_ok (run demo_ops) = true
  /\ sx_of_loaded (roundtrip (run demo_ops)) = roundtrip_spec (run demo_ops)
  /\ length (live_items (anns (run demo_ops))) = 5.
Proof. exact demo_roundtrip. Qed.
