(* C08.  Layer 1: the helper collections of the query engine.
   LIMIT returns the documented slice for every list and every pair of
   bounds; Handles::union is the duplicate-free union (order retained, sorted
   collections stay sorted), Handles::intersection is the set intersection,
   and contains() answers correctly after any of them because the `sorted`
   flag always describes the array. *)
From Coq Require Import ZArith NArith List Permutation.
Import ListNotations.
From Stam Require Import Base.Tac Model.Limit Model.Handles Spec.HandlesSpec Proofs.Limit Proofs.Handles.
From Stam Require Import Model.Offset Model.Store Model.StoreObs Model.DataValue Model.QuerySem Spec.QuerySpec Proofs.QuerySem Proofs.QueryMachine.

Theorem C08_limit_is_slice : forall (X : Type) (bg en : Z) (l : list X),
  limit bg en l = slice_spec bg en l.
Proof. exact @limit_is_slice. Qed.

Theorem C08_from_iter_ok : forall l, NoDup l -> ok (from_iter l).
Proof. exact from_iter_ok. Qed.

Theorem C08_contains : forall h x, ok h -> contains h x = mem x (arr h).
Proof. exact contains_ok. Qed.

Theorem C08_union_spec : forall A B, ok A -> ok B ->
  arr (union A B) = (if srt A then sort (spec_union_list (arr A) (arr B)) else spec_union_list (arr A) (arr B))
  /\ srt (union A B) = srt A.
Proof. exact union_spec. Qed.

Theorem C08_union_ok : forall A B, ok A -> ok B -> ok (union A B).
Proof. exact union_ok. Qed.

Theorem C08_union_members : forall A B x, ok A -> ok B ->
  contains (union A B) x = mem x (arr A) || mem x (arr B).
Proof. exact union_mem. Qed.

Theorem C08_intersection_spec : forall A B, ok A -> ok B ->
  ok (intersection A B) /\ srt (intersection A B) = srt A
  /\ forall x, In x (arr (intersection A B)) <-> In x (arr A) /\ In x (arr B).
Proof. exact intersection_spec. Qed.

Theorem C08_intersection_members : forall A B x, ok A -> ok B ->
  contains (intersection A B) x = mem x (arr A) && mem x (arr B).
Proof. exact intersection_mem. Qed.

Theorem C08_sort : forall A, ok A -> arr (sort_h A) = sort (arr A) /\ ok (sort_h A).
Proof. exact sort_h_spec. Qed.

(* non-vacuity *)
Example C08_nonvacuous :
  ok (from_iter [1; 5; 9]) /\ ok (from_iter [7; 2; 5])
  /\ arr (union (from_iter [1; 5; 9]) (from_iter [2; 5; 7])) = [1; 2; 5; 7; 9]
  /\ arr (intersection (from_iter [1; 2; 3; 4]) (from_iter [2; 3; 4; 10; 11])) = [2; 3; 4]
  /\ limit (-4)%Z (-1)%Z [0; 1; 2; 3; 4; 5] = [2; 3; 4]
  /\ limit (-3)%Z 5%Z [0; 1; 2; 3; 4; 5] = [3; 4].
Proof.
  repeat split; try reflexivity; try (repeat constructor; cbn; intuition lia);
    try (cbn; intros; discriminate).
Qed.

(** * Layer 2: the meaning of queries ([sem], Model/QuerySem.v), for every store, environment and
    query of the fragment - nothing below is bounded. *)

(* a level selects exactly the live items of the result type that satisfy every constraint *)
Theorem C08_level_selected : forall s e rt cs it,
  In it (level s e rt cs None) <-> selected s e rt cs it.
Proof. exact level_selected. Qed.

(* each once *)
Theorem C08_level_NoDup : forall s e rt cs, NoDup (level s e rt cs None).
Proof. exact level_NoDup. Qed.

(* the order in which the constraints are written does not matter - at any level of the query *)
Theorem C08_sem_perm : forall s q q' e, qperm q q' -> sem s e q = sem s e q'.
Proof. exact sem_perm. Qed.

Theorem C08_sem_perm_level : forall s e n rt cs cs' lim o sub,
  Permutation cs cs' -> sem s e (Q n rt cs lim o sub) = sem s e (Q n rt cs' lim o sub).
Proof. exact sem_perm_level. Qed.

(* nor the order of the branches of a UNION *)
Theorem C08_union_perm : forall s e l l' it,
  Permutation l l' -> csat s e (CUnion l) it = csat s e (CUnion l') it.
Proof. exact csat_union_perm. Qed.

(* a UNION is the union of its branches, without duplicates *)
Theorem C08_sem_union : forall s e rt l,
  level s e rt [CUnion l] None = union_of (universe s rt) (map (branch_result s e rt) l).
Proof. exact sem_union. Qed.

Theorem C08_sem_union_members : forall s e rt l it,
  In it (level s e rt [CUnion l] None) <-> exists c, In c l /\ In it (branch_result s e rt c).
Proof. exact sem_union_members. Qed.

(* LIMIT is the slice of the unlimited results (positive and negative bounds) *)
Theorem C08_sem_limit : forall s e rt cs bg en,
  level s e rt cs (Some (bg, en)) = slice_spec bg en (level s e rt cs None).
Proof. exact sem_limit. Qed.

(* sub-queries are nested iteration with the outer variable bound; OPTIONAL leaves the outer item
   alone when the sub-query has nothing for it *)
Theorem C08_sem_subquery : forall s e n rt cs lim o sq,
  sem s e (Q n rt cs lim o (Some sq)) = nested s e n (level s e rt cs lim) sq.
Proof. exact sem_subquery. Qed.

Theorem C08_sem_subquery_rows : forall s e n rt cs lim o sq it r,
  In (it :: r) (sem s e (Q n rt cs lim o (Some sq))) <->
  In it (level s e rt cs lim)
  /\ (In r (sem s (e ++ [(n, it)]) sq)
      \/ (r = [] /\ q_opt sq = true /\ sem s (e ++ [(n, it)]) sq = [])).
Proof. exact sem_subquery_rows. Qed.

(* ADD and DELETE change the store as the direct calls on the selected rows do *)
Theorem C08_sem_add : forall s a, exec_add s a (sem s [] (add_sub a)) = spec_add s a.
Proof. exact sem_add. Qed.

Theorem C08_sem_delete : forall s x sub, exec_delete s x sub (sem s [] sub) = spec_delete s x sub.
Proof. exact sem_delete. Qed.

(* a collection kept from an earlier query, used again after a removal: the members still there *)
Theorem C08_collection_survivors : forall s rows victim x,
  In x (coll_after s rows victim) <->
  In x (outer_items rows) /\ item_live (match victim with Some v => rm_item s v | None => s end) x = true.
Proof. exact collection_survivors. Qed.

(* however evaluated: on every reachable store the reverse index the evaluator reads for the first
   constraint delivers exactly the level of [sem] (by C01: every reverse index is exact) *)
Theorem C08_route_resource : forall ops e tok r, res_by_id (run ops) tok = Some r ->
  level (run ops) e TAnn [CRes (RId tok) false] None = map IAnn (m_res_text (run ops) r).
Proof. exact route_resource. Qed.

Theorem C08_route_resource_metadata : forall ops e tok r, res_by_id (run ops) tok = Some r ->
  level (run ops) e TAnn [CRes (RId tok) true] None = map IAnn (m_res_meta (run ops) r).
Proof. exact route_resource_metadata. Qed.

Theorem C08_route_dataset_metadata : forall ops e tok d, set_by_id (run ops) tok = Some d ->
  level (run ops) e TAnn [CSet (RId tok) true] None = map IAnn (m_set_meta (run ops) d).
Proof. exact route_dataset_metadata. Qed.

Theorem C08_route_annotation_target : forall ops e tok y, ann_by_id (run ops) tok = Some y ->
  level (run ops) e TAnn [CAnn (RId tok) true] None = map IAnn (m_ann_anns (run ops) y).
Proof. exact route_annotation_target. Qed.

Theorem C08_route_data_variable : forall ops e v d x, lookup e v = Some (IData d x) ->
  level (run ops) e TAnn [CDataVar v false] None = map IAnn (m_data_anns (run ops) d x).
Proof. exact route_data_variable. Qed.

(** * Layer 3: the classes of queries on which the evaluator (as far as modelled: the dispatch
    tables, the routes through AnnotationSelectors, the source orders and the QueryIter state
    machine, [run_machine]) is known not to return [sem]; each with a witness on one store. *)
(* The iteration core of the evaluator is proved, not only tested: the transcription of
   QueryIter::next / init_all_states / init_state / next_state / estimate_stacksize (state stack,
   done flags, query path) returns the rows of plain nested iteration over its levels whenever every
   level that is reached opens without error and every OPTIONAL level that is reached has a
   candidate ([fine]); for queries of any depth, stores of any size. *)
Theorem C08_machine_rows : forall s q, fine s [] q ->
  forall fuel, work s [] q < fuel -> iterate s q fuel (mkm [] 0) [] = Some (rows s [] q).
Proof. intros s q H fuel Hf. exact (machine_rows s q H fuel Hf). Qed.

(* hence it returns [sem] when moreover the levels deliver what the constraints mean and no OPTIONAL
   sub-query comes back empty ([clean]: the complement of the classes below, stated on the
   behaviour of the levels); [cleanb] decides it *)
Theorem C08_machine_sem : forall s q, clean s [] q -> run_machine s q = Some (sem s [] q).
Proof. exact machine_sem. Qed.

Theorem C08_machine_sem_dec : forall s q, cleanb s [] q = true -> run_machine s q = Some (sem s [] q).
Proof. exact machine_sem_dec. Qed.

(* a syntactic class on which the modelled levels are those of [sem]: constraint lists without
   UNION and without the (type, form, role) combinations of the classes below *)
Theorem C08_plain_level : forall s e rt cs lim, plain_l rt cs = true ->
  level_impl s e rt cs lim = level s e rt cs lim.
Proof. exact plain_level. Qed.

Theorem C08_machine_sem_plain : forall s q, guard s [] q = true -> run_machine s q = Some (sem s [] q).
Proof. exact machine_sem_plain. Qed.

Definition Known_C08_position (q : query) : bool := negb (all_levels_ok q).
Definition Known_C08_indirect (s : store) (q : query) : bool := indirect_q q && has_higher_order s.
Definition Known_C08_optional (s : store) (q : query) : bool := optional_empty s [] q.
Definition Known_C08_limit_order (q : query) : bool := limit_order q.
Definition Known_C08_orphan_text (s : store) (q : query) : bool :=
  text_source q (fun c => match c with CRes _ _ | CRel _ _ => true | _ => false end) && has_orphan_text s.
Definition Known_C08_text_occurrences (q : query) : bool :=
  text_source q (fun c => match c with CText _ _ => true | _ => false end).
Definition Known_C08_text_any (q : query) : bool := text_first q.
Definition Known_C08_text_union (q : query) : bool := text_union q.

Definition wtxt (r b e : nat) := BText (ById r) (mkoff (CB b) (CB e)).
Definition wdat (d k : nat) (v : value) := mkdb (ById d) None (Some (ById k)) v.
(* r0 (12 codepoints), r1 (8); a0 on r0 as a whole, a1 = r0[0..3] {s0.k0=1}, a2 = r0[2..5]
   {s0.k0=2, s0.k1="a"}, a3 on a1 {s1.k0=1}, a4 = {r0[0..1], r1[4..6]}, a5 = r1[1..4] removed again *)
Definition W : store :=
  run [AddRes 0 12; AddRes 1 8;
       Annotate (mkab (Some 0) (Some (BRes (ById 0))) []);
       Annotate (mkab (Some 1) (Some (wtxt 0 0 3)) [wdat 0 0 (VInt 1)]);
       Annotate (mkab (Some 2) (Some (wtxt 0 2 5)) [wdat 0 0 (VInt 2); wdat 0 1 (VStr [97%N])]);
       Annotate (mkab (Some 3) (Some (BAnn (ById 1) None)) [wdat 1 0 (VInt 1)]);
       Annotate (mkab (Some 4) (Some (BComplex 1 [wtxt 0 0 1; wtxt 1 4 6])) []);
       Annotate (mkab (Some 5) (Some (wtxt 1 1 4)) []);
       RmAnn (ById 5)].

(* SELECT DATA WHERE VALUE = 2; ANNOTATION "a2"; *)
Lemma Known_C08_position_witness :
  let q := Q 0 TData [CVal (OpEqInt 2); CAnn (RId 2) false] None false None in
  Known_C08_position q = true /\ run_machine W q = Some [] /\ sem W [] q = [[IData 0 1]].
Proof. vm_compute. repeat split. Qed.

(* SELECT ANNOTATION WHERE DATASET "s1"; RESOURCE "r0"; *)
Lemma Known_C08_indirect_witness :
  let q := Q 0 TAnn [CSet (RId 1) false; CRes (RId 0) false] None false None in
  Known_C08_indirect W q = true /\ run_machine W q = Some [[IAnn 3]] /\ sem W [] q = [].
Proof. vm_compute. repeat split. Qed.

(* SELECT ANNOTATION ?v0 { SELECT OPTIONAL DATA ?v1 WHERE ANNOTATION ?v0; } *)
Lemma Known_C08_optional_witness :
  let q := Q 0 TAnn [] None false (Some (Q 1 TData [CAnn (RVar 0) false] None true None)) in
  Known_C08_optional W q = true /\ run_machine W q = Some [[IAnn 0]]
  /\ sem W [] q = [[IAnn 0]; [IAnn 1; IData 0 0]; [IAnn 2; IData 0 1]; [IAnn 2; IData 0 2];
                   [IAnn 3; IData 1 0]; [IAnn 4]].
Proof. vm_compute. repeat split. Qed.

(* SELECT ANNOTATION WHERE [ ID "a2" OR ID "a1" ]; LIMIT 0 1; *)
Lemma Known_C08_limit_order_witness :
  let q := Q 0 TAnn [CUnion [CId 2; CId 1]] (Some (0, 1)%Z) false None in
  Known_C08_limit_order q = true /\ run_machine W q = Some [[IAnn 2]] /\ sem W [] q = [[IAnn 1]].
Proof. vm_compute. repeat split. Qed.

(* SELECT TEXT WHERE RESOURCE "r1"; *)
Lemma Known_C08_orphan_text_witness :
  let q := Q 0 TText [CRes (RId 1) false] None false None in
  Known_C08_orphan_text W q = true /\ run_machine W q = Some [[IText 1 1 4]; [IText 1 4 6]]
  /\ sem W [] q = [[IText 1 4 6]].
Proof. vm_compute. repeat split. Qed.

(* SELECT TEXT WHERE TEXT "a"; *)
Lemma Known_C08_text_occurrences_witness :
  let q := Q 0 TText [CText [97%N] false] None false None in
  Known_C08_text_occurrences q = true
  /\ run_machine W q = Some [[IText 0 0 1]; [IText 0 9 10]; [IText 1 0 1]]
  /\ sem W [] q = [[IText 0 0 1]].
Proof. vm_compute. repeat split. Qed.

(* SELECT ANNOTATION WHERE TEXT "a"; *)
Lemma Known_C08_text_any_witness :
  let q := Q 0 TAnn [CText [97%N] false] None false None in
  Known_C08_text_any q = true /\ run_machine W q = Some [[IAnn 4]] /\ sem W [] q = [].
Proof. vm_compute. repeat split. Qed.

(* SELECT TEXT WHERE [ RESOURCE "r0" OR RESOURCE "r1" ]; - not implemented: ends with an error
   (an empty result) in either position; the panic it used to be is repaired *)
Lemma Known_C08_text_union_witness :
  let q := Q 0 TText [CUnion [CRes (RId 0) false; CRes (RId 1) false]] None false None in
  Known_C08_text_union q = true /\ run_machine W q = Some []
  /\ sem W [] q = [[IText 0 0 1]; [IText 0 0 3]; [IText 0 2 5]; [IText 1 4 6]].
Proof. vm_compute. repeat split. Qed.

(* non-vacuity of layer 2: a query with two levels, a UNION and a LIMIT on the store above *)
Example C08_sem_nonvacuous :
  sem W [] (Q 0 TAnn [CRes (RId 0) false; CUnion [CKeyVal 0 0 (OpEqInt 2) false; CId 1]] (Some (0, 2)%Z) false
              (Some (Q 1 TData [CAnn (RVar 0) false; CVal (OpNot OpNull)] None false None)))
  = [[IAnn 1; IData 0 0]; [IAnn 2; IData 0 1]; [IAnn 2; IData 0 2]].
Proof. vm_compute. reflexivity. Qed.

(* non-vacuity of the machine theorem: a query with an OPTIONAL sub-query that is clean *)
Example C08_machine_nonvacuous :
  let q := Q 0 TAnn [CSet (RId 0) false] None false
             (Some (Q 1 TData [CAnn (RVar 0) false] None true None)) in
  cleanb W [] q = true /\ guard W [] (Q 0 TAnn [CSet (RId 0) false; CRes (RId 0) true] None false None) = false
  /\ guard W [] (Q 0 TRes [CId 0] None false (Some (Q 1 TAnn [CRes (RVar 0) false; CKey 0 0 false] (Some (0, 1)%Z) true None))) = true
  /\ run_machine W q = Some [[IAnn 1; IData 0 0]; [IAnn 2; IData 0 1]; [IAnn 2; IData 0 2]].
Proof. vm_compute. repeat split; reflexivity. Qed.
