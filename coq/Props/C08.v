(* C08 (layer 1): the helper collections of the query engine.
   LIMIT returns the documented slice for every list and every pair of
   bounds; Handles::union is the duplicate-free union (order retained, sorted
   collections stay sorted), Handles::intersection is the set intersection,
   and contains() answers correctly after any of them because the `sorted`
   flag always describes the array. *)
From Coq Require Import ZArith.
From Stam Require Import Base.Tac Model.Limit Model.Handles Spec.HandlesSpec Proofs.Limit Proofs.Handles.

Theorem C08_limit_is_slice : forall (X : Type) (bg en : Z) (l : list X),
  limit bg en l = slice_spec bg en l.
Proof. exact @limit_is_slice. Qed.

Theorem C08_from_iter_ok : forall l, NoDup l -> ok (from_iter l).
Proof. exact from_iter_ok. Qed.

Theorem C08_contains : forall h x, ok h -> contains h x = mem x (arr h).
Proof. exact contains_ok. Qed.

Theorem C08_union_spec : forall A B, ok A -> ok B ->
  arr (union A B) = (if srt A then sort (spec_union_list (arr A) (arr B)) else spec_union_list (arr A) (arr B))
  /\ srt (union A B) = srt A.
Proof. exact union_spec. Qed.

Theorem C08_union_ok : forall A B, ok A -> ok B -> ok (union A B).
Proof. exact union_ok. Qed.

Theorem C08_union_members : forall A B x, ok A -> ok B ->
  contains (union A B) x = mem x (arr A) || mem x (arr B).
Proof. exact union_mem. Qed.

Theorem C08_intersection_spec : forall A B, ok A -> ok B ->
  ok (intersection A B) /\ srt (intersection A B) = srt A
  /\ forall x, In x (arr (intersection A B)) <-> In x (arr A) /\ In x (arr B).
Proof. exact intersection_spec. Qed.

Theorem C08_intersection_members : forall A B x, ok A -> ok B ->
  contains (intersection A B) x = mem x (arr A) && mem x (arr B).
Proof. exact intersection_mem. Qed.

Theorem C08_sort : forall A, ok A -> arr (sort_h A) = sort (arr A) /\ ok (sort_h A).
Proof. exact sort_h_spec. Qed.

(* non-vacuity *)
Example C08_nonvacuous :
  ok (from_iter [1; 5; 9]) /\ ok (from_iter [7; 2; 5])
  /\ arr (union (from_iter [1; 5; 9]) (from_iter [2; 5; 7])) = [1; 2; 5; 7; 9]
  /\ arr (intersection (from_iter [1; 2; 3; 4]) (from_iter [2; 3; 4; 10; 11])) = [2; 3; 4]
  /\ limit (-4)%Z (-1)%Z [0; 1; 2; 3; 4; 5] = [2; 3; 4]
  /\ limit (-3)%Z 5%Z [0; 1; 2; 3; 4; 5] = [3; 4].
Proof.
  repeat split; try reflexivity; try (repeat constructor; cbn; intuition lia);
    try (cbn; intros; discriminate).
Qed.
