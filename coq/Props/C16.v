(* C16: transposition preserves text.
   For every list of texts T, every transposition V over them whose corresponding fragments have
   identical text (wf_transp; simple transpositions have single-fragment sides), every source
   (resource r, ranges src inside its text), every TranspositionSide and both entry points
   (annotation / text selection set), the model of transpose() (Model/Transpose.v, transcribed after
   the six fix commits) either fails or returns a new transposition that passes
   Spec/TransposeSpec.v check_forward:
     one side per side of V; exactly one source side; it lies in r, inside the text, and is the
     source cut into consecutive pieces in order; the source is covered by the fragments of that
     side of V; every other side has as many pieces, each a selection of a resource its old side
     lies in, with the text of the corresponding source piece.
   check_forward_text spells out the text equalities, new_transposition_ok that the result is a
   transposition again, transpose_back that transposing a side of it back returns the same
   offsets, uncovered_fails that an uncovered source fails, transpose_total that the model never
   reaches a panic site nor runs out of fuel.  No known-finding class is needed. *)
From Coq Require Import NArith.
From Stam Require Import Base.Tac Base.Sx Model.Rel Model.Offset Model.Transpose Spec.TransposeSpec Proofs.Transpose
  Run.C16 Proofs.TransposeRun.

(* rel_offset_text *)
Theorem C16_rel_offset_text : forall (t1 t2 : text) b1 e1 b2 e2 x y,
  sub t1 b1 e1 = sub t2 b2 e2 -> y <= e1 - b1 -> y <= e2 - b2 ->
  sub t1 (b1 + x) (b1 + y) = sub t2 (b2 + x) (b2 + y).
Proof. exact rel_offset_text. Qed.

(* transpose_text + out_wf + coverage: every successful result passes the specification *)
Theorem C16_transpose_sound : forall T V r src cfg existing complex fuel res,
  wf_input T complex V r src = true ->
  transpose fuel (lens_of T) complex V r src cfg existing = TOk res ->
  check_forward T V r src cfg (flagged res) = true.
Proof.
  intros T V r src cfg existing complex fuel res Hwf. destruct (wf_input_facts _ _ _ _ _ Hwf) as (H1 & H2 & H3).
  exact (transpose_sound T V r src cfg existing complex fuel res H1 H2 H3).
Qed.

(* the entry point for annotations is the same function on the annotation's text selections *)
Theorem C16_annotation_entry : forall fuel lens complex V r src cfg, src <> [] ->
  transpose_annotation fuel lens complex V (map (fun p => mkfrag r (fst p) (snd p)) src) cfg
  = transpose fuel lens complex V r src cfg true.
Proof. exact transpose_annotation_eq. Qed.

(* what passing the specification means for the texts: the source side selects the text of the
   source (concatenation of its pieces = concatenation of the source ranges), all sides select
   piece by piece the same texts, inside their texts; the source is covered *)
Theorem C16_text_preserved : forall T V r src cfg O, check_forward T V r src cfg O = true ->
  exists s, find_flag 0 O = Some s /\ length O = length V
    /\ concat (map (subf T) (snd (nth s O (0, [])))) = concat (map (sub2 (text_of T r)) src)
    /\ covered (nth s V []) r src = true
    /\ forall j, j < length O ->
         Forall (fun g => in_range T g = true) (snd (nth j O (0, [])))
         /\ map (subf T) (snd (nth j O (0, []))) = map (subf T) (snd (nth s O (0, []))).
Proof. exact check_forward_text. Qed.

(* new_transposition_wf *)
Theorem C16_new_transposition_wf : forall T V r src cfg O,
  wf_transp T V = true -> check_forward T V r src cfg O = true -> new_transposition_wf T O = true.
Proof. exact new_transposition_ok. Qed.

(* transpose_back: side j of a transposition transposed over it (ByIndex(j), or Auto when no other
   side lies in its resource) gives back the transposition's own offsets on every side *)
Theorem C16_transpose_back : forall T O j cfg fuel,
  wf_transp T O = true -> j < length O ->
  single_res (nth j O []) = true -> pairwise_apart (nth j O []) = true ->
  (cfg = Some j \/ (cfg = None /\ only_side_in_res O j = true)) ->
  fuel_for (map rng (nth j O [])) <= fuel ->
  transpose_annotation fuel (lens_of T) true O (nth j O []) cfg = TOk (mkres j false O).
Proof. exact transpose_back. Qed.

(* uncovered_fails *)
Theorem C16_uncovered_fails : forall T V r src cfg existing complex fuel,
  wf_input T complex V r src = true ->
  (forall s, covered (nth s V []) r src = false) ->
  forall res, transpose fuel (lens_of T) complex V r src cfg existing <> TOk res.
Proof.
  intros T V r src cfg existing complex fuel Hwf. destruct (wf_input_facts _ _ _ _ _ Hwf) as (H1 & H2 & H3).
  exact (uncovered_fails T V r src cfg existing complex fuel H1 H2 H3).
Qed.

(* no panic site is reached and the fuel of fuel_for suffices: the answer is Err or Ok *)
Theorem C16_total : forall T V r src cfg existing complex fuel,
  wf_input T complex V r src = true -> fuel_for src <= fuel ->
  transpose fuel (lens_of T) complex V r src cfg existing = TErr
  \/ exists res, transpose fuel (lens_of T) complex V r src cfg existing = TOk res.
Proof.
  intros T V r src cfg existing complex fuel Hwf. destruct (wf_input_facts _ _ _ _ _ Hwf) as (H1 & H2 & H3).
  exact (transpose_total T V r src cfg existing complex fuel H1 H2 H3).
Qed.

(* the correspondence run: on every well-formed input the specification side of sub-case 0 accepts
   exactly what the model answers (so a run can only report implementation /= specification or
   implementation /= model, never a model/specification divergence), and on the way back (sub-cases
   1, 2) the demanded answer is the model's answer *)
Theorem C16_run_forward_consistent : forall T V r src cfg existing complex fuel,
  wf_input T complex V r src = true -> fuel_for src <= fuel ->
  let m := transpose fuel (lens_of T) complex V r src cfg existing in
  spec_fwd T V r src cfg true (show m) = show m.
Proof. exact run_forward_consistent. Qed.

Theorem C16_run_back_consistent : forall T V r src cfg existing complex fuel rs (auto : bool),
  wf_input T complex V r src = true ->
  transpose fuel (lens_of T) complex V r src cfg existing = TOk rs ->
  let m := TOk rs in
  let cfgf := fun j : nat => if auto then None else Some j in
  spec_back T V r src cfg true auto (show m) (back_model (lens_of T) m cfgf) = back_model (lens_of T) m cfgf.
Proof. exact run_back_consistent. Qed.

(* non-vacuity: "abcdefgh" / "xabcdyefgh", fragments abcd|efgh on both sides, source 2..6 "cdef"
   spans two fragments: resegmented into 2..4, 4..6 and transposed to 3..5, 6..8; transposing the
   result back gives the same offsets; a source reaching 1 beyond the fragments fails *)
Example C16_nonvacuous :
  let T := [[97;98;99;100;101;102;103;104;105]; [120;97;98;99;100;121;101;102;103;104]]%N in
  let V := [[mkfrag 0 0 4; mkfrag 0 4 8]; [mkfrag 1 1 5; mkfrag 1 6 10]] in
  let O := [[mkfrag 0 2 4; mkfrag 0 4 6]; [mkfrag 1 3 5; mkfrag 1 6 8]] in
  wf_input T true V 0 [(2, 6)] = true
  /\ transpose 10 (lens_of T) true V 0 [(2, 6)] None true = TOk (mkres 0 true O)
  /\ check_forward T V 0 [(2, 6)] None (flagged (mkres 0 true O)) = true
  /\ transpose_annotation 10 (lens_of T) true O (nth 1 O []) None = TOk (mkres 1 false O)
  /\ transpose 10 (lens_of T) true V 0 [(6, 9)] None true = TErr.
Proof. vm_compute. repeat split. Qed.
