(* C12  Codepoint/byte conversion is exact; tuning knobs never change answers. *)
From Coq Require Import NArith.
From Stam Require Import Base.Tac Model.Offset Model.Utf8 Proofs.Utf8.

Theorem C12_utf8byte_exact : forall idx t p, Consistent idx t -> p <= length t ->
  utf8byte idx t p = OOk (bytepos t p).
Proof. exact utf8byte_exact. Qed.

Theorem C12_utf8byte_out_of_bounds : forall idx t p, Consistent idx t -> length t < p ->
  utf8byte idx t p = OErr.
Proof. exact utf8byte_oob. Qed.

Theorem C12_charpos_exact : forall b2c t p, Consistent' b2c t -> p <= length t ->
  utf8byte_to_charpos b2c t (bytepos t p) = OOk p.
Proof. exact charpos_exact. Qed.

Theorem C12_charpos_reject : forall b2c t b, Consistent' b2c t ->
  (forall p, p <= length t -> bytepos t p <> b) -> utf8byte_to_charpos b2c t b = OErr.
Proof. exact charpos_reject. Qed.

Theorem C12_no_panic : forall idx t p, Consistent idx t -> utf8byte idx t p <> OPanic.
Proof. exact utf8byte_no_panic. Qed.

(* every reachable index is consistent: milestones for any interval (0 included) ... *)
Theorem C12_milestones_consistent : forall interval t,
  Consistent (fst (milestones interval t)) t /\ Consistent' (snd (milestones interval t)) t.
Proof. exact milestones_consistent. Qed.

(* ... and every annotation inserted afterwards keeps it so (or is refused) *)
Theorem C12_insert_consistent : forall idx b2c t b e, Consistent idx t -> Consistent' b2c t ->
  b <= length t -> e <= length t ->
  exists idx' b2c', insert_selection (idx, b2c) t b e = OOk (idx', b2c')
                    /\ Consistent idx' t /\ Consistent' b2c' t.
Proof. exact insert_selection_consistent. Qed.

Theorem C12_insert_out_of_bounds : forall idx b2c t b e, Consistent idx t ->
  length t < b \/ length t < e -> insert_selection (idx, b2c) t b e = OErr.
Proof. exact insert_selection_oob. Qed.

(* knob independence: the answers depend on the text only *)
Theorem C12_utf8byte_index_independent : forall idx1 idx2 t p,
  Consistent idx1 t -> Consistent idx2 t -> utf8byte idx1 t p = utf8byte idx2 t p.
Proof. exact utf8byte_index_independent. Qed.

Theorem C12_charpos_index_independent : forall m1 m2 t b,
  Consistent' m1 t -> Consistent' m2 t -> utf8byte_to_charpos m1 t b = utf8byte_to_charpos m2 t b.
Proof. exact charpos_index_independent. Qed.

(* sub-selections *)
Theorem C12_sel_utf8byte : forall idx t sb se p, Consistent idx t -> sb <= se -> se <= length t ->
  sel_utf8byte idx t sb se p = if p <=? se - sb then OOk (bytepos (sub t sb se) p) else OErr.
Proof. exact sel_utf8byte_exact. Qed.

Theorem C12_sel_charpos_exact : forall b2c t sb se p, Consistent' b2c t -> sb <= se -> se <= length t ->
  p <= se - sb -> sel_utf8byte_to_charpos b2c t sb se (bytepos (sub t sb se) p) = OOk p.
Proof. exact sel_charpos_exact. Qed.

Theorem C12_sel_charpos_reject : forall b2c t sb se b, Consistent' b2c t -> sb <= se -> se <= length t ->
  (forall p, p <= se - sb -> bytepos (sub t sb se) p <> b) ->
  sel_utf8byte_to_charpos b2c t sb se b = OErr.
Proof. exact sel_charpos_reject. Qed.

Theorem C12_byte_slice_is_codepoint_slice : forall t b e, b <= e -> e <= length t ->
  byte_slice t (bytepos t b) (bytepos t e) = Some (sub t b e).
Proof. exact byte_slice_sub. Qed.

Example C12_nonvacuous :
  let t := [104; 233; 8364; 128512; 33]%N in
  Consistent (fst (milestones 2 t)) t /\ fst (milestones 2 t) = [(2, 3); (4, 10)]
  /\ utf8byte (fst (milestones 2 t)) t 3 = OOk 6
  /\ utf8byte_to_charpos (snd (milestones 2 t)) t 6 = OOk 3
  /\ utf8byte_to_charpos (snd (milestones 2 t)) t 7 = OErr.
Proof.
  cbv zeta. split; [apply milestones_consistent|]. repeat split.
Qed.
