(* C03: public identifiers resolve to exactly the live item that carries them.
   - in every reachable store the id maps are exact (IdInv, per dataset DsInv): an id resolves
     iff a live item carries it, hence ids are unique per kind and stop resolving with removal;
   - a lookup by ANY string (temporary id syntax first, then the id map) equals the scan-based
     meaning; the lookup functions are total (no panic outcome exists in the model: the byte
     slicing of the code is modelled on codepoints after the kind prefix was matched);
   - temporary ids: printing a handle and resolving it gives the handle back; a temporary id
     resolves for one kind only, and only to the number written;
   - compaction (reindex) keeps every id on its item. *)
From Coq Require Import NArith.
From Stam Require Import Base.Tac Model.Offset Model.Store Model.StoreObs Model.TempId Model.Reindex
     Spec.StoreSpec Spec.IdSpec Proofs.StoreSets Proofs.StoreIds Proofs.TempId Proofs.IdLookup.

Theorem C03_id_maps_exact : forall ops, IdInv (run ops).
Proof. exact reachable_IdInv. Qed.

Theorem C03_dataset_id_maps_exact : forall ops, Forall op_ok ops -> SetsInv (run ops).
Proof. exact reachable_SetsInv. Qed.

Theorem C03_resolve_is_scan : forall {X} (idof : X -> option nat) l m tok,
  exact idof l m -> m_resolve l m tok = s_resolve l idof tok.
Proof. intros X. exact (@exact_resolve X). Qed.

Theorem C03_lookup_any_string : forall {X} (k : kind) (l : list (option X)) (idof : X -> option nat) (m : idmap) (s : list N),
  exact idof l m -> (N.of_nat (length l) <= width k)%N ->
  (match lookup_str k l m s with Some h => [h] | None => [] end) = spec_lookup_str k l idof s.
Proof. intros X. exact (@lookup_str_spec X). Qed.

Theorem C03_temp_id_roundtrip : forall k h, (h < width k)%N -> temp_resolve k (temp_id k h) = Some h.
Proof. exact temp_roundtrip. Qed.

Theorem C03_temp_id_one_kind : forall k k' s n n',
  temp_resolve k s = Some n -> temp_resolve k' s = Some n' -> k = k'.
Proof. exact temp_kind_unique. Qed.

Theorem C03_temp_id_sound : forall k s n, temp_resolve k s = Some n ->
  (n < width k)%N /\ exists rest, s = 33%N :: letter k :: rest /\ parse_usize rest = Some n.
Proof. exact temp_resolve_sound. Qed.

Theorem C03_reindex_rank : forall {X} (l : list (option X)) h it,
  slot l h = Some it -> reindex_handle (gaps l) h = h - dead_before l h.
Proof. intros X. exact (@reindex_handle_rank X). Qed.

Theorem C03_reindex_never_redirects : forall {X} (l : list (option X)) (m : idmap) tok h it,
  id_get m tok = Some h -> slot l h = Some it ->
  exists h', id_get (reindex_idmap (gaps l) m) tok = Some h' /\ slot (reindex_store l) h' = Some it.
Proof. intros X. exact (@reindex_keeps_ids X). Qed.

Example C03_nonvacuous :
  temp_resolve KAnn (temp_id KAnn 4294967295) = Some 4294967295%N
  /\ temp_resolve KRes (temp_id KAnn 0) = None
  /\ temp_resolve KSet [33; 83; 54; 53; 53; 51; 54]%N = None            (* "!S65536" *)
  /\ gaps [Some 1; None; None; Some 2; Some 3; None] = [(3, 2)]
  /\ reindex_handle [(3, 2)] 4 = 2.
Proof. repeat split; reflexivity. Qed.
