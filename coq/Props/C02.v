(* C02: removal cascades exactly and never leaves dangling references.
   After ANY history (run ops) every live annotation's target leaves name live annotations
   (ann_refs_ok), existing resources / text selections / datasets / keys / data
   (item_refs_ok), its data references name existing data (data_ok), the indices are exact
   (Inv) - so iterating, looking up and serialising cannot meet a missing item.
   The cascade of remove_annotation: the annotation is gone, every older annotation is
   untouched, survivors are unchanged, nothing but annotation slots and their index entries
   changes, and the call succeeds whenever the annotation exists. *)
From Stam Require Import Base.Tac Model.Offset Model.Store Model.StoreObs Spec.StoreSpec
     Proofs.StoreScan Proofs.StoreInv Proofs.StoreDataDef Proofs.StoreRemove Proofs.StoreRemove2
     Proofs.StoreRemove3 Proofs.StoreData Proofs.StoreExact Proofs.StoreExactData Proofs.StoreSets Proofs.StoreExactKey Proofs.StoreSuccess Proofs.StoreFrame.

Theorem C02_nothing_dangles : forall ops,
  let s := run ops in ann_refs_ok s /\ item_refs_ok s /\ data_ok s.
Proof.
  intros ops. destruct (reachable_Good ops) as (_ & _ & A & B & C). cbv zeta. tauto.
Qed.

Theorem C02_every_step_keeps_the_store_sound : forall s o, Good s -> Good (fst (step s o)).
Proof. exact step_Good. Qed.

Theorem C02_remove_annotation_cascade : forall ex fuel s h,
  InvE ex s -> wf_targets s -> length (anns s) - h < fuel ->
  let '(s', r) := remove_ann fuel s h in
  Post ex h s s'
  /\ (forall a, get_ann s h = Some a -> get_ann s' h = None /\ r = OOk h)
  /\ (get_ann s h = None -> s' = s).
Proof. exact remove_ann_Post. Qed.

(* the fuel the public operations pass is always enough *)
Theorem C02_fuel_suffices : forall s c, length (anns s) - c < fuel_of s.
Proof. exact fuel_ok. Qed.

(* remove_data (strict or not) on an existing item: survivors keep their targets and lose at
   most the removed data; the resources are untouched *)
Theorem C02_remove_data : forall s d x strict,
  Inv s -> wf_targets s ->
  ((exists ds it, get_set s d = Some ds /\ slot (d_data ds) x = Some it) \/ tget (ddam s) d x = []) ->
  let s' := fst (remove_data_h s d x strict) in
  Inv s' /\ wf_targets s' /\ later s s' /\ ress s' = ress s.
Proof.
  intros s d x strict HI Hwf Hex. destruct (remove_data_h_Inv s d x strict HI Hwf Hex) as (A & B & C & D & _).
  cbv zeta. tauto.
Qed.

(* exactly the dependants: after remove_annotation of a live annotation h in ANY reachable store,
   a previously live annotation is gone iff it is in the dependency closure the specification
   computes by scans (deps_ann: h and everything that targets it, transitively) *)
Theorem C02_remove_annotation_exact : forall ops h,
  let s := run ops in
  get_ann s h <> None ->
  forall x, get_ann s x <> None ->
    (get_ann (fst (remove_ann (fuel_of s) s h)) x = None <-> In x (deps_ann s h)).
Proof.
  intros ops h s Hh x Hx. destruct (reachable_Good ops) as (HI & Hwf & _ & Hrf & _).
  apply (remove_annotation_is_deps s h HI Hwf Hrf Hh x Hx).
Qed.

Theorem C02_remove_resource_exact : forall ops r h,
  let s := run ops in
  ref_res s r = Some h ->
  forall x, get_ann s x <> None ->
    (get_ann (fst (rm_resource s r)) x = None <-> In x (deps_res s h)).
Proof.
  intros ops r h s Hr x Hx. destruct (reachable_Good ops) as (HI & Hwf & _ & Hrf & _).
  apply (rm_resource_exact s r h HI Hwf Hrf Hr x Hx).
Qed.

Theorem C02_remove_dataset_exact : forall ops r h,
  let s := run ops in
  ref_set s r = Some h ->
  forall x, get_ann s x <> None ->
    (get_ann (fst (rm_dataset s r)) x = None <-> In x (deps_set s h)).
Proof.
  intros ops r h s Hr x Hx. destruct (reachable_Good ops) as (HI & Hwf & _ & Hrf & _).
  apply (rm_dataset_exact s r h HI Hwf Hrf Hr x Hx).
Qed.

(* remove_data, strict or not, in ANY reachable store: a previously live annotation is gone iff it
   is in the closure the specification computes (strict: every annotation using the data item;
   non-strict: those left without data; both: those that target the data item; and everything
   that reaches one of them), and every survivor is what it was minus that data item *)
Theorem C02_remove_data_exact : forall ops d x strict,
  let s := run ops in
  let s' := fst (remove_data_h s d x strict) in
  (forall y, get_ann s y <> None -> (get_ann s' y = None <-> In y (deps_data s d x strict)))
  /\ (forall y a', get_ann s' y = Some a' -> exists a, get_ann s y = Some a /\ a' = ann_remove_data a d x).
Proof.
  intros ops d x strict s. destruct (reachable_Good ops) as (HI & Hwf & _ & Hrf & _).
  destruct (remove_data_h_exact s d x strict HI Hwf Hrf) as (A & B). split; [exact A|].
  intros y a' Hy. destruct (B y a' Hy) as (a & Ha & He & _). exists a. tauto.
Qed.

(* remove_key, strict or not, of an existing key in ANY reachable store (built by operations that
   give data items ids, not handles - op_ok): a previously live annotation is gone iff it is in the
   closure the specification computes (strict: every annotation using a data item of the key;
   non-strict: those all of whose data belongs to the key; both: those that target the key or one
   of its data items; and everything that reaches one of them), and every survivor is what it was
   minus the data items of the key *)
Theorem C02_remove_key_exact : forall ops dr kr strict d ds k tok,
  Forall op_ok ops ->
  let s := run ops in
  to_handle (sidx s) dr = Some d -> get_set s d = Some ds -> to_handle (d_kidx ds) kr = Some k ->
  slot (d_keys ds) k = Some tok ->
  let s' := fst (rm_key s dr kr strict) in
  (forall y, get_ann s y <> None -> (get_ann s' y = None <-> In y (deps_key s ds d k strict)))
  /\ (forall y a', get_ann s' y = Some a' -> exists a, get_ann s y = Some a /\ a' = stripk (s_key_data ds k) d a).
Proof.
  intros ops dr kr strict d ds k tok Hok s. apply (rm_key_exact s dr kr strict d ds k tok (reachable_Good ops) (reachable_SetsInv ops Hok)).
Qed.

(* "succeeds whenever the item exists": every removal reports Ok for a request naming a live item *)
Theorem C02_removals_succeed : forall ops,
  let s := run ops in
  (forall r h, ref_ann s r = Some h -> snd (rm_annotation s r) = OOk h)
  /\ (forall r h, ref_res s r = Some h -> snd (rm_resource s r) = OOk h)
  /\ (forall r h, ref_set s r = Some h -> snd (rm_dataset s r) = OOk h)
  /\ (forall dr xr strict d ds x it, to_handle (sidx s) dr = Some d -> get_set s d = Some ds ->
        to_handle (d_xidx ds) xr = Some x -> slot (d_data ds) x = Some it -> snd (rm_data s dr xr strict) = OOk x)
  /\ (forall dr kr strict d ds k tok, to_handle (sidx s) dr = Some d -> get_set s d = Some ds ->
        to_handle (d_kidx ds) kr = Some k -> slot (d_keys ds) k = Some tok -> snd (rm_key s dr kr strict) = OOk k).
Proof.
  intros ops s. destruct (reachable_Good ops) as (HI & Hwf & _).
  split; [intros r h; apply (rm_annotation_ok noex s r h HI Hwf)|].
  split; [exact (rm_resource_ok s)|]. split; [exact (rm_dataset_ok s)|]. split; [exact (rm_data_ok s)|exact (rm_key_ok s)].
Qed.

(* "touches nothing else" (resources and datasets; the annotations are covered by the exactness
   theorems): in ANY store, remove_annotation leaves resources and datasets alone; remove_resource
   empties that one resource slot; remove_dataset that one dataset slot; remove_data takes exactly
   that item out of its dataset (slot, id, key_data_map entry); remove_key empties exactly the key
   slot and the slots of the data items of the key, all other datasets and the resources untouched *)
Theorem C02_touches_nothing_else : forall s,
  (forall r, let s' := fst (rm_annotation s r) in sets s' = sets s /\ ress s' = ress s /\ sidx s' = sidx s /\ ridx s' = ridx s)
  /\ (forall r h, ref_res s r = Some h -> let s' := fst (rm_resource s r) in
         sets s' = sets s /\ sidx s' = sidx s /\ ress s' = set_slot (ress s) h None)
  /\ (forall r h, ref_set s r = Some h -> let s' := fst (rm_dataset s r) in
         ress s' = ress s /\ ridx s' = ridx s /\ sets s' = set_slot (sets s) h None)
  /\ (forall d x strict ds it, get_set s d = Some ds -> slot (d_data ds) x = Some it ->
         let s' := fst (remove_data_h s d x strict) in
         ress s' = ress s /\ sidx s' = sidx s /\ ridx s' = ridx s /\ sets s' = set_slot (sets s) d (Some (ds_without ds x it)))
  /\ (forall dr kr strict d ds k tok, to_handle (sidx s) dr = Some d -> get_set s d = Some ds ->
         to_handle (d_kidx ds) kr = Some k -> slot (d_keys ds) k = Some tok ->
         let s' := fst (rm_key s dr kr strict) in
         ress s' = ress s /\ ridx s' = ridx s /\ sidx s' = sidx s
         /\ (forall d0, d0 <> d -> get_set s' d0 = get_set s d0)
         /\ exists ds', get_set s' d = Some ds' /\ d_id ds' = d_id ds
            /\ (forall k0, slot (d_keys ds') k0 = if Nat.eqb k0 k then None else slot (d_keys ds) k0)
            /\ (forall x, slot (d_data ds') x = if existsb (Nat.eqb x) (rget (d_k2x ds) k) then None else slot (d_data ds) x)).
Proof.
  intros s. split; [exact (rm_annotation_frame s)|]. split; [exact (rm_resource_frame s)|].
  split; [exact (rm_dataset_frame s)|]. split; [exact (remove_data_h_frame s)|exact (rm_key_frame s)].
Qed.

(* the closure of the specification is reachability along "targets an annotation" edges *)
Theorem C02_closure_meaning : forall s D x, wf_targets s -> x < length (anns s) ->
  (In x (closure s D) <-> In x D \/ reach s D x).
Proof. exact closure_is_reach. Qed.

Example C02_nonvacuous :
  let ops := [AddRes 0 6; AddSet 0;
              Annotate (mkab (Some 0) (Some (BText (ById 0) (mkoff (CB 0) (CB 3)))) [mkdb (ById 0) None (Some (ById 0)) VNull]);
              Annotate (mkab (Some 1) (Some (BAnn (ById 0) (Some (mkoff (CB 0) (CB 1))))) []);
              Annotate (mkab (Some 2) (Some (BAnn (ById 1) None)) []);
              Annotate (mkab (Some 3) (Some (BKey (ById 0) (ById 0))) [])] in
  let s := run ops in
  Good s /\ get_ann (fst (step s (RmRes (ById 0)))) 2 = None /\ get_ann (fst (step s (RmRes (ById 0)))) 3 <> None
  /\ get_ann (fst (step s (RmSet (ById 0)))) 3 = None /\ get_ann (fst (step s (RmSet (ById 0)))) 0 = None.
Proof.
  cbv zeta. split; [apply reachable_Good|]. repeat split; try (vm_compute; reflexivity). vm_compute. discriminate.
Qed.

(* a key that was only declared (AnnotationDataSet::insert(DataKey::new(..)): no data, possibly beyond
   the key -> data index) is an item like any other: histories contain the declaration (AddKey), so
   the exactness, success and frame theorems above cover its removal; concretely: *)
Example C02_declared_key_is_removed :
  let ops := [AddSet 0; InsData (mkdb (ById 0) None (Some (ById 1)) VNull); AddKey (ById 0) 3] in
  snd (step (run ops) (RmKey (ById 0) (ById 3) true)) = OOk 1
  /\ (match get_set (fst (step (run ops) (RmKey (ById 0) (ById 3) true))) 0 with
      | Some ds => ref_key ds (ById 3) = None /\ ref_key ds (ById 1) = Some 0
      | None => False
      end)
  /\ (match get_set (run ops) 0 with Some ds => ref_key ds (ById 3) = Some 1 | None => False end).
Proof. vm_compute. repeat split. Qed.
