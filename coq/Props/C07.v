(* C07  Text search and partition operations agree with plain string operations.
   Texts are lists of scalar values; a selection is (begin, end) in absolute codepoint positions
   (the whole resource = (0, length t)).  The engines str::find and str::split enter through the
   hypotheses find_ok / split_ok (what they return, in UTF-8 bytes of the searched slice); the regex
   crate's matches are the oracle input of C07_regex_offsets.  Right-hand sides are the plain-string
   meanings of Spec/TextOpsSpec.v, whose own meaning is given by the C07_match_indices_*,
   C07_split_*, C07_trim_meaning and C07_segments_* theorems. *)
From Coq Require Import NArith.
From Coq Require Import Permutation.
From Stam Require Import Base.Tac Model.Offset Model.Utf8 Model.TextOps Spec.TextOpsSpec Proofs.TextOps
  Proofs.TextOpsMerge Proofs.TextOpsRegex.

Definition find_ok (find_b : text -> text -> option nat) : Prop :=
  forall hay nd, find_b hay nd = option_map (bytepos hay) (first_occ nd hay).
Definition split_ok (split_b : text -> text -> list (nat * nat)) : Prop :=
  forall hay d, split_b hay d
    = map (fun r => (bytepos hay (fst r), bytepos hay (snd r) - bytepos hay (fst r))) (split_spec d hay).

(* ---- exact search ---- *)
(* find_text on a resource or inside any sub-selection = the leftmost non-overlapping occurrences
   of the needle in the plain text of the selection, at their absolute positions, in order; the
   iterator terminates and never panics.  Empty needle included (one empty match per position). *)
Theorem C07_find_text : forall find_b, find_ok find_b ->
  forall t nd sb se, sb <= se -> se <= length t ->
  find_text find_b t nd sb se = (map (shift sb) (match_indices nd (sub t sb se)), Done).
Proof. exact find_text_spec. Qed.

Theorem C07_store_find_text : forall find_b, find_ok find_b ->
  forall nd ts i, store_find find_b i ts nd = (store_indices i ts nd, Done).
Proof. exact store_find_spec. Qed.

(* what match_indices is: every reported range has exactly the needle as text ... *)
Theorem C07_match_indices_sound : forall nd hay m, In m (match_indices nd hay) ->
  snd m <= length hay /\ subtext hay (fst m) (snd m) = nd.
Proof. exact match_indices_sound. Qed.
(* ... ranges are in order, inside the text and do not overlap ... *)
Theorem C07_match_indices_ordered : forall nd hay, chain 0 (match_indices nd hay) (length hay).
Proof. exact match_indices_ordered. Qed.
(* ... and no occurrence is missed: each one is reported or overlaps a reported one to its left *)
Theorem C07_match_indices_maximal : forall nd hay p,
  p + length nd <= length hay -> subtext hay p (p + length nd) = nd ->
  exists m, In m (match_indices nd hay) /\ fst m <= p /\ p < Nat.max (snd m) (S (fst m)).
Proof. exact match_indices_maximal. Qed.

(* ---- case-insensitive search ---- *)
(* guarded by the known class: no character of the searched text changes UTF-8 length (or
   becomes several characters) when lower-cased *)
Theorem C07_find_text_nocase : forall find_b, find_ok find_b ->
  forall lc t nd sb se, Known_C07_nocase_len lc (sub t sb se) = false -> sb <= se -> se <= length t ->
  find_text_nocase find_b (flat_map lc) t nd sb se
  = (map (shift sb) (nocase_indices lc (flat_map lc nd) (sub t sb se)), Done).
Proof. exact find_text_nocase_guarded. Qed.

(* outside the class the case-insensitive ranges are the exact ranges of the lower-cased text *)
Theorem C07_nocase_indices_meaning : forall lc g nd hay pos skip, (forall c, In c hay -> lc c = [g c]) ->
  nocase_go lc nd hay pos skip = match_indices_go nd (map g hay) pos skip.
Proof. intros. apply nocase_go_map. assumption. Qed.

(* inside the class the faithful model panics ("İx" / "x") or reports a wrong range ("ẞab" / "b": 1..2 = "a" first) *)
Theorem C07_nocase_refuted :
  Known_C07_nocase_len lc_witness [304; 120]%N = true
  /\ find_text_nocase find_b_ref (flat_map lc_witness) [304; 120]%N [120]%N 0 2 = ([], Panicked)
  /\ nocase_indices lc_witness [120]%N [304; 120]%N = [(1, 2)]
  /\ Known_C07_nocase_len lc_witness [7838; 97; 98]%N = true
  /\ find_text_nocase find_b_ref (flat_map lc_witness) [7838; 97; 98]%N [98]%N 0 3 = ([(1, 2); (2, 3)], Done)
  /\ nocase_indices lc_witness [98]%N [7838; 97; 98]%N = [(2, 3)].
Proof. exact nocase_refuted. Qed.

(* ---- split ---- *)
Theorem C07_split_text : forall split_b, split_ok split_b ->
  forall t d sb se, sb <= se -> se <= length t ->
  split_text split_b t d sb se = (map (shift sb) (split_spec d (sub t sb se)), Done).
Proof. exact split_text_spec. Qed.

(* the pieces partition the text: joined with the delimiter they give it back ... *)
Theorem C07_split_join : forall d hay,
  join d (map (fun r => subtext hay (fst r) (snd r)) (split_spec d hay)) = hay.
Proof. exact split_join. Qed.
(* ... the first begins at 0, the last ends at the end, consecutive ones are separated by exactly
   one occurrence of the delimiter, all lie inside the text *)
Theorem C07_split_partition : forall d hay,
  let ps := split_spec d hay in
  (exists e, hd_error ps = Some (0, e)) /\ (exists b, last ps (0, 0) = (b, length hay))
  /\ pieces_sep d hay ps
  /\ forall r, In r ps -> fst r <= snd r /\ snd r <= length hay.
Proof. exact split_partition. Qed.

(* ---- trim ---- *)
Theorem C07_trim_text : forall inset t sb se, sb <= se -> se <= length t ->
  trim_text inset t sb se = OOk (shift sb (trim_spec inset (sub t sb se))).
Proof. exact trim_text_spec. Qed.

Theorem C07_trim_meaning : forall f hay,
  let r := trim_spec f hay in
  fst r <= snd r /\ snd r <= length hay
  /\ subtext hay (fst r) (snd r) = rev (dropwhile f (rev (dropwhile f hay)))
  /\ forallb f (firstn (fst r) hay) = true /\ forallb f (skipn (snd r) hay) = true.
Proof. exact trim_spec_text. Qed.

(* ---- regular expressions: offsets ---- *)
(* an oracle group (s, e) in bytes of the searched slice, on character boundaries ps <= pe, is
   reported as (sb + ps, sb + pe), and that range of the resource has the matched text *)
Theorem C07_regex_offsets : forall t sb se g ps pe, sb <= se -> se <= length t ->
  on_boundaries (sub t sb se) g ps pe ->
  conv_group t (bytepos t sb) g = OOk (sb + ps, sb + pe)
  /\ sub t (sb + ps) (sb + pe) = sub (sub t sb se) ps pe
  /\ char_index (sub t sb se) (fst g) = Some ps /\ char_index (sub t sb se) (snd g) = Some pe.
Proof. exact regex_offsets. Qed.

(* the merge of the matches of several expressions (FindRegexIter::next with its buffers), for any
   begin/end measure: all matches in stable order by begin; without allow_overlap minus those that
   begin inside an earlier result.  Per expression the matches must come in order, each later one
   beginning after the begin and not before the end of an earlier one (what the regex crate yields) *)
Theorem C07_regex_merge : forall (X : Type) (kb ke : X -> nat) fuel allow (ss : list (list X)),
  length (tag_from 0 ss) < fuel -> Forall (okstream kb ke) ss ->
  regex_merge kb ke fuel allow ss = merge_spec kb ke allow ss.
Proof. exact @merge_spec_eq. Qed.

Theorem C07_merge_allow_meaning : forall (X : Type) (kb ke : X -> nat) (ss : list (list X)),
  Forall (incr kb) ss ->
  Permutation (merge_spec kb ke true ss) (tag_from 0 ss)
  /\ StronglySorted (klt kb) (merge_spec kb ke true ss).
Proof. exact @merge_spec_allow_meaning. Qed.

Theorem C07_merge_nooverlap_meaning : forall (X : Type) (kb ke : X -> nat) (ss : list (list X)),
  separated kb ke 0 (merge_spec kb ke false ss)
  /\ (forall x, In x (merge_spec kb ke false ss) -> In x (tag_from 0 ss))
  /\ (forall x, In x (tag_from 0 ss) -> ~ In x (merge_spec kb ke false ss) ->
      exists y, In y (merge_spec kb ke false ss) /\ kb (snd x) < ke (snd y)).
Proof. exact @merge_spec_nooverlap_meaning. Qed.

(* find_text_regex as a whole, any number of expressions with or without capture groups, on a
   resource or a sub-selection: with the engine's matches on the plain slice as oracle input
   (oracle_ok: groups on character boundaries inside the whole match, matches of one expression in
   order) it returns exactly regex_spec: never panics, expression indices, capture group numbers,
   absolute positions, order and overlap rule *)
Theorem C07_find_text_regex : forall t es allow sb se, sb <= se -> se <= length t ->
  oracle_ok (sub t sb se) es ->
  exists l, regex_spec (sub t sb se) sb es allow = Some l
            /\ find_text_regex t es allow sb se = (l, Done).
Proof. exact find_text_regex_spec. Qed.

(* ---- segmentation ---- *)
Theorem C07_segmentation : forall interval t known,
  segmentation interval t known = segments_spec known 0 (length t).
Proof. exact segmentation_spec. Qed.

Theorem C07_segmentation_in_range : forall interval t known b e, b <= e -> e <= length t ->
  segmentation_in_range interval t known b e = segments_spec known b e.
Proof. exact segmentation_in_range_spec. Qed.

(* the segments are consecutive, non-empty and cover [lo, hi) ... *)
Theorem C07_segments_contiguous : forall known lo hi, lo < hi ->
  contiguous lo (segments_spec known lo hi) hi.
Proof. exact segments_contiguous. Qed.
(* ... and are cut exactly at the positions strictly inside where a known selection begins or ends *)
Theorem C07_segments_cut_points : forall known lo hi p, lo < hi ->
  In p (tl (map fst (segments_spec known lo hi))) <-> lo < p /\ p < hi /\ is_boundary known p = true.
Proof. exact segments_cut_points. Qed.

(* ---- sequences ---- *)
Theorem C07_find_text_sequence : forall find_b, find_ok find_b ->
  forall skip t frags sb se, sb <= se -> se <= length t ->
  find_text_sequence find_b (fun x => x) skip t frags sb se
  = OOk (option_map (map (shift sb)) (sequence_spec match_indices skip (sub t sb se) 0 frags)).
Proof. exact find_text_sequence_spec. Qed.

Theorem C07_find_text_sequence_nocase : forall find_b, find_ok find_b ->
  forall lc skip t frags sb se, Known_C07_nocase_len lc (sub t sb se) = false -> sb <= se -> se <= length t ->
  find_text_sequence find_b (flat_map lc) skip t frags sb se
  = OOk (option_map (map (shift sb))
           (sequence_spec (fun f h => nocase_indices lc (flat_map lc f) h) skip (sub t sb se) 0 frags)).
Proof. exact find_text_sequence_nocase_guarded. Qed.

(* non-vacuity: the hypotheses are satisfiable and the statements say something.
   "ab,cd,é😀 x" : selection 3..9 = "cd,é😀 " *)
Example C07_nonvacuous :
  let t := [97; 98; 44; 99; 100; 44; 233; 128512; 32; 120]%N in
  find_ok find_b_ref /\ split_ok split_b_ref
  /\ find_text find_b_ref t [44]%N 3 9 = ([(5, 6)], Done)
  /\ find_text find_b_ref t [] 8 10 = ([(8, 8); (9, 9); (10, 10)], Done)
  /\ split_text split_b_ref t [44]%N 3 9 = ([(3, 5); (6, 9)], Done)
  /\ trim_text (fun c => (c =? 32)%N || (c =? 99)%N) t 3 9 = OOk (4, 8)
  /\ segmentation_in_range 3 t [(0, 5); (6, 7)] 3 9 = [(3, 5); (5, 6); (6, 7); (7, 9)]
  /\ find_text_sequence find_b_ref (fun x => x) (fun c => (c =? 44)%N) t [[99; 100]; [233]]%N 3 9
     = OOk (Some [(3, 5); (6, 7)])
  /\ conv_group t 3 (3, 9) = OOk (6, 8)
  /\ find_text_regex [97; 97; 97; 97]%N
       [(false, [[Some (0, 4)]]); (false, [[Some (0, 1)]; [Some (1, 2)]; [Some (2, 3)]; [Some (3, 4)]])] false 0 4
     = ([(0, ([], [(0, 4)]))], Done)
  /\ oracle_ok [97; 97; 97; 97]%N
       [(false, [[Some (0, 4)]]); (false, [[Some (0, 1)]; [Some (1, 2)]; [Some (2, 3)]; [Some (3, 4)]])].
Proof.
  cbv zeta.
  assert (M : forall a b, a <= b -> b <= 4 -> match_ok [97; 97; 97; 97]%N [Some (a, b)]).
  { intros a b H1 H2. exists (a, b), [], a, b. split; [reflexivity|]. split; [|constructor].
    repeat split; [assumption|cbn; assumption|].
    do 5 (try destruct a as [|a]); do 5 (try destruct b as [|b]); try lia; reflexivity. }
  repeat split.
  repeat constructor; cbn; try lia; try (apply M; lia).
  all: repeat (destruct H as [<-|H]; [cbn; lia|]); contradiction.
Qed.
