(* C07  Text search and partition operations agree with plain string operations. *)
From Coq Require Import NArith.
From Stam Require Import Base.Tac Model.Offset Model.Utf8 Model.TextOps Spec.TextOpsSpec Proofs.TextOps.

(* find_text on a resource or inside any sub-selection = the leftmost non-overlapping
   occurrences of the needle in the plain text of the selection, shifted to absolute positions;
   the iterator ends (no fuel exhaustion) and never panics.  Empty needle included. *)
Theorem C07_find_text : forall (find_b : text -> text -> option nat),
  (forall hay nd, find_b hay nd = option_map (bytepos hay) (first_occ nd hay)) ->
  forall t nd sb se, sb <= se -> se <= length t ->
  find_text find_b t nd sb se = (map (shift sb) (match_indices nd (sub t sb se)), Done).
Proof. exact find_text_spec. Qed.

Theorem C07_find_text_nocase : forall (find_b : text -> text -> option nat),
  (forall hay nd, find_b hay nd = option_map (bytepos hay) (first_occ nd hay)) ->
  forall lc g t nd sb se, LenPres lc g t -> sb <= se -> se <= length t ->
  find_text_nocase find_b (flat_map lc) t nd sb se
  = (map (shift sb) (nocase_indices lc (flat_map lc nd) (sub t sb se)), Done).
Proof. exact find_text_nocase_spec. Qed.

Theorem C07_store_find_text : forall (find_b : text -> text -> option nat),
  (forall hay nd, find_b hay nd = option_map (bytepos hay) (first_occ nd hay)) ->
  forall nd ts i, store_find find_b i ts nd = (store_indices i ts nd, Done).
Proof. exact store_find_spec. Qed.
