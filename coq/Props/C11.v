(* C11: a CBOR round trip preserves the store and all of its indices.

   The store is saved as the derive-generated encoding of the AnnotationStore struct, every
   reverse index and id map being an ordinary indexed field of it.  At the level of the wire
   schema the property is: decoding the encoding of ANY well-typed value tree of ANY well-formed
   schema returns that value, up to the fields the schema itself declares as not stored
   (C11_roundtrip_generic).  The schema of the crate is extracted from the source on every run
   and checked to be well-formed (C11_schema_wf), so the theorem holds for the store type with
   all its items, indices, gaps (None slots) and nested selectors (C11_store_roundtrip); the
   only state lost is the allowed list (C11_skipped_rederivable). *)
From Coq Require Import String.
From Coq Require Import List Bool NArith.
Import ListNotations.
From Stam Require Import Model.Cbor Spec.CborSpec Proofs.Cbor Proofs.AgreeCbor Gen.CborSchema.

Theorem C11_roundtrip_generic : forall (S : schema), wf_schema S = true ->
  forall t v rest, ty_wf S t = true -> ht S t v = true ->
  dec S (Datatypes.S (vdepth v)) t (enc S t v ++ rest) = Some (reload S t v, rest).
Proof. exact roundtrip_generic. Qed.

Theorem C11_schema_wf : wf_schema extracted_schema = true.
Proof. exact schema_wf. Qed.

Theorem C11_store_roundtrip : forall v rest,
  ht extracted_schema (TRef (i_ "AnnotationStore")) v = true ->
  dec extracted_schema (S (vdepth v)) (TRef (i_ "AnnotationStore")) (enc extracted_schema (TRef (i_ "AnnotationStore")) v ++ rest)
  = Some (reload extracted_schema (TRef (i_ "AnnotationStore")) v, rest).
Proof. exact store_roundtrip. Qed.

Theorem C11_skipped_rederivable :
  only_allowed_erased extracted_schema = true /\ codecs_known extracted_schema = true.
Proof. exact (conj erased_agree codecs_agree). Qed.

(* model = specification for the struct body: what the generated encoder does (fields sorted by
   index, the running max test, gaps filled with null, fields beyond the max left out) is the
   slot array of the specification, whenever the indices are unique *)
Theorem C11_derive_writes_slot_array : forall fs encs nils,
  nodup_nat (idxs fs) = true -> length encs = length fs -> length nils = length fs ->
  enc_rec fs encs nils = enc_rec_spec fs encs nils.
Proof. exact enc_rec_is_spec. Qed.

(* a loaded store is well-typed and at rest: a second save/load generation is the identity *)
Theorem C11_reload_at_rest : forall (S : schema), wf_schema S = true ->
  forall t v, ty_wf S t = true -> ht S t v = true ->
  ht S t (reload S t v) = true /\ reload S t (reload S t v) = reload S t v.
Proof. exact erase_at_rest. Qed.

Theorem C11_second_generation : forall (S : schema), wf_schema S = true ->
  forall t v rest, ty_wf S t = true -> ht S t v = true ->
  exists fuel, dec S fuel t (enc S t (reload S t v) ++ rest) = Some (reload S t v, rest).
Proof. exact second_generation. Qed.

(* the file determines the loaded store *)
Theorem C11_file_determines_store : forall (S : schema), wf_schema S = true ->
  forall t v1 v2, ty_wf S t = true -> ht S t v1 = true -> ht S t v2 = true ->
  enc S t v1 = enc S t v2 -> reload S t v1 = reload S t v2.
Proof. exact enc_injective. Qed.

(* what is written is one well-formed CBOR data item: every array/map header is followed by
   exactly the announced number of items (this failed before fix 490109d) *)
Theorem C11_encoding_wellformed : forall (S : schema), wf_schema S = true ->
  forall t v, ty_wf S t = true -> ht S t v = true -> wellformed_items 1 (enc S t v) = true.
Proof. exact encoding_wellformed. Qed.

(* byte level: shortest-form heads read back *)
Theorem C11_bytes_roundtrip : forall ts fuel, forallb tok_ok ts = true -> length ts <= fuel ->
  toks_of_bytes fuel (bytes_of_toks ts) = Some ts.
Proof. exact bytes_roundtrip. Qed.

(* to_cbor_file followed by from_cbor_file, bytes to bytes *)
Theorem C11_file_roundtrip : forall (S : schema), wf_schema S = true ->
  forall t v, ty_wf S t = true -> ht S t v = true ->
  forallb tok_ok (enc S t v) = true -> vdepth v <= length (enc S t v) ->
  load_bytes S t (save_bytes S t v) = Some (reload S t v).
Proof. exact file_roundtrip. Qed.

(* non-vacuity: a concrete schema-typed value with a gap (None slot), a nested enum and a map
   round trips through the token stream *)
Example C11_nonvacuous :
  let S := extracted_schema in
  let ann := VRec [VSome (VRec [VN 1]); VSome (VS [97%N]);
                   VSeq [VSeq [VRec [VN 0]; VRec [VN 2]]];
                   VVar 4 [VSeq [VVar 2 [VRec [VN 0]]; VVar 1 [VRec [VN 0]; VNone]]]] in
  let v := VSeq [VNone; VSome ann] in
  let t := TVec (TOpt (TRef (i_ "Annotation"))) in
  ht S t v = true /\ dec S 10 t (enc S t v ++ [TNull]) = Some (v, [TNull]).
Proof. vm_compute. split; reflexivity. Qed.
