(* C14: failed mutations.  When an adding operation of the model returns an error, the
   annotations, the annotation id map and all seven reverse indices are untouched, and so is the
   resource id map; the only parts that can differ are the text selections known to resources
   (known class 1), the datasets with their keys and data, and the dataset id map (known class 2).
   If those do not differ, the store is identical - so every observation is unchanged and a
   corrected call behaves as if the failed one had never happened.  The two classes are real:
   witnesses below. *)
From Stam Require Import Base.Tac Model.Offset Model.Store Model.StoreExt Model.StoreObs Spec.StoreSpec
     Proofs.StoreInv Proofs.StoreErr.

Theorem C14_failed_add_frame : forall s o s',
  match o with AddRes _ _ | AddSet _ | InsData _ | Annotate _ => True | _ => False end ->
  step s o = (s', OErr) ->
  same_core s s' /\ ridx s' = ridx s
  /\ (ress s' = ress s -> sets s' = sets s -> sidx s' = sidx s -> s' = s).
Proof. exact step_err_frame. Qed.

Theorem C14_failed_annotate_frame : forall s b s', annotate s b = (s', OErr) ->
  same_core s s' /\ ridx s' = ridx s
  /\ (ress s' = ress s -> sets s' = sets s -> sidx s' = sidx s -> s' = s).
Proof. exact annotate_err_frame. Qed.

(* add_dataset with data items is built aside: a failure changes nothing at all *)
Theorem C14_failed_add_dataset_with_data : forall s id items s',
  add_set_with s id items = (s', OErr) -> s' = s.
Proof.
  intros s id items s' H. unfold add_set_with in H.
  destruct (build_items _ items); [|inversion H; reflexivity].
  destruct (id_get (sidx s) id) as [h|]; [|discriminate].
  destruct (get_set s h) as [ex|]; [destruct (dset_eqb ex d)|]; inversion H; reflexivity.
Qed.

(* class 1: the target's text selection stays behind when the data step fails *)
Example Known_C14_textselection_left_witness :
  let s := run [AddRes 0 5] in
  let b := mkab None (Some (BText (ById 0) (mkoff (CB 1) (CB 2)))) [mkdb (ByHandle 7) None None VNull] in
  snd (annotate s b) = OErr /\ ress (fst (annotate s b)) <> ress s.
Proof. cbv zeta. split; [reflexivity|discriminate]. Qed.

(* class 2: the dataset and key created for the first data item stay behind when the target fails later *)
Example Known_C14_vocabulary_left_witness :
  let s := run [AddRes 0 5] in
  let b := mkab None (Some (BComplex 1 [BRes (ById 0)])) [mkdb (ById 1) None (Some (ById 0)) VNull; mkdb (ById 1) None None VNull] in
  snd (annotate s b) = OErr /\ sets (fst (annotate s b)) <> sets s.
Proof. cbv zeta. split; [reflexivity|discriminate]. Qed.

(* outside the classes: an unknown resource changes nothing at all *)
Example C14_nonvacuous :
  let s := run [AddRes 0 5; AddSet 0] in
  let b := mkab (Some 1) (Some (BText (ById 9) (mkoff (CB 1) (CB 2)))) [mkdb (ById 0) None (Some (ById 0)) VNull] in
  annotate s b = (s, OErr).
Proof. reflexivity. Qed.
