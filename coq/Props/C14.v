(* C14: failed mutations.  When an adding operation of the model returns an error, the
   annotations, the annotation id map and all seven reverse indices are untouched, and so is the
   resource id map; the only parts that can differ are the text selections known to resources
   (known class 1), the datasets with their keys and data, and the dataset id map (known class 2).
   If those do not differ, the store is identical - so every observation is unchanged and a
   corrected call behaves as if the failed one had never happened.  The two classes are real:
   witnesses below. *)
From Stam Require Import Base.Tac Model.Offset Model.Store Model.StoreExt Model.StoreObs Spec.StoreSpec
     Proofs.StoreInv Proofs.StoreErr Proofs.StoreSel Proofs.StoreGrow.

Theorem C14_failed_add_frame : forall s o s',
  match o with AddRes _ _ | AddSet _ | InsData _ | Annotate _ => True | _ => False end ->
  step s o = (s', OErr) ->
  same_core s s' /\ ridx s' = ridx s
  /\ (ress s' = ress s -> sets s' = sets s -> sidx s' = sidx s -> s' = s).
Proof. exact step_err_frame. Qed.

Theorem C14_failed_annotate_frame : forall s b s', annotate s b = (s', OErr) ->
  same_core s s' /\ ridx s' = ridx s
  /\ (ress s' = ress s -> sets s' = sets s -> sidx s' = sidx s -> s' = s).
Proof. exact annotate_err_frame. Qed.

(* add_dataset with data items is built aside: a failure changes nothing at all *)
Theorem C14_failed_add_dataset_with_data : forall s id items s',
  add_set_with s id items = (s', OErr) -> s' = s.
Proof.
  intros s id items s' H. unfold add_set_with in H.
  destruct (build_items _ items); [|inversion H; reflexivity].
  destruct (id_get (sidx s) id) as [h|]; [|discriminate].
  destruct (get_set s h) as [ex|]; [destruct (dset_eqb ex d)|]; inversion H; reflexivity.
Qed.

(* Inside the known classes too, the leftover is purely additive: after any history, a failed
   add_resource / add_dataset / insert_data / annotate leaves every resource with its text
   selections under the same handles (new ones only appended), every dataset with its keys and
   data under the same handles (new ones only appended), and every reference - by public id or by
   handle, to a resource, dataset, key or data item - that resolved before resolves to the same
   item.  Nothing that existed is removed, renumbered or renamed by a failed call. *)
Theorem C14_failed_call_only_adds : forall ops o s',
  match o with AddRes _ _ | AddSet _ | InsData _ | Annotate _ => True | _ => False end ->
  step (run ops) o = (s', OErr) ->
  same_core (run ops) s' /\ ress_ext (run ops) s' /\ sets_ext (run ops) s'.
Proof. exact reachable_err_grows. Qed.

(* A failed batch (annotate_from_iter, annotate_from_file, an ADD query) that had done n elements
   is exactly: its first n elements, each added successfully one after the other, then ONE failed
   annotate() of element n (class Known_C14_batch_prefix keeps that much and no more). *)
Theorem C14_failed_batch_is_prefix_then_one_failure : forall l s s' n,
  annotate_batch s l = (s', OErr, n) ->
  exists b, nth_error l n = Some b
  /\ (forall i bi, i < n -> nth_error l i = Some bi ->
        exists h, snd (annotate (annotate_all s (firstn i l)) bi) = OOk h)
  /\ annotate (annotate_all s (firstn n l)) b = (s', OErr).
Proof. exact annotate_batch_err. Qed.

Theorem C14_successful_batch_is_the_fold : forall l s s' h n,
  annotate_batch s l = (s', OOk h, n) -> s' = annotate_all s l /\ n = length l.
Proof. exact annotate_batch_ok. Qed.

(* the additive leftover is real and the premises are met: the witness of class 1 grows r0 by one selection *)
Example C14_only_adds_nonvacuous :
  let ops := [AddRes 0 5] in
  let b := mkab None (Some (BText (ById 0) (mkoff (CB 1) (CB 2)))) [mkdb (ByHandle 7) None None VNull] in
  snd (step (run ops) (Annotate b)) = OErr
  /\ get_res (fst (step (run ops) (Annotate b))) 0 = Some (mkres 0 5 [(1, 2)])
  /\ get_res (run ops) 0 = Some (mkres 0 5 []).
Proof. cbv zeta. repeat split. Qed.

(* class 1: the target's text selection stays behind when the data step fails *)
Example Known_C14_textselection_left_witness :
  let s := run [AddRes 0 5] in
  let b := mkab None (Some (BText (ById 0) (mkoff (CB 1) (CB 2)))) [mkdb (ByHandle 7) None None VNull] in
  snd (annotate s b) = OErr /\ ress (fst (annotate s b)) <> ress s.
Proof. cbv zeta. split; [reflexivity|discriminate]. Qed.

(* class 2: the dataset and key created for the first data item stay behind when the target fails later *)
Example Known_C14_vocabulary_left_witness :
  let s := run [AddRes 0 5] in
  let b := mkab None (Some (BComplex 1 [BRes (ById 0)])) [mkdb (ById 1) None (Some (ById 0)) VNull; mkdb (ById 1) None None VNull] in
  snd (annotate s b) = OErr /\ sets (fst (annotate s b)) <> sets s.
Proof. cbv zeta. split; [reflexivity|discriminate]. Qed.

(* outside the classes: an unknown resource changes nothing at all *)
Example C14_nonvacuous :
  let s := run [AddRes 0 5; AddSet 0] in
  let b := mkab (Some 1) (Some (BText (ById 9) (mkoff (CB 1) (CB 2)))) [mkdb (ById 0) None (Some (ById 0)) VNull] in
  annotate s b = (s, OErr).
Proof. reflexivity. Qed.
