(* C19: loading untrusted serialisations never panics, aborts or hangs.

   What is stated here is about the model of the semantic layer behind the trusted tree
   parsers (Model/Loader.v): the string parsers are total and correct on what the writer
   emits; the temp-id driven visitors never panic or abort, place items exactly, and allocate
   linearly in the document outside the known class Known_C19_alloc (refuted inside it); the
   CSV row decoder and the @include recursions are total; CBOR loading accepts stores that
   are not sane (refuted by witness) and its value decoder recurses without bound.  Running
   time and real allocation are measured by the harness, not proved. *)
From Coq Require Import List NArith ZArith Bool String.
Import ListNotations.
From Stam Require Import Model.Loader Spec.LoaderSpec Proofs.Loader.
Local Open Scope N_scope.

(* --- string parsers ------------------------------------------------ *)
Theorem C19_cursor_total : forall s, cursor_of_str s <> Panic /\ cursor_of_str s <> Abort /\ cursor_of_str s <> Hang.
Proof. exact cursor_safe. Qed.

Theorem C19_cursor_spec : forall s, cursor_of_str s = spec_cursor s.
Proof. exact cursor_model_spec. Qed.

Theorem C19_cursor_roundtrip : forall c, cursor_wf c -> cursor_of_str (str_of_cursor c) = Ok c.
Proof. exact cursor_roundtrip. Qed.

Theorem C19_type_total : forall lower s, type_of_str lower s <> Panic /\ type_of_str lower s <> Abort /\ type_of_str lower s <> Hang.
Proof. exact type_total. Qed.

Theorem C19_type_roundtrip : forall hi t, type_of_str (lower_with hi) (str_of_type t) = Ok t.
Proof. exact type_roundtrip. Qed.

Theorem C19_kind_total : forall s, kind_of_str s <> Panic /\ kind_of_str s <> Abort /\ kind_of_str s <> Hang.
Proof. exact kind_total. Qed.

Theorem C19_kind_roundtrip : forall k, kind_of_str (str_of_kind k) = Ok k.
Proof. exact kind_roundtrip. Qed.

Theorem C19_format_total : forall s, format_of_str s <> Panic /\ format_of_str s <> Abort /\ format_of_str s <> Hang.
Proof. exact format_total. Qed.

Theorem C19_temp_id_total : forall is_upper s, exists o, resolve_temp_id is_upper false s = Ok o.
Proof. exact temp_id_ok. Qed.

Theorem C19_temp_id_spec : forall is_upper s,
  (forall c, c < 128 -> is_upper c = ascii_upper c) ->
  resolve_temp_id is_upper false s = Ok (spec_temp_id s).
Proof. exact temp_id_spec. Qed.

Theorem C19_temp_id_roundtrip : forall is_upper letter h,
  ascii_upper letter = true -> is_upper letter = true -> h <= usize_max ->
  resolve_temp_id is_upper false (temp_id letter h) = Ok (Some h).
Proof. exact temp_id_roundtrip. Qed.

(* --- the visitors: no panic, no abort; exact placement; memory ------ *)
Theorem C19_load_no_panic : forall is_upper cap ovf strip d st,
  let s := fst (visit_doc is_upper cap ovf strip false st d) in s = SOk \/ s = SErr.
Proof. exact vdoc_safe. Qed.

Theorem C19_load_spec : forall is_upper cap ovf strip d st,
  match spec_doc cap (slots st) (map (map (abs_elem is_upper strip)) d) with
  | Some ps => fst (visit_doc is_upper cap ovf strip false st d) = SOk
               /\ placed (snd (visit_doc is_upper cap ovf strip false st d)) = rev ps ++ placed st
               /\ slots (snd (visit_doc is_upper cap ovf strip false st d)) = next_after (slots st) ps
  | None => fst (visit_doc is_upper cap ovf strip false st d) = SErr
  end.
Proof. exact vdoc_spec. Qed.

Theorem C19_place_exact : forall cap l next ps,
  spec_place cap 0 next l = Some ps -> exact_from next l ps.
Proof. exact spec_place_exact. Qed.

Theorem C19_load_alloc : forall is_upper cap ovf strip d st,
  Known_C19_alloc (slots st) (map (map (abs_elem is_upper strip)) d) = false ->
  let r := snd (visit_doc is_upper cap ovf strip false st d) in
  let B := justified (slots st) (List.length (List.concat d)) in
  alloc r <= N.max (alloc st) B /\ slots r <= B + N.of_nat (List.length (List.concat d)).
Proof. exact load_alloc_guarded. Qed.

Theorem Known_C19_alloc_witness :
  let r := visit_doc up_run cap_run ovf_run true false st0 [[el "!A1000000"%string]] in
  fst r = SOk /\ alloc (snd r) = 1000000 /\ justified 0 1 = 1.
Proof. exact visit_alloc_refuted. Qed.

(* --- CSV rows, @include -------------------------------------------- *)
Theorem C19_csv_row_total : forall r, csv_row false r <> Panic /\ csv_row false r <> Abort /\ csv_row false r <> Hang.
Proof. exact csv_row_safe. Qed.

(* the rows to_csv writes for a simple selector (the six kinds) are read back as written *)
Theorem C19_csv_simple_roundtrip : forall id data set b,
  data <> [] -> nosemi data -> nosemi set -> simple_wf b ->
  csv_row false (row_of_simple id data set b)
  = Ok {| ab_id := opt id; ab_data := [(set, data)]; ab_target := Some b |}.
Proof. exact csv_simple_roundtrip. Qed.

Theorem C19_resource_include_total : forall stack t,
  resource_include false stack t <> Panic /\ resource_include false stack t <> Abort /\ resource_include false stack t <> Hang.
Proof. exact resource_include_safe. Qed.

Theorem C19_dataset_include_total : forall files depth stack inc,
  (max_include_depth + 1 <= stack + depth)%nat ->
  ds_include false stack depth files inc <> Panic /\ ds_include false stack depth files inc <> Abort /\ ds_include false stack depth files inc <> Hang.
Proof. exact ds_include_safe. Qed.

Theorem C19_ann_offset_total : forall parent b e,
  ann_offset parent b e <> Panic /\ ann_offset parent b e <> Abort /\ ann_offset parent b e <> Hang.
Proof. exact ann_offset_safe. Qed.

(* a data set defined twice in merge mode: the merged set holds exactly the data of both
   definitions under the keys they were declared with (first definition wins per id) *)
Theorem C19_dataset_merge_spec : forall a b i k, distinct_ids (ds_data b) ->
  In (i, k) (ds_data (ds_merge a b)) <-> spec_merged a b i k.
Proof. exact ds_merge_spec. Qed.

Theorem C19_include_stdin_total : forall stdin_open,
  include_stdin false stdin_open <> Panic /\ include_stdin false stdin_open <> Abort
  /\ include_stdin false stdin_open <> Hang.
Proof. exact include_stdin_safe. Qed.

(* --- running time of the data lookup: linear with ids or fresh keys, quadratic otherwise --- *)
Theorem C19_cost_with_ids : forall l count, forallb d_hasid l = true -> dedup_cost count l = 0.
Proof. exact dedup_cost_ids. Qed.

Theorem C19_cost_fresh_keys : forall l count,
  NoDup (map d_key l) -> (forall d, In d l -> count (d_key d) = 0) -> dedup_cost count l = 0.
Proof. exact dedup_cost_fresh_keys. Qed.

Theorem Known_C19_quadratic_witness : forall k n count,
  2 * dedup_cost count (repeat {| d_key := k; d_hasid := false |} n)
  = N.of_nat n * (N.of_nat n - 1) + 2 * count k * N.of_nat n.
Proof. exact dedup_cost_same_key. Qed.

Theorem Known_C19_quadratic_superlinear : forall n, 4 <= n -> superlinear n false true = true.
Proof. exact superlinear_same_key. Qed.

Theorem C19_linear_otherwise : forall n hasid samekey,
  hasid = true \/ samekey = false -> superlinear n hasid samekey = false.
Proof. exact superlinear_linear. Qed.

(* --- CBOR: refuted ------------------------------------------------- *)
Theorem Known_C19_cbor_handle_witness :
  exists s s', cbor_load s = Ok s' /\ cbor_sane s' = false /\ cbor_probe s' = Panic.
Proof. exact cbor_refuted. Qed.

Theorem Known_C19_cbor_depth_witness : forall stack depth,
  (stack < depth)%nat -> cbor_value stack depth = Abort.
Proof. exact cbor_value_depth. Qed.

(* --- what the repairs removed (the code before the fix: commits) ---- *)
Theorem C19_before_the_repairs :
  resolve_temp_id (fun c => c =? 201) true [33; 201; 49] = Panic
  /\ fst (visit_doc up_run cap_run ovf_run true true st0 [[el "!A99999999999"%string]]) = SAbort
  /\ fst (visit_doc up_run cap_run ovf_run true true st0 [[el "!A18446744073709551615"%string]]) = SPanic
  /\ csv_row true (row "KS"%string "!D5"%string "s"%string "DataKeySelector"%string ""%string ""%string "s"%string ""%string ""%string "k"%string ""%string) = Panic
  /\ (forall stack, resource_include true stack false = Abort)
  /\ (forall stack, ds_include true stack 0 [Some 0%nat] (Some 0%nat) = Abort)
  /\ include_stdin true true = Hang.
Proof.
  split; [exact temp_id_old_refuted|]. split; [exact visit_old_abort|].
  split; [exact visit_old_capacity_overflow|]. split; [exact (proj1 csv_old_refuted)|].
  split; [exact resource_include_old_refuted|]. split; [exact ds_include_old_refuted|reflexivity].
Qed.

(* non-vacuity *)
Example C19_nonvacuous :
  cursor_of_str (lit "-12"%string) = Ok (CEnd (-12))
  /\ cursor_of_str (lit "18446744073709551616"%string) = Err
  /\ fst (visit_doc up_run cap_run ovf_run true false st0 [[el "!A2"%string; el "x"%string; el "!A7"%string]]) = SOk
  /\ placed (snd (visit_doc up_run cap_run ovf_run true false st0 [[el "!A2"%string; el "x"%string; el "!A7"%string]])) = [7; 3; 2]
  /\ fst (visit_doc up_run cap_run ovf_run true false st0 [[el "!A2"%string; el "!A1"%string]]) = SErr.
Proof. vm_compute. repeat split. Qed.
