(* C20: concurrent readers of a shared store see sequential results.

   Model (Model/Conc.v): the interior-mutable state reachable through &AnnotationStore - the
   changed flag of every member, shared by all threads, and the serialisation mode, which since
   fix 5f67dd0 is confined to the thread (sh = false) and before was one cell shared by the
   store's Config clone family (sh = true) - with one command per access (the yield sites of the
   hooks in /repo); interleaving semantics over any number of threads and ANY schedule.

   The property (code as it is now, sh = false):
   C20_independent           any thread programs: under every schedule a thread emits exactly the
                             static reading of its program (prefixes of it on the way); what it
                             writes to stand-off files is member content
   C20_alone_or_not          ... hence finishes with exactly what it finishes with alone
   C20_entry_points          static reading of every serialisation entry point = the documented
                             result (Spec/ConcSpec.v)
   C20_scenario              any store, any calls, any schedule: every thread obtains the specified
                             solo result and never writes anything but content to a stand-off file
   C20_scenario_solo         the specified result is what each entry point yields alone
                             (these three for stores whose stand-off files can be written; a failing
                             write is covered by the correspondence run only: C20_failed_write_repeats)
   C20_coarse, C20_scenario_coarse
                             the switch-only-at-yield-sites granularity of the scheduler of the
                             harness is a special case of the schedules quantified over
   C20_parallel_is_sequential  positional consumers of iterator.parallel() = the sequential ones
   The defect that was repaired (shared cell, sh = true; defect 42 of DESIGN section 6):
   C20_shared_readers_independent   no thread can write the mode cell -> every thread = solo
   C20_shared_guarded               a thread that is straight-line, or whose fellow threads cannot
                                    write the mode cell, obtains its solo result
   C20_shared_refuted ...           otherwise not: four computed witnesses; the same schedules are
                                    harmless with the mode confined to the thread *)
From Coq Require Import List Arith Bool.
Import ListNotations.
From Stam Require Import Model.Conc Spec.ConcSpec Proofs.Conc.

Theorem C20_independent : forall i sched st t o m1,
  nth_error (thr st) i = Some t -> dead t = false -> out t = [] -> fout t = [] ->
  sem (tmd t) (stk t) = Some (o, m1) ->
  exists t', nth_error (thr (run false sched st)) i = Some t' /\ dead t' = false /\ files_ok t'
             /\ (finished t' = true -> out t' = o)
             /\ exists rest, out t' ++ rest = o.
Proof. exact independent_generic. Qed.

Theorem C20_alone_or_not : forall i st t o m1,
  nth_error (thr st) i = Some t -> dead t = false -> out t = [] -> fout t = [] ->
  sem (tmd t) (stk t) = Some (o, m1) ->
  forall sched n t1 t2,
    nth_error (thr (run false sched st)) i = Some t1 -> finished t1 = true ->
    nth_error (thr (run false (repeat i n) st)) i = Some t2 -> finished t2 = true ->
    out t1 = out t2 /\ dead t1 = false.
Proof. exact alone_or_not. Qed.

Theorem C20_solo : forall sh i n st t o m1,
  nth_error (thr st) i = Some t -> dead t = false -> out t = [] -> fout t = [] ->
  sem (cur_mode sh (md st) t) (stk t) = Some (o, m1) ->
  exists t', nth_error (thr (run sh (repeat i n) st)) i = Some t' /\ dead t' = false /\ files_ok t'
             /\ (finished t' = true -> out t' = o)
             /\ exists rest, out t' ++ rest = o.
Proof. exact solo_generic. Qed.

Theorem C20_entry_points : forall f mem o, writable mem = true -> plain_op o = true ->
  sem Allow (prog (S f) mem o) = Some (spec_out mem o, Allow).
Proof. exact sem_prog. Qed.

Theorem C20_scenario : forall sc sched i o,
  writable (members sc) = true ->
  nth_error (ops sc) i = Some o -> plain_op o = true ->
  exists t', nth_error (thr (run false sched (init sc))) i = Some t' /\ dead t' = false /\ files_ok t'
             /\ (finished t' = true -> out t' = spec_out (members sc) o)
             /\ exists rest, out t' ++ rest = spec_out (members sc) o.
Proof. exact scenario_independent. Qed.

Theorem C20_scenario_solo : forall sh sc n i o,
  writable (members sc) = true ->
  nth_error (ops sc) i = Some o -> plain_op o = true ->
  exists t', nth_error (thr (run sh (repeat i n) (init sc))) i = Some t' /\ dead t' = false
             /\ (finished t' = true -> out t' = spec_out (members sc) o).
Proof. exact scenario_solo. Qed.

Theorem C20_coarse : forall sh cs st, exists fs, run_coarse sh cs st = run sh fs st.
Proof. exact run_coarse_is_run. Qed.

Theorem C20_scenario_coarse : forall sc cs i o t',
  writable (members sc) = true ->
  nth_error (ops sc) i = Some o -> plain_op o = true ->
  nth_error (thr (run_coarse false cs (init sc))) i = Some t' ->
  files_ok t' /\ dead t' = false /\ (finished t' = true -> out t' = spec_out (members sc) o).
Proof. exact scenario_independent_coarse. Qed.

(* the parallel adaptors: as transcribed (collect the sequential iterator, hand the vector to rayon
   as an indexed parallel iterator) every positional consumer returns what the sequential iterator
   returns, order included.  That rayon honours positions under real scheduling is sampled by the
   run (pools of 2..8 workers over thousands of annotations), not proved. *)
Theorem C20_parallel_is_sequential : forall l, par_consumers l = seq_consumers l.
Proof. exact parallel_consumers_sequential. Qed.

(* ---- the shared-cell design ---- *)
Theorem C20_shared_readers_independent : forall c0 st,
  le_flags (flags st) c0 ->
  (forall j tj, nth_error (thr st) j = Some tj -> nw c0 (stk tj) = true) ->
  forall i t o m1, nth_error (thr st) i = Some t -> dead t = false -> out t = [] -> fout t = [] ->
  sem (md st) (stk t) = Some (o, m1) ->
  forall sched n t1 t2,
    nth_error (thr (run true sched st)) i = Some t1 -> finished t1 = true ->
    nth_error (thr (run true (repeat i n) st)) i = Some t2 -> finished t2 = true ->
    out t1 = out t2 /\ dead t1 = false.
Proof. exact shared_readers_independent. Qed.

Theorem C20_shared_guarded : forall sc sched i o,
  writable (members sc) = true ->
  nth_error (ops sc) i = Some o -> plain_op o = true ->
  Shared_mode_race (changed0 sc) (thr (init sc)) i = false ->
  exists t', nth_error (thr (run true sched (init sc))) i = Some t' /\ dead t' = false /\ files_ok t'
             /\ (finished t' = true -> out t' = spec_out (members sc) o)
             /\ exists rest, out t' ++ rest = spec_out (members sc) o.
Proof. exact shared_scenario_guarded. Qed.

Theorem C20_shared_refuted :
  exists sc cs i o t', nth_error (ops sc) i = Some o
    /\ nth_error (thr (run_coarse true cs (init sc))) i = Some t' /\ finished t' = true
    /\ out t' <> spec_out (members sc) o.
Proof. exact shared_refuted_generic. Qed.

Theorem C20_shared_refuted_store_loses_include :
  result 0 (run_coarse true [0; 1; 1; 0] (init witness_AB)) = Some (true, [t_inline 0])
  /\ spec_out (members witness_AB) OpStore = [t_include 0]
  /\ Shared_mode_race (changed0 witness_AB) (thr (init witness_AB)) 0 = true.
Proof. exact shared_refuted_store_loses_include. Qed.

Theorem C20_shared_refuted_member_gets_include :
  result 0 (run_coarse true [1; 1; 1; 0; 0; 1; 1; 1; 1; 0; 0; 0] (init witness_BA)) = Some (true, [t_include 0])
  /\ spec_out (members witness_BA) (OpMemberTrait 0) = [t_inline 0].
Proof. exact shared_refuted_member_gets_include. Qed.

Theorem C20_shared_refuted_two_store_serialisations :
  result 1 (run_coarse true [0; 0; 0; 0; 1; 1; 1] (init witness_SS)) = Some (true, [t_inline 0; t_inline 1])
  /\ spec_out (members witness_SS) OpStore = [t_include 0; t_include 1].
Proof. exact shared_refuted_two_store_serialisations. Qed.

Theorem C20_shared_refuted_file_gets_include :
  In (0, t_include 0) (file_writes 1 (run_coarse true [1; 1; 1; 0; 0; 0; 1; 0; 1] (init witness_BA))).
Proof. exact shared_refuted_file_gets_include. Qed.

Theorem C20_repaired_on_the_witnesses :
  result 0 (run_coarse false [0; 1; 1; 0; 0] (init witness_AB)) = Some (true, [t_include 0])
  /\ result 0 (run_coarse false [1; 1; 1; 0; 0; 1; 1; 1; 1; 0; 0; 0] (init witness_BA)) = Some (true, [t_inline 0])
  /\ result 1 (run_coarse false [0; 0; 0; 0; 0; 0; 0; 0; 1; 1; 1; 1; 1] (init witness_SS)) = Some (true, [t_include 0; t_include 1])
  /\ file_writes 1 (run_coarse false [1; 1; 1; 0; 0; 0; 1; 0; 1; 1; 1; 1] (init witness_BA)) = [(0, t_inline 0)].
Proof. exact local_witnesses_fine. Qed.

(* a stand-off file that cannot be written (outside the theorems above, which assume writable
   files; covered by the correspondence run): the call returns Err, and returns Err again - since
   fix 7e4eec1 a failed write leaves the mode as it was.  Two threads, each calling
   store.to_json_string() twice. *)
Example C20_failed_write_repeats :
  let sc := mkScen [Txt; JsonBroken] [false; true] [OpStoreTwice; OpStoreTwice] in
  let st := run_coarse false (concat (repeat [0; 1; 1; 0; 0] 7)) (init sc) in
  map (fun i => result i st) [0; 1]
  = [Some (true, spec_result (members sc) (changed0 sc) OpStoreTwice);
     Some (true, spec_result (members sc) (changed0 sc) OpStoreTwice)]
  /\ spec_result (members sc) (changed0 sc) OpStoreTwice = [t_err; t_sep; t_err; t_sep].
Proof. vm_compute. split; reflexivity. Qed.

(* non-vacuity: real sharing - two threads serialise a store with an inline resource, a changed
   plain-text stand-off resource and a changed stand-off dataset (both flush, both switch their
   mode) while a third one asks for the content of the dataset; one interleaving, everybody
   finished with the solo result, only content written to the files *)
Example C20_nonvacuous :
  let sc := mkScen [NoFile; Txt; Json] [false; true; true] [OpStore; OpStore; OpMemberTrait 2] in
  let st := run_coarse false [0; 1; 0; 1; 2; 1; 0; 0; 2; 1; 1; 0; 0; 1; 0; 1; 2; 2; 0; 1; 0; 1; 0; 1] (init sc) in
  map (fun i => result i st) [0; 1; 2]
     = [Some (true, [t_inline 0; t_include 1; t_include 2]);
        Some (true, [t_inline 0; t_include 1; t_include 2]);
        Some (true, [t_inline 2])]
  /\ file_writes 0 st = [(1, t_inline 1); (2, t_inline 2)]
  /\ file_writes 1 st = [(1, t_inline 1); (2, t_inline 2)].
Proof. vm_compute. repeat split. Qed.
