(* C20: concurrent readers of a shared store see sequential results.

   Model (Model/Conc.v): the interior-mutable state reachable through &AnnotationStore - the
   serialisation mode of the store's Config clone family and the changed flag of every member -
   as shared cells; thread programs with one command per access to a cell (the yield sites of
   the hooks in /repo); interleaving semantics over any number of threads and any schedule.

   C20_readers_independent   no thread program can write the mode cell -> under every schedule
                             every thread finishes with what it finishes with alone
   C20_guarded               any programs: a thread that is straight-line, or whose fellow threads
                             cannot write the mode cell, emits exactly the static reading of its
                             program (and only prefixes of it on the way), whatever the schedule
   C20_solo                  alone, a thread emits the static reading of its program
   C20_entry_points          static reading of every serialisation entry point = the documented
                             result (Spec/ConcSpec.v)
   C20_scenario              entry points, any schedule, outside Known_C20_mode_write: result =
                             specified solo result (the full statement of the property, guarded)
   C20_scenario_solo         the specified result is what each entry point yields alone
   C20_coarse                the granularity of the deterministic scheduler of the harness (switch
                             only at yield sites) is a special case of the schedules quantified over
   C20_refuted ...           inside the class the property fails: witnesses (defect 42) *)
From Coq Require Import List Arith Bool.
Import ListNotations.
From Stam Require Import Model.Conc Spec.ConcSpec Proofs.Conc.

Theorem C20_readers_independent : forall c0 st,
  le_flags (flags st) c0 ->
  (forall j tj, nth_error (thr st) j = Some tj -> nw c0 (stk tj) = true) ->
  forall i t o m1, nth_error (thr st) i = Some t -> dead t = false -> out t = [] ->
  sem (md st) (stk t) = Some (o, m1) ->
  forall sched n t1 t2,
    nth_error (thr (run sched st)) i = Some t1 -> finished t1 = true ->
    nth_error (thr (run (repeat i n) st)) i = Some t2 -> finished t2 = true ->
    out t1 = out t2 /\ dead t1 = false.
Proof. exact readers_independent. Qed.

Theorem C20_guarded : forall c0 i sched st t o m1,
  le_flags (flags st) c0 ->
  nth_error (thr st) i = Some t -> dead t = false -> out t = [] ->
  sem (md st) (stk t) = Some (o, m1) ->
  Known_C20_mode_write c0 (thr st) i = false ->
  exists t', nth_error (thr (run sched st)) i = Some t' /\ dead t' = false
             /\ (finished t' = true -> out t' = o)
             /\ exists rest, out t' ++ rest = o.
Proof. exact guarded_generic. Qed.

Theorem C20_solo : forall i n st t o m1,
  nth_error (thr st) i = Some t -> dead t = false -> out t = [] ->
  sem (md st) (stk t) = Some (o, m1) ->
  exists t', nth_error (thr (run (repeat i n) st)) i = Some t' /\ dead t' = false
             /\ (finished t' = true -> out t' = o)
             /\ exists rest, out t' ++ rest = o.
Proof. exact solo_generic. Qed.

Theorem C20_entry_points : forall f mem o,
  sem Allow (prog (S f) mem o) = Some (spec_out mem o, Allow).
Proof. exact sem_prog. Qed.

Theorem C20_scenario : forall sc sched i o,
  nth_error (ops sc) i = Some o ->
  Known_C20_mode_write (changed0 sc) (thr (init sc)) i = false ->
  exists t', nth_error (thr (run sched (init sc))) i = Some t' /\ dead t' = false
             /\ (finished t' = true -> out t' = spec_out (members sc) o)
             /\ exists rest, out t' ++ rest = spec_out (members sc) o.
Proof. exact scenario_guarded. Qed.

Theorem C20_scenario_solo : forall sc n i o,
  nth_error (ops sc) i = Some o ->
  exists t', nth_error (thr (run (repeat i n) (init sc))) i = Some t' /\ dead t' = false
             /\ (finished t' = true -> out t' = spec_out (members sc) o).
Proof. exact scenario_solo. Qed.

Theorem C20_coarse : forall cs st, exists fs, run_coarse cs st = run fs st.
Proof. exact run_coarse_is_run. Qed.

Theorem C20_scenario_coarse : forall sc cs i o t',
  nth_error (ops sc) i = Some o ->
  Known_C20_mode_write (changed0 sc) (thr (init sc)) i = false ->
  nth_error (thr (run_coarse cs (init sc))) i = Some t' -> finished t' = true ->
  out t' = spec_out (members sc) o /\ dead t' = false.
Proof. exact scenario_guarded_coarse. Qed.

(* the class is a real failure, not a loosened check *)
Theorem C20_refuted :
  exists sc cs i o t', nth_error (ops sc) i = Some o
    /\ nth_error (thr (run_coarse cs (init sc))) i = Some t' /\ finished t' = true
    /\ out t' <> spec_out (members sc) o.
Proof. exact C20_refuted_generic. Qed.

Theorem C20_refuted_store_loses_include :
  result 0 (run_coarse [0; 1; 1; 0] (init witness_AB)) = Some (true, [t_inline 0])
  /\ spec_out (members witness_AB) OpStore = [t_include 0]
  /\ Known_C20_mode_write (changed0 witness_AB) (thr (init witness_AB)) 0 = true.
Proof. exact refuted_store_loses_include. Qed.

Theorem C20_refuted_member_gets_include :
  result 0 (run_coarse [1; 1; 1; 0; 0; 1; 1; 1; 1; 0; 0; 0] (init witness_BA)) = Some (true, [t_include 0])
  /\ spec_out (members witness_BA) (OpMemberTrait 0) = [t_inline 0].
Proof. exact refuted_member_gets_include. Qed.

Theorem C20_refuted_two_store_serialisations :
  result 1 (run_coarse [0; 0; 0; 0; 1; 1; 1] (init witness_SS)) = Some (true, [t_inline 0; t_inline 1])
  /\ spec_out (members witness_SS) OpStore = [t_include 0; t_include 1].
Proof. exact refuted_two_store_serialisations. Qed.

Theorem C20_refuted_file_gets_include :
  In (0, t_include 0) (file_writes 1 (run_coarse [1; 1; 1; 0; 0; 0; 1; 0; 1] (init witness_BA))).
Proof. exact refuted_file_gets_include. Qed.

(* non-vacuity: a scenario outside the class with real sharing - two threads serialise a store
   with an inline resource, a changed plain-text stand-off resource and an unchanged stand-off
   dataset while a third one queries; one interleaving, everybody finished with the solo result *)
Example C20_nonvacuous :
  let sc := mkScen [NoFile; Txt; Json] [false; true; false] [OpStore; OpStore; OpPure] in
  forallb (fun i => negb (Known_C20_mode_write (changed0 sc) (thr (init sc)) i)) [0; 1; 2] = true
  /\ map (fun i => result i (run_coarse [0; 1; 0; 1; 2; 1; 0; 0; 1; 1; 0; 0; 1; 0; 1] (init sc))) [0; 1; 2]
     = [Some (true, [t_inline 0; t_include 1; t_include 2]);
        Some (true, [t_inline 0; t_include 1; t_include 2]);
        Some (true, [])].
Proof. vm_compute. split; reflexivity. Qed.
