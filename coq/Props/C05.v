(* C05: STAM JSON round trip (property theorems; proofs in Proofs/StamJson*.v). *)
From Coq Require Import List NArith ZArith.
Import ListNotations.
From Stam Require Import Model.Offset Model.Json Model.TempId Model.StamJson Spec.StamJsonSpec Proofs.StamJson Proofs.StamJsonSave
     Proofs.StamJsonLoad Proofs.StamJsonAnn Proofs.StamJsonWhole Proofs.StamJsonSub
     Model.Store Model.StamJsonView Proofs.StoreSets Proofs.CsvReach Proofs.StamJsonReach
     Proofs.StamJsonSubLoad Proofs.StamJsonMask Proofs.StamJsonSubWhole.

(* THE PROPERTY.  For every well-formed store (Spec/StamJsonSpec.v wf_dstore: no dangling references,
   annotations refer to earlier annotations, ranges inside their text and their parent's range,
   unique identifiers none of which starts with '!', distinct stand-off file names, handles within
   their integer widths; any slots may be removed, any items may lack public identifiers, any
   resources and datasets may be kept in stand-off files): the store can be written; loading the
   documents succeeds; the loaded store shows the same canonical observation (resources and texts,
   datasets, keys, typed values, annotations in order with names, data references, targets with
   kinds, referenced items, offsets in their alignment, absolute ranges); and writing the loaded
   store gives the same documents again. *)
Theorem C05_roundtrip : forall s, wf_dstore s = true -> roundtrip_ok s.
Proof. exact roundtrip. Qed.

Theorem C05_decode_encode : forall s c, wf_dstore s = true -> canon s = Some c ->
  exists s', decode (encode_c c) = Some s' /\ canon s' = Some c.
Proof. exact decode_encode_canon. Qed.

(* (d) what is written depends on the observation only: stores that look the same write the same *)
Theorem C05_encode_respects_model : forall s s', same_model s s' -> encode s = encode s'.
Proof. exact encode_respects_model. Qed.

Theorem C05_wellformed_writable : forall s, wf_dstore s = true -> exists c, canon s = Some c.
Proof. exact wf_canon. Qed.

(* (a) temporary identifiers: an item written as "!A<h>" goes back to handle h (the list is
   padded with removed slots up to h), an item with a public identifier is appended *)
Theorem C05_gapfill_places : forall (l : list (option dann)) k h,
  (N.of_nat h < USIZE)%N -> length l <= h ->
  gap_fill 0 l (Some (temp_id k (N.of_nat h))) = Some (l ++ repeat None (h - length l), None)
  /\ length (l ++ repeat None (h - length l)) = h.
Proof. intros l k h U L. split; [apply gap_fill_temp; assumption|apply pad_length; exact L]. Qed.

Theorem C05_gapfill_public : forall (l : list (option dann)) pre id,
  reserved id = false -> gap_fill pre l (Some id) = Some (l, Some id).
Proof. intros. apply gap_fill_public. assumption. Qed.

(* (b) the value codec: all seven value types, lists nested to any depth *)
Theorem C05_value_codec : forall v, parse_val (json_of_val v) = Some v.
Proof. exact parse_json_of_val. Qed.

Theorem C05_int_literal : forall z, lit_z (z_lit z) = Some z.
Proof. exact lit_z_lit. Qed.

Theorem C05_float_literal : forall z, lit_fix (fix_lit z) = Some z.
Proof. exact lit_fix_lit. Qed.

(* (c) offsets and selectors of all nine kinds as documents *)
Theorem C05_offset_codec : forall o, parse_offset (json_of_offset o) = Some o.
Proof. exact parse_json_of_offset. Qed.

Theorem C05_selector_codec : forall k ls, target_ok k ls -> parse_target (json_of_target k ls) = Some (k, ls).
Proof. exact parse_json_of_target. Qed.

(* the whole store document is read back as the builders it was written from *)
Theorem C05_document_codec : forall b, bstore_ok b -> parse_bstore (json_of_bstore b) = Some b.
Proof. exact parse_json_of_bstore. Qed.

(* saving repeatedly: if every operation flags the stand-off members whose file content it
   changes (the contract of the `changed` flags), then after ANY history of modifications and
   saves a save leaves every stand-off file of the current store with its current content;
   flushing only the flagged files gives the same disk as rewriting all of them *)
Theorem C05_save_modify_save : forall st current,
  Reached st current -> NoDup (map fst current) ->
  forall f c, file_get current f = Some c -> file_get (fs_disk (flush current st)) f = Some c.
Proof. exact save_after_any_history. Qed.

Theorem C05_flags_are_enough : forall st current, NoDup (map fst current) -> Clean st current ->
  forall g, file_get (fs_disk (flush current st)) g = file_get (rewrite_all current (fs_disk st)) g.
Proof. exact flush_is_rewrite_all. Qed.

Theorem C05_histories_with_saves : forall (S X : Type) (step : S -> X -> S) (cur : S -> files) (always : S -> list str),
  (forall s, NoDup (map fst (cur s))) ->
  forall ops s st, Reached st (cur s) ->
  Reached (snd (save_run step cur always ops s st)) (cur (fst (save_run step cur always ops s st))).
Proof. exact @save_run_reached. Qed.

Example C05_nonvacuous :
  parse_val (json_of_val (XList [XInt (-3)%Z; XFix 1500%Z; XStr [34%N; 128512%N]; XList [XNull; XDate [50%N]]; XBool true]))
  = Some (XList [XInt (-3)%Z; XFix 1500%Z; XStr [34%N; 128512%N]; XList [XNull; XDate [50%N]]; XBool true])
  /\ fix_lit 1500%Z = [49%N; 46%N; 53%N] /\ fix_lit (-1000)%Z = [45%N; 49%N; 46%N; 48%N].
Proof. repeat split; vm_compute; reflexivity. Qed.

(* Known class: sub-stores whose items do not all come before the items of the documents
   loaded after them, or that refer to items of later documents.  Loading merges the
   sub-store documents first, so such a store does not come back as it was. *)
Definition Known_C05_substore_order (s : dstore) (ow : owners) : bool := negb (arranged s ow).

Definition witness_store : dstore :=
  mkdstore None [Some (mkdres [114%N; 48%N] [97%N; 98%N] None)] []
    [Some (mkdann None [] 0 [DRes 0]);          (* root, no id: "!A0" *)
     Some (mkdann None [] 0 [DRes 0]);          (* in the sub-store, no id: "!A1" *)
     Some (mkdann (Some [97%N; 50%N]) [] 0 [DAnn 0])].
Definition witness_owners : owners :=
  mkown [(Some [115%N], [115%N; 46%N; 106%N; 115%N; 111%N; 110%N])] [Some 0] [] [None; Some 0; None].

Lemma Known_C05_substore_order_witness :
  Known_C05_substore_order witness_store witness_owners = true
  /\ wf_dstore witness_store = true
  /\ exists d, encode_o witness_store witness_owners = Some d /\ decode_o d = None.
Proof.
  split; [vm_compute; reflexivity|]. split; [vm_compute; reflexivity|].
  eexists. split; [vm_compute; reflexivity|]. vm_compute. reflexivity.
Qed.

(* Known class: a public identifier written like a temporary one ("!A5") *)
Definition Known_C05_reserved_id (s : dstore) : bool := has_reserved_id s.

Definition witness_reserved : dstore :=
  mkdstore None [Some (mkdres [114%N; 48%N] [97%N] None)] []
    [Some (mkdann (Some [33%N; 65%N; 53%N]) [] 0 [DRes 0]);      (* "!A5" *)
     Some (mkdann None [] 0 [DAnn 0])].                            (* written "!A1" *)

Lemma Known_C05_reserved_id_witness :
  Known_C05_reserved_id witness_reserved = true
  /\ exists d, encode witness_reserved = Some d /\ decode d = None.
Proof. split; [vm_compute; reflexivity|]. eexists. split; [vm_compute; reflexivity|]. vm_compute. reflexivity. Qed.

(* without sub-stores the general writer and loader (the ones the correspondence runs) are those of the theorem *)
Theorem C05_no_substores_encode : forall s, encode_o s no_owners = encode s.
Proof. exact encode_o_no_substores. Qed.
Theorem C05_no_substores_decode : forall d b, parse_bstore (fst d) = Some b -> b_include b = [] ->
  decode_o d = option_map (fun s => (s, own_new no_owners s None)) (decode d).
Proof. exact decode_o_no_substores. Qed.

(* the class of the theorem is inhabited by stores with removed slots, items without identifiers,
   a relative offset in end-aligned mode, a complex selector and stand-off files *)
Definition sample_store : dstore :=
  mkdstore (Some [115%N])
    [None; Some (mkdres [114%N] [104%N; 233%N; 108%N; 108%N; 111%N; 128512%N] (Some [114%N; 46%N; 116%N; 120%N; 116%N]))]
    [Some (mkdset [100%N] [None; Some [107%N]] [None; Some (mkddata None 1 (XList [XInt (-3)%Z; XFix 500%Z])); Some (mkddata (Some [120%N]) 1 XNull)]
                  (Some [100%N; 46%N; 106%N; 115%N; 111%N; 110%N]))]
    [None;
     Some (mkdann None [(0, 1)] 0 [DText 1 1 5 EndEnd]);
     None;
     Some (mkdann (Some [97%N]) [(0, 2); (0, 1)] 0 [DAnnText 1 1 2 4 BeginEnd]);
     Some (mkdann None [] 2 [DAnn 3; DKey 0 1; DData 0 1; DRes 1; DSet 0])].

Example C05_roundtrip_nonvacuous :
  wf_dstore sample_store = true
  /\ (match canon sample_store with
      | Some c => match decode (encode_c c) with
                  | Some s' => match canon s' with
                               | Some c' => andb (Nat.eqb (length (c_anns c')) 3) (Nat.eqb (length (st_anns s')) 5)
                               | None => false end
                  | None => false end
      | None => false end) = true.
Proof. split; vm_compute; reflexivity. Qed.

(* sub-stores in the natural arrangement: the documents (sub-store 0 .. n-1, then the root), read one
   after the other, hold the live resources / datasets / annotations of the store, each exactly once,
   in the order of the store *)
Theorem C05_documents_in_order : forall (X : Type) (nsubs : nat) (own : list (option nat)) (l : list (option X)),
  (forall h k, owner_of own h = Some k -> k < nsubs) ->
  natural_order nsubs own l = true ->
  concat (map (fun k => pick own (Some k) (live l)) (seq 0 nsubs)) ++ pick own None (live l) = live l.
Proof. exact @parts_in_order. Qed.

(* THE STORES OF THE PROPERTY.  Every store reachable by the operations of the store model
   (add_resource, add_dataset, insert_data, annotate with all nine selector kinds, relative
   offsets and complex selectors, remove_annotation / remove_data / remove_key / remove_resource /
   remove_dataset, in any order, valid or not) has a well-formed document view, hence
   round-trips.  Hypotheses: data builders carry no identifier or an identifier by name (op_ok,
   as in C10), complex selectors have one of the three kinds of the API (kind_ok, as in C15),
   and the slot counts are within the handle widths. *)
Theorem C05_reachable_wellformed : forall ops rm sm,
  Forall op_ok ops -> Forall kind_ok ops -> sizes_fit (run ops) ->
  str_nodup (file_names (view (run ops) rm sm)) = true ->
  wf_dstore (view (run ops) rm sm) = true.
Proof. exact reachable_wf. Qed.

Theorem C05_reachable_roundtrip : forall ops,
  Forall op_ok ops -> Forall kind_ok ops -> sizes_fit (run ops) -> roundtrip_ok (view (run ops) 0 0).
Proof. exact reachable_roundtrip. Qed.

Theorem C05_reachable_roundtrip_standoff : forall ops rm sm,
  Forall op_ok ops -> Forall kind_ok ops -> sizes_fit (run ops) ->
  str_nodup (file_names (view (run ops) rm sm)) = true -> roundtrip_ok (view (run ops) rm sm).
Proof. exact reachable_roundtrip_standoff. Qed.

(* ONE LEVEL OF SUB-STORES.  For a well-formed store whose items are assigned to sub-stores in the
   natural arrangement (the items of sub-store k before those of sub-store k+1 before the root's; no
   document refers to an item of a later document) and whose file names are distinct: the root
   document and the sub-store documents can be written, the loader (which merges the included
   documents first, one after the other, each with its pre_length) accepts them, and the loaded
   store shows the same canonical observation.  (Stores outside the arrangement are the known
   class Known_C05_substore_order.)  Proof: loading the documents one after the other equals
   loading their concatenation (C05_documents_one_by_one), whose every prefix is the document of
   the store restricted to the first documents, which is well-formed. *)
Theorem C05_substores_roundtrip : forall s ow,
  owners_lt ow (ow_res ow) -> owners_lt ow (ow_set ow) -> owners_lt ow (ow_ann ow) ->
  wf_dstore s = true -> arranged s ow = true ->
  NoDup (map snd (ow_subs ow) ++ file_names s) ->
  exists d s' ow', encode_o s ow = Some d /\ decode_o d = Some (s', ow') /\ same_model s s'.
Proof. exact sub_roundtrip. Qed.

Theorem C05_documents_one_by_one : forall fs id ds,
  (forall k, k <= length ds -> exists r, mload fs id (firstn k ds) = Some r) ->
  load_docs fs ds (mkdstore id [] [] []) = mload fs id ds.
Proof. exact docs_one_by_one. Qed.

Theorem C05_restriction_wellformed : forall s ow k,
  wf_dstore s = true -> closed s ow = true -> wf_dstore (mask s ow k) = true.
Proof. exact mask_wf. Qed.

(* exporting a copy of a member elsewhere (to_txt_file / to_json_file to another directory, under the
   member's own file name or another one) leaves the contents of the store's own stand-off files as
   they are: it flags nothing and - the point - unflags nothing, so C05_save_modify_save still gives
   "after the save every referenced file holds the current content" *)
Theorem C05_export_keeps_flags : forall cur st, NoDup (map fst cur) -> mark cur cur st = st.
Proof. exact export_keeps_flags. Qed.
