(* C17: Web Annotation export is well-formed JSON faithful to the annotation.
   Only statements here; proofs are in Proofs/Json.v and Proofs/WebAnno.v. *)
From Coq Require Import List NArith ZArith Bool.
From Stam Require Import Base.Tac Model.Json Proofs.Json.
Import ListNotations.

(* JSON string escaping (what serde_json::to_string writes) is read back exactly, for EVERY
   string: quotes, backslashes, control characters, non-BMP scalar values, anything *)
Theorem C17_unescape_escape : forall s : list N, unescape (escape s) = Some s.
Proof. exact unescape_escape. Qed.

(* the recogniser reads back what the printer writes, for every tree *)
Theorem C17_parse_render : forall j, wf_json j = true -> parse_json (render j) = Some j.
Proof. exact parse_render. Qed.

Theorem C17_parse_tokens_of : forall j, parse_tokens (tokens_of j) = Some j.
Proof. exact parse_tokens_of. Qed.

(* non-vacuity: a string with quote, backslash, U+0001, newline and a non-BMP scalar value *)
Example C17_nonvacuous :
  let s := [34; 92; 1; 10; 128512]%N in
  parse_json (render (JObj [(s, JArr [JStr s; JNum [45; 49; 46; 53]%N; JNull])]))
  = Some (JObj [(s, JArr [JStr s; JNum [45; 49; 46; 53]%N; JNull])])
  /\ parse_json [123; 34; 97; 34; 58; 49; 32; 34; 98; 34; 58; 50; 125]%N = None.
Proof. split; vm_compute; reflexivity. Qed.
