(* C17: Web Annotation export is well-formed JSON faithful to the annotation.
   Only statements here; proofs are in Proofs/Json.v and Proofs/WebAnno.v.

   The store enters through the view the exporter reads ([storev]: resources with their text
   selections by handle, data set identifiers, annotations with identifier, selector tree and
   data).  [to_webannotation] is the transcription of the Rust code (string building),
   [export_ast] the intended tree, [parse_json] this development's JSON recogniser. *)
From Coq Require Import List NArith ZArith Bool String.
From Stam Require Import Base.Tac Model.Json Model.WebAnno Spec.WebAnnoSpec Proofs.Json Proofs.WebAnno.
Import ListNotations.

(* ---- JSON ---- *)

(* string escaping (what serde_json::to_string writes) is read back exactly, for EVERY string:
   quotes, backslashes, control characters, non-BMP scalar values, anything *)
Theorem C17_unescape_escape : forall s : list N, unescape (escape s) = Some s.
Proof. exact unescape_escape. Qed.

(* the recogniser reads back what the printer writes, for every tree *)
Theorem C17_parse_render : forall j, wf_json j = true -> parse_json (render j) = Some j.
Proof. exact parse_render. Qed.

Theorem C17_parse_tokens_of : forall j, parse_tokens (tokens_of j) = Some j.
Proof. exact parse_tokens_of. Qed.

(* ---- the property ---- *)

(* Outside the two known classes that make the output unreadable, the text the exporter builds for an annotation it accepts is one
   JSON object, and it is the intended tree: nothing lost or changed by quoting, commas, passes. *)
Theorem C17_export_is_intended_tree : forall st c a av j,
  get_ann st a = Some av ->
  Known_C17_config_chars c = false ->
  Known_C17_nonfinite av = false ->
  forallb (fun d => value_dates_plain (d_val d)) (a_data av) = true ->   (* chrono's to_rfc3339 *)
  export_ast st c a = Some j ->
  exists s, to_webannotation st c a = Some s /\ parse_json s = Some j /\ is_object j = true.
Proof.
  intros st c a av j Ha Hc Hf Hd E.
  apply negb_false_iff in Hc. apply negb_false_iff in Hf.
  apply (export_parses st c a av j Hc Ha); try assumption.
  apply forallb_forall. intros d Hin. unfold value_ok.
  rewrite forallb_forall in Hf, Hd. rewrite (Hf d Hin), (Hd d Hin). reflexivity.
Qed.

(* the target of the intended tree names exactly the annotation's own text selections
   (resource IRI, begin, end), in selector order, for every selector kind *)
Theorem C17_targets : forall st c a av j,
  get_ann st a = Some av -> export_ast st c a = Some j ->
  exists pre tj, j = JObj (pre ++ [(LIT "target", tj)])
                 /\ abs_targets st c (a_target av) = Some (targets tj).
Proof.
  intros st c a av j Ha E. unfold export_ast in E. rewrite Ha in E.
  destruct (target_json st c (a_target av)) as [tj|] eqn:Et; [|discriminate].
  injection E as <-. exists (pre_members c av), tj. split; [reflexivity|].
  apply targets_faithful. exact Et.
Qed.

(* every data item is carried, under its predicate name, by the annotation object (main-level
   predicates) or by its body, with the value's JSON counterpart *)
Theorem C17_data : forall st c a av j d,
  get_ann st a = Some av -> export_ast st c a = Some j -> In d (a_data av) ->
  exists pre tj, j = JObj (pre ++ [(LIT "target", tj)]) /\
    ((is_main d = true /\ In (pred_name c d, pred_json (d_val d)) pre)
     \/ (is_main d = false /\ exists bm, In (LIT "body", JObj bm) pre /\ In (pred_name c d, pred_json (d_val d)) bm)).
Proof.
  intros st c a av j d Ha E Hd. unfold export_ast in E. rewrite Ha in E.
  destruct (target_json st c (a_target av)) as [tj|] eqn:Et; [|discriminate].
  injection E as <-. exists (pre_members c av), tj. split; [reflexivity|].
  exact (data_faithful c av d Hd).
Qed.

(* same content: an integer is written as a literal that reads back as that integer; a string as
   itself (C17_unescape_escape through the lexer); null, booleans, lists structurally *)
Theorem C17_int_content : forall z, num_int (dec_Z z) = Some z.
Proof. exact num_int_dec_Z. Qed.

Theorem C17_numbers_wellformed : forall z x,
  is_json_number (dec_Z z) = true /\ is_json_number (float_str (FQ x)) = true.
Proof. intros z x. split; [apply dec_Z_number|apply float_str_number]. Qed.

(* a tree without duplicate member names reads the same whether a reader keeps the last of several
   members with one name (serde_json and most readers) or groups them: outside
   Known_C17_duplicate_names nothing is lost to such a reader *)
Theorem C17_no_duplicates_no_loss : forall j, has_dup_keys j = false -> norm false j = norm true j.
Proof. exact norm_no_duplicates. Qed.

(* a whole float of any magnitude (digits of its shortest representation, then zeros) is a JSON number *)
Theorem C17_whole_floats_wellformed : forall neg mant zeros,
  fw_ok mant = true -> is_json_number (float_str (FW neg mant zeros)) = true.
Proof. exact float_whole_number. Qed.

(* ---- witnesses: each known class is a real failure of the code as it is ---- *)

Definition w_store (target : sel) (data : list datum) : storev :=
  {| s_res := [Some {| r_id := LIT "r"; r_sels := [Some (0, 3)%nat] |}];
     s_sets := [Some (LIT "myset")];
     s_anns := [Some {| a_id := Some (LIT "a"); a_target := target; a_data := data |};
                Some {| a_id := None; a_target := STxt 0 0; a_data := [] |}] |}.

Definition w_config (ann_iri : str) : config :=
  {| c_ann_iri := ann_iri; c_set_iri := LIT "_:"; c_res_iri := LIT "_:"; c_extra_context := [];
     c_generated := None; c_generator := false; c_namespaces := []; c_template := None |}.

Definition w_datum (v : value) : datum := {| d_set := LIT "myset"; d_key := LIT "k"; d_val := v |}.

Definition export_of (st : storev) (c : config) : option json :=
  match to_webannotation st c 0 with Some s => parse_json s | None => None end.

Lemma Known_C17_nonfinite_witness :
  let st := w_store (STxt 0 0) [w_datum (VFloat FNaN)] in
  Known_C17_nonfinite {| a_id := Some (LIT "a"); a_target := STxt 0 0; a_data := [w_datum (VFloat FNaN)] |} = true
  /\ export_of st (w_config (LIT "_:")) = None.
Proof. split; vm_compute; reflexivity. Qed.

Lemma Known_C17_config_chars_witness :
  let st := w_store (STxt 0 0) [w_datum VNull] in
  Known_C17_config_chars (w_config (LIT "pre""fix:")) = true
  /\ export_of st (w_config (LIT "pre""fix:")) = None.
Proof. split; vm_compute; reflexivity. Qed.

(* formerly a class (fixed by 00f3950): a data key selector inside a complex selector is skipped and
   leaves no separator behind; the export is the intended tree without that item *)
Example C17_nested_unexportable_skipped :
  let tgt := SComp [SKey; STxt 0 0; SData; SDir [SKey]; SRes 0; SKey] in
  let st := w_store tgt [w_datum VNull] in
  exists j, export_ast st (w_config (LIT "_:")) 0 = Some j /\ export_of st (w_config (LIT "_:")) = Some j.
Proof. eexists. split; vm_compute; reflexivity. Qed.

(* two values under one key: well-formed, but a reader that keeps one member per name loses a value *)
Lemma Known_C17_duplicate_names_witness :
  let st := w_store (STxt 0 0) [w_datum (VInt 1); w_datum (VInt 2)] in
  Known_C17_duplicate_names st (w_config (LIT "_:")) 0 = true
  /\ exists j, export_of st (w_config (LIT "_:")) = Some j /\ norm false j <> norm true j.
Proof.
  split; [vm_compute; reflexivity|]. eexists. split; [vm_compute; reflexivity|]. vm_compute. discriminate.
Qed.

(* a target annotation without identifier is written as { "id": null } *)
Lemma Known_C17_anonymous_target_witness :
  let st := w_store (SAnn 1 None) [] in
  Known_C17_anonymous_target st {| a_id := Some (LIT "a"); a_target := SAnn 1 None; a_data := [] |} = true
  /\ exists m, export_of st (w_config (LIT "_:")) = Some (JObj m)
               /\ member (LIT "target") m = Some (JObj [(LIT "id", JNull)]).
Proof.
  split; [vm_compute; reflexivity|]. eexists. split; vm_compute; reflexivity.
Qed.

(* non-vacuity: an annotation with a quote, a backslash, U+0001, a newline and a non-BMP scalar
   value in its data, exported and read back as the intended tree *)
Example C17_nonvacuous :
  let v := VList [VStr [34; 92; 1; 10; 128512]%N; VInt (-42); VFloat (FQ 6); VNull; VBool true] in
  let st := w_store (SDir [STxt 0 0; SRes 0]) [w_datum v; {| d_set := NS_ANNO; d_key := LIT "motivation"; d_val := VStr (LIT "tagging") |}] in
  exists j, export_ast st (w_config (LIT "http://example.org/")) 0 = Some j
            /\ export_of st (w_config (LIT "http://example.org/")) = Some j
            /\ has_dup_keys j = false
  /\ parse_json [123; 34; 97; 34; 58; 49; 32; 34; 98; 34; 58; 50; 125]%N = None.
Proof. eexists. split; [vm_compute; reflexivity|]. split; [vm_compute; reflexivity|]. split; vm_compute; reflexivity. Qed.
