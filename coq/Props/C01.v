(* C01: reverse lookups agree with forward references after any history.
   [run ops] is the store after the operations [ops] (add-resource, add-dataset, insert
   data, annotate with any of the selector kinds, remove-annotation, remove-data strict and
   non-strict, remove-key, remove-resource, remove-dataset).  The m_ functions are the
   lookups as the code computes them (reverse index, FromHandles); the s_ functions are scans
   of the live annotations by "its own target / data refers to the item".  A scan is
   strictly increasing in the handle: chronological, nothing twice. *)
From Coq Require Import Sorting.Sorted ZArith.
From Stam Require Import Base.Tac Model.Offset Model.Store Model.StoreObs Spec.StoreSpec
     Proofs.StoreScan Proofs.StoreInv Proofs.StoreDataDef Proofs.StoreRemove Proofs.StoreData Proofs.StoreStable
     Model.Compress Proofs.Compress Proofs.StoreSel Model.SubOrder Proofs.SubOrder Model.SubOrderArms Gen.SubOrderTable Proofs.AgreeSubOrder Model.Forward Proofs.Forward Model.Adaptors Proofs.Adaptors.
From Stam Require Model.Validate Proofs.ValidateProtect.

(* every reverse index of every reachable store is exact *)
Theorem C01_index_invariant : forall ops, Inv (run ops).
Proof. intros ops. exact (proj1 (reachable_Good ops)). Qed.

Theorem C01_textselection_annotations : forall ops r t, m_ts_anns (run ops) r t = s_ts_anns (run ops) r t.
Proof. intros ops. exact (ts_anns_eq (run ops) (C01_index_invariant ops)). Qed.

Theorem C01_annotation_annotations : forall ops a, m_ann_anns (run ops) a = s_ann_anns (run ops) a.
Proof. intros ops. exact (ann_anns_eq (run ops) (C01_index_invariant ops)). Qed.

Theorem C01_resource_metadata : forall ops r, m_res_meta (run ops) r = s_res_meta (run ops) r.
Proof. intros ops. exact (res_meta_eq (run ops) (C01_index_invariant ops)). Qed.

Theorem C01_resource_annotations : forall ops r, m_res_text (run ops) r = s_res_text (run ops) r.
Proof. intros ops. exact (res_text_eq (run ops) (C01_index_invariant ops)). Qed.

Theorem C01_dataset_metadata : forall ops d, m_set_meta (run ops) d = s_set_meta (run ops) d.
Proof. intros ops. exact (set_meta_eq (run ops) (C01_index_invariant ops)). Qed.

Theorem C01_key_metadata : forall ops d k, m_key_meta (run ops) d k = s_key_meta (run ops) d k.
Proof. intros ops. exact (key_meta_eq (run ops) (C01_index_invariant ops)). Qed.

Theorem C01_data_metadata : forall ops d x, m_data_meta (run ops) d x = s_data_meta (run ops) d x.
Proof. intros ops. exact (data_meta_eq (run ops) (C01_index_invariant ops)). Qed.

Theorem C01_data_annotations : forall ops d x, m_data_anns (run ops) d x = s_data_anns (run ops) d x.
Proof. intros ops. exact (data_anns_eq (run ops) (C01_index_invariant ops)). Qed.

(* none twice, chronological: every scan is strictly increasing *)
Theorem C01_chronological_no_duplicates : forall s P, StronglySorted lt (scan s P).
Proof. intros s P. rewrite scan_scanl. apply scanl_sorted. Qed.

(* none missing, none extra *)
Theorem C01_scan_exact : forall s P h,
  In h (scan s P) <-> exists a, get_ann s h = Some a /\ P a = true.
Proof. intros s P h. rewrite scan_scanl. apply scanl_In. Qed.

(* an annotation only targets annotations older than itself, in every reachable store *)
Theorem C01_targets_older : forall ops, wf_targets (run ops).
Proof. intros ops. exact (proj1 (proj2 (reachable_Good ops))). Qed.

(* asking an annotation for its targets returns what it was built with: over ANY continuation of
   a history an annotation keeps its id, kind and target leaves; its data can only lose items
   (non-strict removal of data) *)
Theorem C01_targets_never_change : forall ops ops' h a',
  h < length (anns (run ops)) -> get_ann (run (ops ++ ops')) h = Some a' ->
  exists a, get_ann (run ops) h = Some a /\ same_ann a a'.
Proof. exact targets_never_change. Qed.

(* the counting shortcuts of the API (annotations_len of a text selection or a data item) read the
   length of an index entry: it is the number of live annotations that refer to the item *)
Theorem C01_counting_shortcuts : forall ops r t d x,
  length (tget (trm (run ops)) r t) = length (s_ts_anns (run ops) r t)
  /\ length (tget (ddam (run ops)) d x) = length (s_data_anns (run ops) d x).
Proof.
  intros ops r t d x. pose proof (C01_index_invariant ops) as HI.
  rewrite (I_trm noex _ HI), (I_ddam noex _ HI) by reflexivity. split; reflexivity.
Qed.

(* asking an annotation for its targets by kind (resources(), data_as_metadata(), ... walk the
   target recursively through annotation selectors): in every reachable store that walk
   terminates - targets are older than what names them - and its result does not depend on the
   fuel once it exceeds the number of annotation slots *)
Theorem C01_target_walk_terminates : forall ops h a k,
  get_ann (run ops) h = Some a ->
  rec_leaves (length (anns (run ops)) + k) (run ops) (a_leaves a) = all_leaves (run ops) a.
Proof. exact forward_walk_terminates. Qed.

(* ... and it computes the closure under "targets": the resources an annotation reaches through
   text selectors / names as metadata are those of its own selectors and of the selectors of
   every annotation reachable from it, nothing more, nothing less (the other kinds are compared
   with the same closure in the run) *)
Theorem C01_target_resources_are_the_closure : forall ops h a, get_ann (run ops) h = Some a ->
  fw_resources (run ops) a = sp_resources (run ops) a /\ fw_resources_meta (run ops) a = sp_resources_meta (run ops) a.
Proof. exact forward_resources_are_the_closure. Qed.

(* The comparator with which the members of Multi/Composite selectors are sorted before they are
   compressed (sort_unstable_by needs a consistent total order, for every mix of the nine selector
   kinds - the pinned code's comparator was not: fix f7d544a) is the lexicographic order of a key:
   antisymmetric, transitive, Equal exactly on equal keys. *)
Theorem C01_subselector_order_is_total : forall s a b c,
  leaf_cmp s a b = lex4 (leaf_sortkey s a) (leaf_sortkey s b)
  /\ leaf_cmp s b a = CompOpp (leaf_cmp s a b)
  /\ (leaf_cmp s a b <> Gt -> leaf_cmp s b c <> Gt -> leaf_cmp s a c <> Gt)
  /\ (leaf_cmp s a b = Eq <-> leaf_sortkey s a = leaf_sortkey s b).
Proof.
  intros s a b c. split; [apply leaf_cmp_key|]. split; [apply leaf_cmp_antisym|]. split; [apply leaf_cmp_trans|apply leaf_cmp_eq].
Qed.

(* ... and that comparator is the one the source contains now: [arms] is regenerated from the
   match arms of src/annotationstore.rs on every run (tools/translate_suborder.py) *)
Theorem C01_code_comparator_is_total : forall s a b c,
  interp arms s a b = leaf_cmp s a b
  /\ interp arms s b a = CompOpp (interp arms s a b)
  /\ (interp arms s a b <> Gt -> interp arms s b c <> Gt -> interp arms s a c <> Gt).
Proof.
  intros s a b c. destruct (code_comparator_is_total s a b c) as (_ & H2 & H3). split; [apply arms_agree|]. split; assumption.
Qed.

(* protect-text operations anywhere in the history (the operation of C18: it adds validation data
   to annotations through its own update of dataset_data_annotation_map): every reverse index
   stays exact.  [ValidateProtect.reach] = the stores built by the nine operations (data items
   given ids, not handles) and protect_text in any mode, in any order. *)
Theorem C01_index_invariant_with_protect_text : forall s, ValidateProtect.reach s -> Inv s.
Proof. intros s H. exact (ValidateProtect.W_inv s (ValidateProtect.reach_W s H)). Qed.

(* Complex selectors are stored range-compressed (consecutive text selections of one resource,
   consecutive annotations with or without text become one internal ranged selector) and every
   reader expands them again.  [compress] is the loop of subselectors(), [expand] the iteration
   of SelectorIter.  Nothing is lost, whatever order the subselectors were sorted into: *)
Theorem C01_compression_lossless : forall wh own l, Forall (Pown wh own) l -> expand own (compress wh l) = l.
Proof. exact expand_compress. Qed.

(* text selections are interned: one handle per range and resource in every reachable store *)
Theorem C01_text_selections_interned : forall ops r rs, get_res (run ops) r = Some rs -> NoDup (r_sels rs).
Proof. exact reachable_SelInv. Qed.

(* asking an annotation for its targets returns exactly what it was built with: the target
   resolved in the store [run ops] (giving the intermediate store s1 in which the compression
   decides what "covers the whole target" means), stored compressed, and read in the store after
   any continuation [ops'] of the history in which the annotation still exists *)
Theorem C01_compressed_target_roundtrip : forall ops b ops' tb s1 k l h a',
  ab_target b = Some tb -> resolve_target (run ops) tb = (s1, Some (k, l)) ->
  snd (annotate (run ops) b) = OOk h -> h = length (anns (run ops)) ->
  let s_now := run (ops ++ Annotate b :: ops') in
  get_ann s_now h = Some a' ->
  a_kind a' = k /\ a_leaves a' = l /\ seen s1 s_now l = l.
Proof. exact compressed_target_roundtrip. Qed.

(* non-vacuity of the round trip: three annotations on adjacent text, a MultiSelector over the
   three with offsets covering each entirely is stored as ONE ranged selector with text, and is
   read back as the three selectors after the first target's own annotation ... is still there *)
Example C01_roundtrip_nonvacuous :
  let ops := [AddRes 0 8;
              Annotate (mkab None (Some (BText (ById 0) (mkoff (CB 0) (CB 2)))) []);
              Annotate (mkab None (Some (BText (ById 0) (mkoff (CB 2) (CB 4)))) []);
              Annotate (mkab None (Some (BText (ById 0) (mkoff (CB 4) (CB 6)))) [])] in
  let whole_off := mkoff (CB 0) (CE 0) in
  let tb := BComplex 1 [BAnn (ByHandle 0) (Some whole_off); BAnn (ByHandle 1) (Some whole_off); BAnn (ByHandle 2) (Some whole_off)] in
  let '(s1, r) := resolve_target (run ops) tb in
  r = Some (1, [LAnnText 0 0 0 1; LAnnText 1 0 1 1; LAnnText 2 0 2 1])
  /\ compress (whole s1) [LAnnText 0 0 0 1; LAnnText 1 0 1 1; LAnnText 2 0 2 1] = [CRAnn 0 2 true]
  /\ snd (annotate (run ops) (mkab None (Some tb) [])) = OOk 3.
Proof. vm_compute. repeat split; reflexivity. Qed.

(* non-vacuity: a history with text, annotation-on-annotation with offset, a complex selector
   reaching one text selection twice, metadata on data, and two removals *)
Example C01_nonvacuous :
  let ops := [AddRes 0 8; AddSet 0;
              Annotate (mkab (Some 0) (Some (BText (ById 0) (mkoff (CB 1) (CB 4)))) [mkdb (ById 0) None (Some (ById 0)) (VInt 1%Z)]);
              Annotate (mkab (Some 1) (Some (BAnn (ById 0) (Some (mkoff (CB 0) (CB 2))))) []);
              Annotate (mkab None (Some (BComplex 1 [BText (ById 0) (mkoff (CB 1) (CB 4)); BText (ById 0) (mkoff (CB 1) (CB 4)); BRes (ById 0)])) [mkdb (ById 0) None (Some (ById 0)) (VInt 1%Z)]);
              Annotate (mkab None (Some (BData (ById 0) (ByHandle 0))) []);
              RmAnn (ById 0)] in
  let s := run ops in
  m_ts_anns s 0 0 = [2] /\ s_ts_anns s 0 0 = [2] /\ m_data_anns s 0 0 = [2] /\ m_data_meta s 0 0 = [3]
  /\ m_res_meta s 0 = [2] /\ get_ann s 0 = None /\ get_ann s 1 = None.
Proof. cbv zeta. repeat split; reflexivity. Qed.

(* The iterator adaptors of the API (an iterator of annotations / data / keys / resources mapped to
   the annotations, resources, ... of its items): the answer is the union of the per-item answers,
   chronological and duplicate-free, for any selection of items ... *)
Theorem C01_adaptor_is_exact_union : forall f l y,
  (In y (un f l) <-> exists it, In it l /\ In y (f it)) /\ StronglySorted lt (un f l).
Proof. intros f l y. split; [apply un_In|apply un_sorted]. Qed.

(* ... and in every reachable store what the code computes from the reverse indices and the
   recursive walk is what the scans and the closure say *)
Theorem C01_adaptors_index_is_scan : forall ops even,
  let s := run ops in
  ad_annotations s true (live_anns s even) = ad_annotations s false (live_anns s even)
  /\ ad_resources s true (live_anns s even) = ad_resources s false (live_anns s even)
  /\ ad_resources_meta s true (live_anns s even) = ad_resources_meta s false (live_anns s even)
  /\ res_annotations s true = res_annotations s false
  /\ res_annotations_meta s true = res_annotations_meta s false.
Proof. exact adaptors_index_is_scan. Qed.

Theorem C01_dataset_adaptors_index_is_scan : forall ops d ds,
  let s := run ops in
  ds_data_annotations s true d ds = ds_data_annotations s false d ds
  /\ ds_data_annotations_meta s true d ds = ds_data_annotations_meta s false d ds
  /\ ds_keys_annotations_meta s true d ds = ds_keys_annotations_meta s false d ds.
Proof. exact dataset_adaptors_index_is_scan. Qed.
