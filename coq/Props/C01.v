(* C01: reverse lookups agree with forward references after any history.
   [run ops] is the store after the operations [ops] (add-resource, add-dataset, insert
   data, annotate with any of the selector kinds, remove-annotation, remove-data strict and
   non-strict, remove-key, remove-resource, remove-dataset).  The m_ functions are the
   lookups as the code computes them (reverse index, FromHandles); the s_ functions are scans
   of the live annotations by "its own target / data refers to the item".  A scan is
   strictly increasing in the handle: chronological, nothing twice. *)
From Coq Require Import Sorting.Sorted ZArith.
From Stam Require Import Base.Tac Model.Offset Model.Store Model.StoreObs Spec.StoreSpec
     Proofs.StoreScan Proofs.StoreInv Proofs.StoreDataDef Proofs.StoreRemove Proofs.StoreData Proofs.StoreStable.

(* every reverse index of every reachable store is exact *)
Theorem C01_index_invariant : forall ops, Inv (run ops).
Proof. intros ops. exact (proj1 (reachable_Good ops)). Qed.

Theorem C01_textselection_annotations : forall ops r t, m_ts_anns (run ops) r t = s_ts_anns (run ops) r t.
Proof. intros ops. exact (ts_anns_eq (run ops) (C01_index_invariant ops)). Qed.

Theorem C01_annotation_annotations : forall ops a, m_ann_anns (run ops) a = s_ann_anns (run ops) a.
Proof. intros ops. exact (ann_anns_eq (run ops) (C01_index_invariant ops)). Qed.

Theorem C01_resource_metadata : forall ops r, m_res_meta (run ops) r = s_res_meta (run ops) r.
Proof. intros ops. exact (res_meta_eq (run ops) (C01_index_invariant ops)). Qed.

Theorem C01_resource_annotations : forall ops r, m_res_text (run ops) r = s_res_text (run ops) r.
Proof. intros ops. exact (res_text_eq (run ops) (C01_index_invariant ops)). Qed.

Theorem C01_dataset_metadata : forall ops d, m_set_meta (run ops) d = s_set_meta (run ops) d.
Proof. intros ops. exact (set_meta_eq (run ops) (C01_index_invariant ops)). Qed.

Theorem C01_key_metadata : forall ops d k, m_key_meta (run ops) d k = s_key_meta (run ops) d k.
Proof. intros ops. exact (key_meta_eq (run ops) (C01_index_invariant ops)). Qed.

Theorem C01_data_metadata : forall ops d x, m_data_meta (run ops) d x = s_data_meta (run ops) d x.
Proof. intros ops. exact (data_meta_eq (run ops) (C01_index_invariant ops)). Qed.

Theorem C01_data_annotations : forall ops d x, m_data_anns (run ops) d x = s_data_anns (run ops) d x.
Proof. intros ops. exact (data_anns_eq (run ops) (C01_index_invariant ops)). Qed.

(* none twice, chronological: every scan is strictly increasing *)
Theorem C01_chronological_no_duplicates : forall s P, StronglySorted lt (scan s P).
Proof. intros s P. rewrite scan_scanl. apply scanl_sorted. Qed.

(* none missing, none extra *)
Theorem C01_scan_exact : forall s P h,
  In h (scan s P) <-> exists a, get_ann s h = Some a /\ P a = true.
Proof. intros s P h. rewrite scan_scanl. apply scanl_In. Qed.

(* an annotation only targets annotations older than itself, in every reachable store *)
Theorem C01_targets_older : forall ops, wf_targets (run ops).
Proof. intros ops. exact (proj1 (proj2 (reachable_Good ops))). Qed.

(* asking an annotation for its targets returns what it was built with: over ANY continuation of
   a history an annotation keeps its id, kind and target leaves; its data can only lose items
   (non-strict removal of data) *)
Theorem C01_targets_never_change : forall ops ops' h a',
  h < length (anns (run ops)) -> get_ann (run (ops ++ ops')) h = Some a' ->
  exists a, get_ann (run ops) h = Some a /\ same_ann a a'.
Proof. exact targets_never_change. Qed.

(* non-vacuity: a history with text, annotation-on-annotation with offset, a complex selector
   reaching one text selection twice, metadata on data, and two removals *)
Example C01_nonvacuous :
  let ops := [AddRes 0 8; AddSet 0;
              Annotate (mkab (Some 0) (Some (BText (ById 0) (mkoff (CB 1) (CB 4)))) [mkdb (ById 0) None (Some (ById 0)) (VInt 1%Z)]);
              Annotate (mkab (Some 1) (Some (BAnn (ById 0) (Some (mkoff (CB 0) (CB 2))))) []);
              Annotate (mkab None (Some (BComplex 1 [BText (ById 0) (mkoff (CB 1) (CB 4)); BText (ById 0) (mkoff (CB 1) (CB 4)); BRes (ById 0)])) [mkdb (ById 0) None (Some (ById 0)) (VInt 1%Z)]);
              Annotate (mkab None (Some (BData (ById 0) (ByHandle 0))) []);
              RmAnn (ById 0)] in
  let s := run ops in
  m_ts_anns s 0 0 = [2] /\ s_ts_anns s 0 0 = [2] /\ m_data_anns s 0 0 = [2] /\ m_data_meta s 0 0 = [3]
  /\ m_res_meta s 0 = [2] /\ get_ann s 0 = None /\ get_ann s 1 = None.
Proof. cbv zeta. repeat split; reflexivity. Qed.
