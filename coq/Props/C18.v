(* C18: text validation accepts unchanged text and flags changed text.
   H is the digest (SHA-1, lower-case hex) as a Section variable of the proof files; what is asked
   of it is stated in each theorem: nothing in text mode, no collision between the two joined
   strings compared otherwise. *)
From Coq Require Import NArith.
From Stam Require Import Base.Tac Model.Offset Model.Utf8 Model.Store Model.Validate
     Spec.ValidateSpec Proofs.ValidateJoin.

(* joins of lists of strings with the same length profile are equal only if the lists are
   (any delimiter; the delimiter is only put behind something non-empty) *)
Theorem C18_join_determines_pieces : forall d ps qs,
  map (@length N) ps = map (@length N) qs -> text_join d ps = text_join d qs -> ps = qs.
Proof. exact join_inj. Qed.

(* validate_text computes: every reference the annotation carries matches the joined text *)
Theorem C18_validate_is_reference_check : forall H txts s a,
  validate_ann H txts s a = by_reference H s a (ann_pieces txts s a).
Proof. exact validate_by_reference. Qed.

(* references computed from the selected strings validate *)
Theorem C18_references_validate : forall H s a ps,
  refs_from H s a ps -> some_text ps = true -> by_reference H s a ps = Some true.
Proof. exact refs_valid. Qed.

(* against strings of the same lengths: invalid exactly when a string differs *)
Theorem C18_references_detect : forall H s a ps ps',
  refs_from H s a ps -> some_text ps = true ->
  map (@length N) ps = map (@length N) ps' ->
  (let d := odflt (ann_vstr s a KDEL) in H (text_join d ps) = H (text_join d ps') -> text_join d ps = text_join d ps') ->
  by_reference H s a ps' = Some (texts_eqb ps ps').
Proof. exact refs_detect. Qed.

Theorem C18_references_detect_text_mode : forall H s a ps ps',
  refs_from H s a ps -> ann_vstr s a KCHK = None -> some_text ps = true ->
  map (@length N) ps = map (@length N) ps' ->
  by_reference H s a ps' = Some (texts_eqb ps ps').
Proof. exact refs_detect_text. Qed.

(* the order in which the code walks the selections does not matter for "the characters differ" *)
Theorem C18_code_order_irrelevant : forall txts txts' s a,
  ann_pieces txts s a = ann_pieces txts' s a <-> selected txts s a = selected txts' s a.
Proof. exact pieces_eq_selected. Qed.

Example C18_nonvacuous :
  let d := [32%N] in
  text_join d [[97%N]; []; [98%N; 99%N]] = [97%N; 32%N; 32%N; 98%N; 99%N]
  /\ text_join d [[]; [97%N]] = [97%N]
  /\ text_join [] [[97%N]; [97%N; 97%N]] = text_join [] [[97%N; 97%N]; [97%N]].
Proof. repeat split; reflexivity. Qed.

(* Known class: when the offsets are resolved again against a text of another length, the strings
   an annotation selects may differ while their joins coincide (a Multi selection [0,1)+[2,5) of
   "aaaaaa" with end-aligned cursors becomes [0,2)+[3,5) of "aaaaaaa"); the stored reference is
   the joined string, so validation cannot tell.  With the same lengths this cannot happen
   (C18_join_determines_pieces). *)
Definition Known_C18_regrouped (d : text) (old new : list text) : bool := regrouped d old new.

Lemma Known_C18_regrouped_witness :
  let a := 97%N in
  let old := [[a]; [a; a; a]] in let new := [[a; a]; [a; a]] in
  Known_C18_regrouped [] old new = true /\ old <> new
  /\ forall H s an, refs_from H s an old -> ann_vstr s an KDEL = None ->
       by_reference H s an new = by_reference H s an old.
Proof.
  cbv zeta. split; [reflexivity|]. split; [discriminate|].
  intros H s an _ Hd. unfold by_reference. rewrite Hd. reflexivity.
Qed.
