(* C18: text validation accepts unchanged text and flags changed text.
   H is the digest (SHA-1, lower-case hex) as a Section variable of the proof files; what is asked
   of it is stated in each theorem: nothing in text mode, no collision between the two joined
   strings compared otherwise. *)
From Coq Require Import NArith ZArith.
From Stam Require Import Base.Tac Model.Offset Model.Utf8 Model.Store Model.Validate
     Spec.StoreSpec Spec.ValidateSpec Proofs.StoreInv Proofs.StoreSets Proofs.ValidateJoin Proofs.ValidateProtect Proofs.ValidateReload
     Proofs.StoreSel Proofs.StoreRange Proofs.ValidateNest.

(** W s: every invariant of a reachable store (reverse indices exact and chronological, dataset
    invariants incl. the deduplicated vocabulary, exact id maps, no dangling reference).
    It holds in every store built by the nine operations of C01 and protect_text, in any order. *)
Theorem C18_reachable_invariants : forall s, reach s -> W s.
Proof. exact reach_W. Qed.

Theorem C18_histories_invariants : forall ops, Forall op_ok ops -> W (run ops).
Proof. exact reachable_W. Qed.

(** protect_text neither fails nor panics, and keeps every invariant: the reverse index it
    updates by hand (dataset_data_annotation_map) stays exact and in chronological order, the
    validation dataset keeps its key index, id maps and deduplicated vocabulary *)
Theorem C18_protect_total : forall H txts s m, W s -> snd (protect H txts s m) = OOk 0.
Proof. exact protect_total. Qed.

Theorem C18_protect_inv : forall H txts s m, W s -> W (fst (protect H txts s m)).
Proof. exact protect_W. Qed.

Theorem C18_protect_index_exact : forall H txts s m, W s ->
  let s' := fst (protect H txts s m) in
  (forall d x, tget (ddam s') d x = s_data_anns s' d x) /\ SetsInv s'.
Proof.
  intros H txts s m HW s'. pose proof (protect_W H txts s m HW) as [HI HS _ _ _ _ _].
  split; [intros d x; exact (I_ddam _ _ HI d x eq_refl)|exact HS].
Qed.

(** First half.  In every mode, every annotation of the protected store that did not carry
    validation information of its own is reported valid if it selects text (some selected
    string is non-empty) and missing otherwise - never invalid; annotations are neither created
    nor lost. *)
Theorem C18_protect_valid : forall H txts s m, W s ->
  forall y a0, get_ann s y = Some a0 -> carries_info s a0 = false ->
  exists a1, get_ann (fst (protect H txts s m)) y = Some a1
             /\ validate_ann H txts (fst (protect H txts s m)) a1 = demand_protected txts s a0.
Proof. exact protect_valid_store. Qed.

Theorem C18_protect_same_slots : forall H txts s m, W s ->
  forall y, get_ann (fst (protect H txts s m)) y = None <-> get_ann s y = None.
Proof. exact protect_same_slots. Qed.

(** Second half.  The protected store read against texts of the same lengths (any number of
    substitutions in any resources): an annotation is reported invalid exactly when a string it
    selects differs, valid when none does, missing when it selects no text.  The digest is only
    asked not to collide on the two joined strings compared ... *)
Theorem C18_detects : forall H txts txts' s m, W s ->
  map (@length N) txts = map (@length N) txts' ->
  forall y a0, get_ann s y = Some a0 -> carries_info s a0 = false ->
  let d := odflt (ann_vstr s a0 KDEL) in
  H_inj_on H [text_join d (ann_pieces txts s a0); text_join d (ann_pieces txts' s a0)] ->
  exists a1, get_ann (fst (protect H txts s m)) y = Some a1
             /\ validate_ann H txts' (fst (protect H txts s m)) a1 = demand_edited txts txts' s a0.
Proof. exact protect_detects_store. Qed.

(** ... and not even that whenever the mode wrote a text reference (Text, Both, Auto below 40
    characters) *)
Theorem C18_detects_text_reference : forall H txts txts' s m, W s ->
  map (@length N) txts = map (@length N) txts' ->
  forall y a0, get_ann s y = Some a0 -> carries_info s a0 = false ->
  snd (mode_flags m (ranges_len (ann_ranges s a0))) = true ->
  exists a1, get_ann (fst (protect H txts s m)) y = Some a1
             /\ validate_ann H txts' (fst (protect H txts s m)) a1 = demand_edited txts txts' s a0.
Proof. exact protect_detects_text_store. Qed.

Theorem C18_invalid_iff_differs : forall txts txts' s a,
  demand_edited txts txts' s a = Some false <-> (selects_text txts s a = true /\ selected txts s a <> selected txts' s a).
Proof. exact demand_edited_invalid_iff. Qed.

(* joins of lists of strings with the same length profile are equal only if the lists are
   (any delimiter; the delimiter is only put behind something non-empty) *)
Theorem C18_join_determines_pieces : forall d ps qs,
  map (@length N) ps = map (@length N) qs -> text_join d ps = text_join d qs -> ps = qs.
Proof. exact join_inj. Qed.

(* validate_text computes: every reference the annotation carries matches the joined text *)
Theorem C18_validate_is_reference_check : forall H txts s a,
  validate_ann H txts s a = by_reference H s a (ann_pieces txts s a).
Proof. exact validate_by_reference. Qed.

(* references computed from the selected strings validate *)
Theorem C18_references_validate : forall H s a ps,
  refs_from H s a ps -> some_text ps = true -> by_reference H s a ps = Some true.
Proof. exact refs_valid. Qed.

(* against strings of the same lengths: invalid exactly when a string differs *)
Theorem C18_references_detect : forall H s a ps ps',
  refs_from H s a ps -> some_text ps = true ->
  map (@length N) ps = map (@length N) ps' ->
  (let d := odflt (ann_vstr s a KDEL) in H (text_join d ps) = H (text_join d ps') -> text_join d ps = text_join d ps') ->
  by_reference H s a ps' = Some (texts_eqb ps ps').
Proof. exact refs_detect. Qed.

Theorem C18_references_detect_text_mode : forall H s a ps ps',
  refs_from H s a ps -> ann_vstr s a KCHK = None -> some_text ps = true ->
  map (@length N) ps = map (@length N) ps' ->
  by_reference H s a ps' = Some (texts_eqb ps ps').
Proof. exact refs_detect_text. Qed.

(* the order in which the code walks the selections does not matter for "the characters differ" *)
Theorem C18_code_order_irrelevant : forall txts txts' s a,
  ann_pieces txts s a = ann_pieces txts' s a <-> selected txts s a = selected txts' s a.
Proof. exact pieces_eq_selected. Qed.

(* a store with a Multi selection over "abcab", protected in mode Both with a toy digest: valid;
   against "abXab" the annotation over [0,2)+[3,5) stays valid and the one over [2,3) turns invalid *)
Example C18_nonvacuous :
  let H := fun t : text => 48%N :: t in
  let t0 := [97; 98; 99; 97; 98]%N in let t1 := [97; 98; 88; 97; 98]%N in
  let ops := [AddRes 0 5;
              Annotate (mkab None (Some (BComplex 1 [BText (ById 0) (mkoff (CB 3) (CB 5)); BText (ById 0) (mkoff (CB 0) (CB 2))])) []);
              Annotate (mkab None (Some (BText (ById 0) (mkoff (CB 2) (CE (Zneg 2))))) []);
              Annotate (mkab None (Some (BRes (ById 0))) [])] in
  let s := run ops in
  let s' := fst (protect H [t0] s 2) in
  Forall op_ok ops
  /\ validate_all H [t0] s' = [Some (Some true); Some (Some true); Some None]
  /\ validate_all H [t1] s' = [Some (Some true); Some (Some false); Some None]
  /\ text_join [32%N] [[97%N]; []; [98%N; 99%N]] = [97%N; 32%N; 32%N; 98%N; 99%N]
  /\ text_join [32%N] [[]; [97%N]] = [97%N].
Proof. cbv zeta. split; [repeat constructor|]. repeat split; vm_compute; reflexivity. Qed.

(* loading the store's own serialisation against a resource of unchanged length gives every text
   selector the selection it had, whatever the alignment of its cursors; relative selectors
   likewise when the parent kept its selection *)
Theorem C18_same_length_same_selection : forall s lens singles r t m rs b e,
  get_res s r = Some rs -> nth_error (r_sels rs) t = Some (b, e) ->
  b <= e -> e <= r_len rs -> lens r = r_len rs ->
  reresolve_leaf s lens singles (LText r t m) = Some (Some (r, (b, e))).
Proof. exact reresolve_text_same. Qed.

Theorem C18_same_parent_same_selection : forall s lens singles p r t m rs pa pr pt pb pe b e,
  get_res s r = Some rs -> get_ann s p = Some pa -> nth_error (r_sels rs) t = Some (b, e) ->
  ann_textsel s pa = Some (pr, pt, (pb, pe)) ->
  alookup p singles = Some (pr, (pb, pe)) ->
  pb <= b -> b <= e -> e <= pe ->
  reresolve_leaf s lens singles (LAnnText p r t m) = Some (Some (r, (b, e))).
Proof. exact reresolve_relative_same. Qed.

(** The whole store.  W2 = W + one handle per range (SelInv) + every selection inside its resource
    (RangeInv, C04) + every annotation-relative selection inside the single selection of its
    parent (NestInv); it holds in every store built by the store operations and protect_text. *)
Theorem C18_reachable_ranges : forall s, reach s -> W2 s.
Proof. exact reach_W2. Qed.

Theorem C18_histories_ranges : forall ops, Forall op_ok ops -> W2 (run ops).
Proof. exact reachable_W2. Qed.

(* loading the store's own serialisation against resources of unchanged length is never refused
   and gives every annotation exactly the text selections it had, in the order of the code *)
Theorem C18_same_lengths_same_selections : forall s lens, W2 s ->
  (forall r rs, get_res s r = Some rs -> lens r = r_len rs) ->
  reresolve s lens = Some (live_ranges s (seq 0 (length (anns s)))).
Proof. intros s lens [HW _ HR HN] Hl. exact (reresolve_same s lens HR HN (W_wf s HW) Hl). Qed.

(* hence: the protected store, loaded against ANY texts of the same lengths, validates exactly as
   C18_detects says (the verdicts after loading are validate_ann on the unchanged selections) *)
Theorem C18_reload_same_lengths : forall H txts txts' s m, reach s -> texts_fit s txts ->
  map (@length N) txts = map (@length N) txts' ->
  let s' := fst (protect H txts s m) in
  reload_verdicts H s' txts' = Some (map (validate_ann H txts' s') (live_anns s')).
Proof. exact protect_reload_same_lengths. Qed.

(* Known class: when the offsets are resolved again against a text of another length, the strings
   an annotation selects may differ while their joins coincide (a Multi selection [0,1)+[2,5) of
   "aaaaaa" with end-aligned cursors becomes [0,2)+[3,5) of "aaaaaaa"); the stored reference is
   the joined string, so validation cannot tell.  With the same lengths this cannot happen
   (C18_join_determines_pieces). *)
Definition Known_C18_regrouped (d : text) (old new : list text) : bool := regrouped d old new.

(* offsets resolved against a text of another length (insertions, deletions): outside the class
   the verdict is still "invalid exactly when a selected string differs" *)
Theorem C18_other_length_guarded : forall H s a ps ps',
  refs_from H s a ps -> some_text ps = true ->
  (let d := odflt (ann_vstr s a KDEL) in H (text_join d ps) = H (text_join d ps') -> text_join d ps = text_join d ps') ->
  Known_C18_regrouped (odflt (ann_vstr s a KDEL)) ps ps' = false ->
  by_reference H s a ps' = Some (texts_eqb ps ps').
Proof. exact refs_detect_guarded. Qed.

Theorem Known_C18_regrouped_refuted : forall H s a ps ps',
  refs_from H s a ps -> some_text ps = true ->
  Known_C18_regrouped (odflt (ann_vstr s a KDEL)) ps ps' = true ->
  by_reference H s a ps' = Some true /\ ps <> ps'.
Proof. exact refs_regrouped_refuted. Qed.

Lemma Known_C18_regrouped_witness :
  let a := 97%N in
  let old := [[a]; [a; a; a]] in let new := [[a; a]; [a; a]] in
  Known_C18_regrouped [] old new = true /\ old <> new
  /\ forall H s an, refs_from H s an old -> ann_vstr s an KDEL = None ->
       by_reference H s an new = by_reference H s an old.
Proof.
  cbv zeta. split; [reflexivity|]. split; [discriminate|].
  intros H s an _ Hd. unfold by_reference. rewrite Hd. reflexivity.
Qed.
