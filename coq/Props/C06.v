(* C06: the related-text search returns exactly the known selections in the
   relation with the reference - sound, complete, each once - for every text
   length, every list of known selections, every reference set and every
   operator/modifier combination.  `generic o` excludes only plain Equals
   (all=false, negate=false), which is answered by a direct lookup of the
   reference ranges (the C06_equals theorems) and is the one relation that returns the
   reference itself. *)
From Coq Require Import Permutation.
From Stam Require Import Base.Tac Model.Rel Model.Search Proofs.Rel Proofs.Search Proofs.SearchEach.

Theorem C06_sound : forall ws o R K len h, generic o ->
  In h (search ws o R K len) -> In h (related ws o R K).
Proof. exact search_sound. Qed.

Theorem C06_complete : forall ws o R K len h, generic o ->
  set_ok R -> items R <> [] -> known_ok K len ->
  In h (related ws o R K) -> In h (search ws o R K len).
Proof. exact search_complete. Qed.

Theorem C06_each_once : forall ws o R K len, generic o -> NoDup (search ws o R K len).
Proof. exact search_nodup. Qed.

Theorem C06_exactly_the_relation : forall ws o R K len, generic o ->
  set_ok R -> items R <> [] -> known_ok K len ->
  Permutation (search ws o R K len) (related ws o R K).
Proof. exact search_is_relation. Qed.

Theorem C06_never_the_reference : forall ws o R K len h, generic o ->
  In h (search ws o R K len) -> has_handle R h = false.
Proof. exact search_not_reference. Qed.

Theorem C06_range_covers : forall ws o R c len, set_ok R -> items R <> [] -> tb c <= te c -> te c <= len ->
  test_set_ts ws o R c = true -> in_range (search_range o R len) c.
Proof. exact range_sound. Qed.

Theorem C06_equals_sound : forall K refs h, In h (equals_shortcut K refs) ->
  h < length K /\ exists r, In r refs /\ tb (nth h K dflt) = tb r /\ te (nth h K dflt) = te r.
Proof. exact equals_shortcut_sound. Qed.

Theorem C06_equals_returns_self : forall K r h len, known_ok K len ->
  h < length K -> tb (nth h K dflt) = tb r -> te (nth h K dflt) = te r ->
  (forall h', h' < length K -> tb (nth h' K dflt) = tb r -> te (nth h' K dflt) = te r -> h' = h) ->
  equals_shortcut K [r] = [h].
Proof. exact equals_single_complete. Qed.

(* non-vacuity: a text of 9 codepoints, four known selections (one zero-width at the very end),
   reference = selection 1 (in the second half), Overlaps and negated Embeds *)
Example C06_nonvacuous :
  let K := [mkts (Some 0) 0 3; mkts (Some 1) 5 8; mkts (Some 2) 6 9; mkts (Some 3) 9 9] in
  let R := mkset [mkts (Some 1) 5 8] false in
  known_ok K 9 /\ set_ok R /\ items R <> []
  /\ search [] (mkop Overlaps false false None false) R K 9 = [2]
  /\ search [] (mkop Embeds false true None false) R K 9 = [0; 2; 3]
  /\ search [] (mkop Before false false None false) R K 9 = [3].
Proof.
  cbv zeta. split; [|split; [|split; [|split; [|split]]]]; try reflexivity.
  - intros h Hh. cbn [length] in Hh.
    destruct h as [|[|[|[|h]]]]; cbn; try lia; intuition (try lia; try reflexivity).
  - split; [discriminate|]. repeat constructor; unfold wf; cbn; lia.
  - cbn. discriminate.
Qed.

(* The search from an iterator of selections (TextSelectionIterator::related_text: every reference
   asked on its own, the answers gathered, sorted, duplicates dropped) returns exactly the known
   selections related to SOME reference, each once - for any number of references. *)
Theorem C06_from_iterator_exact : forall ws o refs K len h, generic o -> Forall wf refs -> known_ok K len ->
  (In h (search_each ws o refs K len) <-> exists r, In r refs /\ In h (related ws o (mkset [r] false) K)).
Proof. exact search_each_exact. Qed.

Theorem C06_from_iterator_each_once : forall ws o refs K len, NoDup (search_each ws o refs K len).
Proof. exact search_each_once. Qed.
