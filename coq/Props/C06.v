(* C06: the related-text search returns exactly the known selections in the
   relation with the reference - sound, complete, each once - for every text
   length, every list of known selections, every reference set and every
   operator/modifier combination.  `generic o` excludes only plain Equals
   (all=false, negate=false), which is answered by a direct lookup of the
   reference ranges (the C06_equals theorems) and is the one relation that returns the
   reference itself. *)
From Coq Require Import Permutation.
From Stam Require Import Base.Tac Model.Rel Model.Search Proofs.Rel Proofs.Search Proofs.SearchEach Model.RelArms Model.RangeArms Gen.RangeTable Proofs.AgreeRange Gen.RelPairTable Gen.RelSetTables Proofs.AgreeRelSets.

Theorem C06_sound : forall ws o R K len h, generic o ->
  In h (search ws o R K len) -> In h (related ws o R K).
Proof. exact search_sound. Qed.

Theorem C06_complete : forall ws o R K len h, generic o ->
  set_ok R -> items R <> [] -> known_ok K len ->
  In h (related ws o R K) -> In h (search ws o R K len).
Proof. exact search_complete. Qed.

Theorem C06_each_once : forall ws o R K len, generic o -> NoDup (search ws o R K len).
Proof. exact search_nodup. Qed.

Theorem C06_exactly_the_relation : forall ws o R K len, generic o ->
  set_ok R -> items R <> [] -> known_ok K len ->
  Permutation (search ws o R K len) (related ws o R K).
Proof. exact search_is_relation. Qed.

Theorem C06_never_the_reference : forall ws o R K len h, generic o ->
  In h (search ws o R K len) -> has_handle R h = false.
Proof. exact search_not_reference. Qed.

Theorem C06_range_covers : forall ws o R c len, set_ok R -> items R <> [] -> tb c <= te c -> te c <= len ->
  test_set_ts ws o R c = true -> in_range (search_range o R len) c.
Proof. exact range_sound. Qed.

Theorem C06_equals_sound : forall K refs h, In h (equals_shortcut K refs) ->
  h < length K /\ exists r, In r refs /\ tb (nth h K dflt) = tb r /\ te (nth h K dflt) = te r.
Proof. exact equals_shortcut_sound. Qed.

Theorem C06_equals_returns_self : forall K r h len, known_ok K len ->
  h < length K -> tb (nth h K dflt) = tb r -> te (nth h K dflt) = te r ->
  (forall h', h' < length K -> tb (nth h' K dflt) = tb r -> te (nth h' K dflt) = te r -> h' = h) ->
  equals_shortcut K [r] = [h].
Proof. exact equals_single_complete. Qed.

(* non-vacuity: a text of 9 codepoints, four known selections (one zero-width at the very end),
   reference = selection 1 (in the second half), Overlaps and negated Embeds *)
Example C06_nonvacuous :
  let K := [mkts (Some 0) 0 3; mkts (Some 1) 5 8; mkts (Some 2) 6 9; mkts (Some 3) 9 9] in
  let R := mkset [mkts (Some 1) 5 8] false in
  known_ok K 9 /\ set_ok R /\ items R <> []
  /\ search [] (mkop Overlaps false false None false) R K 9 = [2]
  /\ search [] (mkop Embeds false true None false) R K 9 = [0; 2; 3]
  /\ search [] (mkop Before false false None false) R K 9 = [3].
Proof.
  cbv zeta. split; [|split; [|split; [|split; [|split]]]]; try reflexivity.
  - intros h Hh. cbn [length] in Hh.
    destruct h as [|[|[|[|h]]]]; cbn; try lia; intuition (try lia; try reflexivity).
  - split; [discriminate|]. repeat constructor; unfold wf; cbn; lia.
  - cbn. discriminate.
Qed.

(* The search from an iterator of selections (TextSelectionIterator::related_text: every reference
   asked on its own, the answers gathered, sorted, duplicates dropped) returns exactly the known
   selections related to SOME reference, each once - for any number of references. *)
Theorem C06_from_iterator_exact : forall ws o refs K len h, generic o -> Forall wf refs -> known_ok K len ->
  (In h (search_each ws o refs K len) <-> exists r, In r refs /\ In h (related ws o (mkset [r] false) K)).
Proof. exact search_each_exact. Qed.

Theorem C06_from_iterator_each_once : forall ws o refs K len, NoDup (search_each ws o refs K len).
Proof. exact search_each_once. Qed.

(* The slice of the position index and the direction of the walk are the ones the source chooses
   now: [range_arms] is regenerated on every run from the arms of
   FindTextSelectionsIter::init_textseliters (tools/translate_range.py) ... *)
Theorem C06_code_range_is_the_model : forall o R len,
  interp_range range_arms o (ref_begin R) (ref_end R) len = Some (search_range o R len).
Proof. exact range_arms_agree. Qed.

(* ... so the key obligation holds of the code's own arms: whenever the relation test can hold of a
   candidate inside the text, the candidate's begin (walking forward) or end (walking backwards)
   lies in the slice the code walks *)
Theorem C06_code_range_covers : forall ws o R c len, set_ok R -> items R <> [] -> tb c <= te c -> te c <= len ->
  test_set_ts ws o R c = true ->
  exists rg, interp_range range_arms o (ref_begin R) (ref_end R) len = Some rg /\ in_range rg c.
Proof.
  intros ws o R c len H1 H2 H3 H4 H5. exists (search_range o R len). split; [apply range_arms_agree|].
  apply (range_sound ws o R c len H1 H2 H3 H4 H5).
Qed.

(* and the filter applied to every candidate of the walk is the code's own relation test
   (TextSelectionSet::test, tools/translate_relsets.py, see C13) *)
Theorem C06_code_filter_is_the_model : forall ws o R c,
  interp_set_ts pair_arms set_ts_arms ws o R c = Some (test_set_ts ws o R c).
Proof. exact set_ts_arms_agree. Qed.
