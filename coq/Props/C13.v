(* C13  Text-selection relations have their documented algebraic meaning.
   Only statements: every theorem is closed by [exact] of a lemma of
   Proofs/Rel.v.  [ws] is the whitespace flag of every codepoint of the text. *)
From Stam Require Import Base.Tac Model.Rel Spec.RelSpec Proofs.Rel Model.RelArms Gen.RelPairTable Proofs.AgreeRelPair Gen.RelTsSetTable Proofs.AgreeRelSet Gen.RelSetTables Proofs.AgreeRelSets.

(* model = documented meaning, pairs and sets, every operator and modifier *)
Theorem C13_pair_spec : forall ws o s r, wf s -> wf r ->
  test_pair ws o s r = spec_pair ws o s r.
Proof. exact test_pair_spec. Qed.

Theorem C13_ts_set_spec : forall ws o s B, wf s -> set_ok B ->
  test_ts_set ws o s B = spec_ts_set ws o s (items B).
Proof. exact test_ts_set_spec. Qed.

Theorem C13_set_ts_spec : forall ws o A r, set_ok A -> wf r ->
  test_set_ts ws o A r = spec_set_ts ws o (items A) r.
Proof. exact test_set_ts_spec. Qed.

Theorem C13_set_set_spec : forall ws o A B, set_ok A -> set_ok B ->
  test_set_set ws o A B = spec_set_set ws o (items A) (items B).
Proof. exact test_set_set_spec. Qed.

(* interval-arithmetic definitions *)
Theorem C13_meaning_equals : forall ws a l w s r,
  test_pair ws (O Equals a false l w) s r = true <-> hid s = hid r /\ tb s = tb r /\ te s = te r.
Proof. exact meaning_equals. Qed.
Theorem C13_meaning_embeds : forall ws a l w s r,
  test_pair ws (O Embeds a false l w) s r = true <-> tb s <= tb r /\ te r <= te s.
Proof. exact meaning_embeds. Qed.
Theorem C13_meaning_embedded : forall ws a w s r,
  test_pair ws (O Embedded a false None w) s r = true <-> tb r <= tb s /\ te s <= te r.
Proof. exact meaning_embedded. Qed.
Theorem C13_meaning_embedded_limit : forall ws a w lim s r,
  test_pair ws (O Embedded a false (Some lim) w) s r = true <->
  tb r <= tb s /\ te s <= te r /\ tb s - tb r <= lim /\ te r - te s <= lim.
Proof. exact meaning_embedded_limit. Qed.
Theorem C13_meaning_overlaps : forall ws a l w s r, wf s -> wf r ->
  (test_pair ws (O Overlaps a false l w) s r = true <->
   Nat.max (tb s) (tb r) < Nat.min (te s) (te r)
   \/ (tb s <= tb r /\ te r <= te s) \/ (tb r <= tb s /\ te s <= te r)).
Proof. exact meaning_overlaps. Qed.
Theorem C13_meaning_overlaps_nonempty : forall ws a l w s r, tb s < te s -> tb r < te r ->
  (test_pair ws (O Overlaps a false l w) s r = true <->
   Nat.max (tb s) (tb r) < Nat.min (te s) (te r)).
Proof. exact meaning_overlaps_nonempty. Qed.
Theorem C13_meaning_before : forall ws a w s r,
  test_pair ws (O Before a false None w) s r = true <-> te s <= tb r.
Proof. exact meaning_before. Qed.
Theorem C13_meaning_before_limit : forall ws a w lim s r,
  test_pair ws (O Before a false (Some lim) w) s r = true <-> te s <= tb r /\ tb r - te s <= lim.
Proof. exact meaning_before_limit. Qed.
Theorem C13_meaning_after : forall ws a w s r,
  test_pair ws (O After a false None w) s r = true <-> te r <= tb s.
Proof. exact meaning_after. Qed.
Theorem C13_meaning_after_limit : forall ws a w lim s r,
  test_pair ws (O After a false (Some lim) w) s r = true <-> te r <= tb s /\ tb s - te r <= lim.
Proof. exact meaning_after_limit. Qed.
Theorem C13_meaning_precedes_exact : forall ws a l s r,
  test_pair ws (O Precedes a false l false) s r = true <-> te s = tb r.
Proof. exact meaning_precedes_exact. Qed.
Theorem C13_meaning_succeeds_exact : forall ws a l s r,
  test_pair ws (O Succeeds a false l false) s r = true <-> tb s = te r.
Proof. exact meaning_succeeds_exact. Qed.
Theorem C13_meaning_precedes_ws : forall ws a l s r,
  test_pair ws (O Precedes a false l true) s r = true <->
  te s = tb r \/ (te s < tb r /\ gap_ws ws (te s) (tb r) = true).
Proof. exact meaning_precedes_ws. Qed.
Theorem C13_meaning_succeeds_ws : forall ws a l s r,
  test_pair ws (O Succeeds a false l true) s r = true <->
  tb s = te r \/ (te r < tb s /\ gap_ws ws (te r) (tb s) = true).
Proof. exact meaning_succeeds_ws. Qed.
Theorem C13_gap_meaning : forall ws x y,
  gap_ws ws x y = true <->
  x <= y /\ y <= length ws /\ y - x <= WHITESPACE_LIMIT
  /\ forall p, x <= p < y -> nth p ws false = true.
Proof. exact gap_ws_meaning. Qed.
Theorem C13_meaning_samebegin : forall ws a l w s r,
  test_pair ws (O SameBegin a false l w) s r = true <-> tb s = tb r.
Proof. exact meaning_samebegin. Qed.
Theorem C13_meaning_sameend : forall ws a l w s r,
  test_pair ws (O SameEnd a false l w) s r = true <-> te s = te r.
Proof. exact meaning_sameend. Qed.
Theorem C13_meaning_samerange : forall ws a l w s r,
  test_pair ws (O SameRange a false l w) s r = true <-> tb s = tb r /\ te s = te r.
Proof. exact meaning_samerange. Qed.

(* converses *)
Theorem C13_converse_embeds : forall ws a n w s r,
  test_pair ws (O Embeds a n None w) s r = test_pair ws (O Embedded a n None w) r s.
Proof. exact converse_embeds. Qed.
Theorem C13_converse_before : forall ws a n l w s r,
  test_pair ws (O Before a n l w) s r = test_pair ws (O After a n l w) r s.
Proof. exact converse_before. Qed.
Theorem C13_converse_precedes : forall ws a n l w s r,
  test_pair ws (O Precedes a n l w) s r = test_pair ws (O Succeeds a n l w) r s.
Proof. exact converse_precedes. Qed.

(* symmetry *)
Theorem C13_sym_equals : forall ws a n l w s r,
  test_pair ws (O Equals a n l w) s r = test_pair ws (O Equals a n l w) r s.
Proof. exact sym_equals. Qed.
Theorem C13_sym_overlaps : forall ws a n l w s r, wf s -> wf r ->
  test_pair ws (O Overlaps a n l w) s r = test_pair ws (O Overlaps a n l w) r s.
Proof. exact sym_overlaps. Qed.

(* equals implies embeds, embedded, same begin, same end, same range *)
Theorem C13_equals_implies : forall ws a l w a' w' s r,
  test_pair ws (O Equals a false l w) s r = true ->
  test_pair ws (O Embeds a' false None w') s r = true
  /\ test_pair ws (O Embedded a' false None w') s r = true
  /\ test_pair ws (O SameBegin a' false None w') s r = true
  /\ test_pair ws (O SameEnd a' false None w') s r = true
  /\ test_pair ws (O SameRange a' false None w') s r = true.
Proof. exact equals_implies. Qed.

(* a negated relation is the exact complement (an empty left-hand set matches
   nothing, negated or not: that is the documented exception) *)
Theorem C13_negate_pair : forall ws o s r,
  test_pair ws (toggle_negate o) s r = negb (test_pair ws o s r).
Proof. exact negate_pair. Qed.
Theorem C13_negate_ts_set : forall ws o s B,
  test_ts_set ws (toggle_negate o) s B = negb (test_ts_set ws o s B).
Proof. exact negate_ts_set. Qed.
Theorem C13_negate_set_ts : forall ws o A r, items A <> [] ->
  test_set_ts ws (toggle_negate o) A r = negb (test_set_ts ws o A r).
Proof. exact negate_set_ts. Qed.
Theorem C13_negate_set_set : forall ws o A B, items A <> [] ->
  test_set_set ws (toggle_negate o) A B = negb (test_set_set ws o A B).
Proof. exact negate_set_set. Qed.

(* singleton sets = their members, whatever the sorted flags *)
Theorem C13_singleton_ts_set : forall ws o s r f,
  test_ts_set ws o s (single f r) = test_pair ws o s r.
Proof. exact singleton_ts_set. Qed.
Theorem C13_singleton_set_ts : forall ws o s r f,
  test_set_ts ws o (single f s) r = test_pair ws o s r.
Proof. exact singleton_set_ts. Qed.
Theorem C13_singleton_set_set : forall ws o s r f g,
  test_set_set ws o (single f s) (single g r) = test_pair ws o s r.
Proof. exact singleton_set_set. Qed.

(* intersection exists exactly when the overlap test holds and is max/min *)
Theorem C13_intersection : forall s o, wf s -> wf o ->
  match intersection s o with
  | Some (i, _, _) =>
      pos_pair [] (mkop Overlaps false false None false) s o = true
      /\ tb i = Nat.max (tb s) (tb o) /\ te i = Nat.min (te s) (te o) /\ hid i = None
  | None => pos_pair [] (mkop Overlaps false false None false) s o = false
  end.
Proof. exact intersection_spec. Qed.

(* non-vacuity: the hypotheses are met by concrete, non-trivial operands *)
Example C13_nonvacuous :
  let A := mkset [mkts (Some 0) 0 4; mkts None 2 3] true in
  set_ok A /\ wf (mkts None 2 3) /\ items A <> []
  /\ test_set_ts [false; false; true; true; false] (O SameEnd true false None false) A (mkts None 3 4) = true
  /\ test_pair [false; false; true; true; false] (O Precedes false false None true) (mkts None 0 2) (mkts None 4 5) = true.
Proof.
  cbv zeta. repeat split; try discriminate; try (unfold wf; cbn; lia).
  - intros _. repeat constructor; unfold ts_le; cbn; lia.
  - repeat constructor; unfold wf; cbn; lia.
Qed.

(* The pair test these theorems are about is the one the source contains now: [pair_arms] is
   regenerated on every run from the match arms of `impl TestTextSelection for TextSelection { fn test }`
   (tools/translate_relpair.py); evaluated as Rust evaluates it (first matching arm, short-circuit
   && and ||, checked usize subtraction) it yields test_pair for every operator, modifier
   combination, text and pair of selections, and no subtraction in it can underflow. *)
Theorem C13_code_pair_test_is_the_model : forall ws o s r,
  interp_pair pair_arms ws o s r = Some (test_pair ws o s r).
Proof. exact pair_arms_agree. Qed.

Theorem C13_code_pair_test_never_underflows : forall ws o s r, interp_pair pair_arms ws o s r <> None.
Proof. exact pair_test_never_underflows. Qed.

Theorem C13_code_whitespace_limit : src_whitespace_limit = WHITESPACE_LIMIT.
Proof. exact ws_limit_agrees. Qed.

(* hence the documented meaning holds of the code's own arms *)
Theorem C13_code_pair_test_has_documented_meaning : forall ws o s r, wf s -> wf r ->
  interp_pair pair_arms ws o s r = Some (spec_pair ws o s r).
Proof. intros ws o s r Hs Hr. rewrite pair_arms_agree. f_equal. apply C13_pair_spec; assumption. Qed.

(* The same for the test of one selection against a set (`TextSelection::test_set`): its arms -
   the any-loop and the all-loop over the pair test, the emptiness guard, the folded minimum of
   begins / maximum of ends, leftmost / rightmost, the negation arm - are regenerated from the source
   on every run (tools/translate_relset.py) and denote test_ts_set for every operator, modifier
   combination, text, selection and set of any size. *)
Theorem C13_code_ts_set_test_is_the_model : forall ws o s B,
  interp_ts_set pair_arms ts_set_arms ws o s B = Some (test_ts_set ws o s B).
Proof. exact ts_set_arms_agree. Qed.

Theorem C13_code_ts_set_test_has_documented_meaning : forall ws o s B, wf s -> set_ok B ->
  interp_ts_set pair_arms ts_set_arms ws o s B = Some (spec_ts_set ws o s (items B)).
Proof. intros ws o s B Hs HB. rewrite ts_set_arms_agree. f_equal. apply C13_ts_set_spec; assumption. Qed.

(* ... and for the two tests of a set (`impl TestTextSelection for TextSelectionSet`, fn test and
   fn test_set: the emptiness check, the all-loops over the members' own tests, the length check of
   Equals, the delegation to the rightmost / leftmost member, the range comparison, the negation
   arm; tools/translate_relsets.py).  With these four tables every arm of every relation test of
   src/textselection.rs is read from the source on every run. *)
Theorem C13_code_set_ts_test_is_the_model : forall ws o A r,
  interp_set_ts pair_arms set_ts_arms ws o A r = Some (test_set_ts ws o A r).
Proof. exact set_ts_arms_agree. Qed.

Theorem C13_code_set_set_test_is_the_model : forall ws o A B,
  interp_set_set pair_arms ts_set_arms set_set_arms ws o A B = Some (test_set_set ws o A B).
Proof. exact set_set_arms_agree. Qed.

Theorem C13_code_set_set_test_has_documented_meaning : forall ws o A B, set_ok A -> set_ok B ->
  interp_set_set pair_arms ts_set_arms set_set_arms ws o A B = Some (spec_set_set ws o (items A) (items B)).
Proof. intros ws o A B HA HB. rewrite set_set_arms_agree. f_equal. apply C13_set_set_spec; assumption. Qed.
