(* Correspondence entry point for C15.
   request = a history (list of operations, encoding of Run/StoreRun.v).  The history is run on
   the empty store; the final store s is saved as STAM CSV and loaded again.  Sub-cases:
     0  the content of s                       (model = spec; ties the harness's reading of the
                                                original store to the store model)
     1  the annotation rows written            (model: the push loops of csv.rs; spec: the
                                                documented columns; canonical member order)
     2  the outcome of the load and the content of the loaded store
                                               (model: load (save s); spec: (1 content s))
     3  whether every annotation of the loaded store addresses the same text
                                               (model: computed on load (save s); spec: 1)
     4  the hypotheses of the theorems about a store: store_ok s (ranges inside their resource /
        parent, lengths within the cursor type) and the shape of every target; model: computed,
        spec: 1, the harness answers 1
   Known class 1 = Known_C15_tempid (items without public id). *)
From Coq Require Import List ZArith NArith Bool Arith.
Import ListNotations.
From Stam Require Import Base.Sx Model.Offset Model.Store Model.Loader Model.Csv Spec.CsvSpec Run.StoreRun.

(* a row as the harness reads it back from the file: id, data ids, set ids, kind of the
   selector, then the members (one for a simple selector; for Multi/Composite sorted) *)
Definition sx_of_member (m : list str) : sx := L (map of_str m).

Fixpoint str_leb (a b : str) : bool :=
  match a, b with
  | [], _ => true
  | _, [] => false
  | x :: a', y :: b' => if (x <? y)%N then true else if (y <? x)%N then false else str_leb a' b'
  end.
Fixpoint strs_leb (a b : list str) : bool :=
  match a, b with
  | [], _ => true
  | _, [] => false
  | x :: a', y :: b' => if str_eqb x y then strs_leb a' b' else str_leb x y
  end.
Fixpoint ins_member (x : list str) (l : list (list str)) : list (list str) :=
  match l with
  | [] => [x]
  | y :: l' => if strs_leb x y then x :: l else y :: ins_member x l'
  end.
Definition sort_members (l : list (list str)) : list (list str) := fold_right ins_member [] l.

(* columns of a row split into per-member tuples (kind res ann dset begin end key data) *)
Fixpoint zip8 (a b c d e f g h : list str) : list (list str) :=
  match a, b, c, d, e, f, g, h with
  | x1 :: a', x2 :: b', x3 :: c', x4 :: d', x5 :: e', x6 :: f', x7 :: g', x8 :: h' =>
      [x1; x2; x3; x4; x5; x6; x7; x8] :: zip8 a' b' c' d' e' f' g' h'
  | _, _, _, _, _, _, _, _ => []
  end.

Definition row_obs (r : csvrow) : sx :=
  let ms := zip8 (split (c_kind r)) (split (c_res r)) (split (c_ann r)) (split (c_dset r))
                 (split (c_begin r)) (split (c_end r)) (split (c_key r)) (split (c_tdata r)) in
  let body := match ms with
              | [] => []
              | head :: rest =>
                  (* Multi and Composite selectors order their members themselves *)
                  if str_eqb (nth 0 head []) (kind_str KDirectional) then head :: rest
                  else head :: sort_members rest
              end in
  L [of_str (c_id r); of_str (c_data r); of_str (c_set r); L (map sx_of_member body)].

(* the documented row: the same fields, every list-valued column as a join *)
Definition spec_row (s : store) (h : nat) (a : ann) : option csvrow :=
  match pack_row s h a, map_opt (leaf_member s) (a_leaves a) with
  | Some r, Some ms =>
      if Nat.eqb (a_kind a) 0 then Some r
      else Some {| c_id := c_id r; c_data := c_data r; c_set := c_set r;
                   c_kind := column_spec (kind_str (complex_kind (a_kind a))) (map (fun m => kind_str (m_kind m)) ms);
                   c_res := column_spec [] (map m_res ms); c_ann := column_spec [] (map m_ann ms);
                   c_dset := column_spec [] (map m_dset ms); c_begin := column_spec [] (map m_begin ms);
                   c_end := column_spec [] (map m_end ms); c_key := column_spec [] (map m_key ms);
                   c_tdata := column_spec [] (map m_tdata ms) |}
  | _, _ => None
  end.

Definition rows_obs (rows : option (list csvrow)) : sx :=
  match rows with
  | Some l => L (A 1 :: map row_obs l)
  | None => L [A (-1)]
  end.

(* what each annotation addresses: (resource id, begin, end) per text-carrying leaf *)
Definition ann_texts (s : store) (a : ann) : list (list nat) :=
  let ts := flat_map (fun lf => match lf with
                                | LText r t _ | LAnnText _ r t _ =>
                                    match get_res s r with
                                    | Some rs => let rg := nth t (r_sels rs) (0, 0) in [[r_id rs; fst rg; snd rg]]
                                    | None => []
                                    end
                                | _ => []
                                end) (a_leaves a) in
  if Nat.eqb (a_kind a) 3 then ts else sort_leaves ts.
Definition store_texts (s : store) : sx :=
  L (map (fun ha => L (map of_nats (ann_texts s (snd ha)))) (live_items (anns s))).

(* a store with a history of saves.  request = (9 ops1 ops2): the history ops1 is run and the store
   saved as STAM CSV; then the modifications ops2 are applied to the store in memory - the
   operations of the store model and (9 setid keytok): a key inserted on its own into an existing
   data set (StoreFor<DataKey>::insert through get_mut) - and the store is saved again in the same
   place and loaded.  The files of the second save must describe the store in memory: the model
   and the specification are those of a single save of the final store (which files the library
   rewrites - its `changed` flags - is an optimisation that must not show). *)
Definition add_bare_key (s : store) (d tok : nat) : store :=
  match ref_set s (ById d) with
  | Some h => match get_set s h with
              | Some ds => set_sets s (set_slot (sets s) h (Some (dset_add_key ds tok)))
              | None => s
              end
  | None => s
  end.

Definition mod_step (s : store) (x : sx) : store :=
  if Z.eqb (sx_Z (sx_nth 0 x)) 9 then add_bare_key s (sx_nat (sx_nth 1 x)) (sx_nat (sx_nth 2 x))
  else fst (step s (op_of_sx x)).

Definition final_store (x : sx) : store :=
  match x with
  | L (A _ :: p1 :: p2 :: _) => fold_left mod_step (sx_list p2) (run (map op_of_sx (sx_list p1)))
  | _ => run (map op_of_sx (sx_list x))
  end.

Definition run_C15 (x : sx) : sx :=
  let s := final_store x in
  let known := known_class s in
  let rt := roundtrip s in
  let same_text := match rt with
                   | LOk s' => of_bool (sx_eqb (store_texts s') (store_texts s))
                   | _ => A 1
                   end in
  L [triple (content s) (content s) 0;
     triple (rows_obs (map_opt (fun ha => pack_row s (fst ha) (snd ha)) (live_items (anns s))))
            (rows_obs (map_opt (fun ha => spec_row s (fst ha) (snd ha)) (live_items (anns s)))) 0;
     triple (sx_of_loaded rt) (roundtrip_spec s) known;
     triple same_text (A 1) known;
     triple (of_bool (hyps_ok s)) (A 1) 0].
