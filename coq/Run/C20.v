(* Correspondence entry point for C20.
   request / model input:  (mem chg ops sched)
     mem    one atom per member of the store in output order (resources, then datasets):
            0 inline resource, 1 stand-off plain-text resource, 2 stand-off .json resource,
            3 inline dataset, 4 stand-off dataset, 5 stand-off dataset whose file cannot be written,
            6 stand-off plain-text resource whose file cannot be written, 7 sub-store
            (sub-stores first, then resources 0 1 2 6, then datasets 3 4 5)
     chg    one atom per member: 1 = the changed flag is set when the threads start
     ops    one entry (kind idx variant) per thread: kind 0 pure reader (variant says which one;
            of no concern to the model), 1 store.to_json_string, 2 ToJson::to_json_string(member idx,
            store config), 3 inherent member.to_json_string(), 4 ToJson::to_json_string(member idx,
            unrelated Config), 5 ToJson::to_json_string(member idx, store config) followed by
            store.to_json_string on the same thread, 6 store.to_json_file into a file of the thread's own
            (same code path as 1), 7 store.to_json_string twice on the same thread,
            8 resource.to_txt_file(<another directory>/<same name>), 9 resource.to_txt_file(<own stand-off filename>),
            10 store.save() of a CBOR-format store (a scenario with such a reader is built as a CBOR store),
            11 ToJson::to_json_string(member, Config with a non-JSON dataformat) (refused), 12 = 11 followed by
            store.to_json_string on the same thread, 13 store.changed()
     sched  the thread chosen at every scheduling decision of the deterministic scheduler (one
            decision = the chosen thread performs the access it is blocked in front of and runs up to
            its next yield site), as executed by the harness
   one triple per thread: ((tokens) same finished) where tokens = how each member appears in the
   string(s) the thread obtained (2i inline, 2i+1 as @include, -7 end of a call when the thread makes
   several, -2 the call returned Err, -8 - never predicted - the call returned Ok while a sub-store file it refers to
   was not written), same = equal to the solo result;
   then one triple for the stand-off files: per member 1 if, after the run, some call has returned Ok
   with the member written as @include while its stand-off file does not hold the member's content
   (pending content is NOT on disk when the threads start), or something else than content was
   written to it.
   A fifth element 1 marks a free run: the threads were started together without the scheduler
   (real pre-emption); there is no schedule to replay, and by C20_scenario the model's answer is
   the same for every schedule: the specified solo results.
   A fifth element 2, followed by (nkeys workers rounds how), marks a run in which the readers' calls
   were jobs on ONE shared rayon pool (every dataset has nkeys keys); again no schedule to replay.
   A thread of the model is a reader (a sequence of logical calls), not an operating-system or pool
   worker thread, and the mode belongs to the call that set it: whatever worker runs (parts of) other
   calls in between, the model's answer is the specified solo result.
   The model is run with the mode confined to the thread (sh = false: the code since 5f67dd0).

   A request whose first element is the atom 8 is about the parallel adaptors:
     request      (8 n workers reps)       store with n annotations, pool of `workers` rayon threads
     model input  (8 workers reps chains)  chains = for each iterator chain the handles the SEQUENTIAL
                                           iterator yields, in order
   one triple per chain: (len collect fold find_first filter+collect agree) computed by the harness
   from chain.parallel() on the pool (agree = 1 if every repetition gave what the sequential iterator
   gives; otherwise the values of the first deviating repetition are reported). *)
From Coq Require Import List ZArith Bool Arith.
Import ListNotations.
From Stam Require Import Base.Sx Model.Conc Spec.ConcSpec.

Definition fkind_of (x : sx) : fkind :=
  match sx_nat x with
  | 1 => Txt
  | 2 => Json
  | 4 => Json
  | 5 => JsonBroken
  | 6 => TxtBroken
  | 7 => SubStore
  | _ => NoFile
  end.

Definition op_of (x : sx) : op :=
  let i := sx_nat (sx_nth 1 x) in
  match sx_nat (sx_nth 0 x) with
  | 1 => OpStore
  | 2 => OpMemberTrait i
  | 3 => OpMemberPlain i
  | 4 => OpMemberForeign i
  | 5 => OpMemberThenStore i
  | 6 => OpStore
  | 7 => OpStoreTwice
  | 8 => OpExport i
  | 9 => OpSaveTxt i
  | 10 => OpSaveCbor
  | 11 => OpRefused i
  | 12 => OpRefusedThenStore i
  | 13 => OpStoreChanged
  | _ => OpPure
  end.

Definition scen_of (x : sx) : scen :=
  mkScen (map fkind_of (sx_list (sx_nth 0 x)))
         (map sx_bool (sx_list (sx_nth 1 x)))
         (map op_of (sx_list (sx_nth 2 x))).

Fixpoint list_eqb (a b : list nat) : bool :=
  match a, b with
  | [], [] => true
  | x :: a', y :: b' => Nat.eqb x y && list_eqb a' b'
  | _, _ => false
  end.

Definition tok_sx (t : tok) : sx :=
  if Nat.eqb t t_sep then A (-7)%Z else if Nat.eqb t t_err then A (-2)%Z else of_nat t.

Definition toks_sx (l : list tok) : sx := L (map tok_sx l).

Definition obs_thread (want : list tok) (t : thread) : sx :=
  if dead t then L [L [A (-3)%Z]; A 0%Z; A 0%Z]
  else L [toks_sx (out t); of_bool (list_eqb (out t) want && finished t); of_bool (finished t)].

Fixpoint triples (sc : scen) (ts : list thread) (os : list op) : list sx :=
  match ts, os with
  | t :: ts', o :: os' =>
      let want := spec_result (members sc) (changed0 sc) o in
      triple (obs_thread want t) (L [toks_sx want; A 1%Z; A 1%Z]) 0 :: triples sc ts' os'
  | _, _ => []
  end.

(* some thread wrote something else than the content into the file of member i *)
Definition file_bad (ts : list thread) (i : nat) : bool :=
  existsb (fun t => existsb (fun p => Nat.eqb (fst p) i && negb (Nat.eqb (snd p) (t_inline i))) (fout t)) ts.

(* every thread scheduled until it has finished: one of the schedules *)
Definition sequential_schedule (sc : scen) : list nat :=
  flat_map (fun i => repeat i 200) (seq 0 (length (ops sc))).

Definition run_par (x : sx) : sx :=
  L (map (fun c =>
            let l := map sx_Z (sx_list c) in
            triple (L (map A (par_consumers l) ++ [A 1%Z])) (L (map A (seq_consumers l) ++ [A 1%Z])) 0)
         (sx_list (sx_nth 3 x))).

(* a finished thread reports member i as @include, the flag was set at the start (pending content,
   not on disk) and nobody has written the content *)
Definition lost_update (sc : scen) (ts : list thread) (i : nat) : bool :=
  flag i (changed0 sc)
  && existsb (fun t => finished t && existsb (Nat.eqb (t_include i)) (out t)) ts
  && negb (existsb (fun t => existsb (fun p => Nat.eqb (fst p) i && Nat.eqb (snd p) (t_inline i)) (fout t)) ts).

Definition run_sched (x : sx) : sx :=
  let sc := scen_of x in
  let free := sx_bool (sx_nth 4 x) in
  let sched := if free then sequential_schedule sc else map sx_nat (sx_list (sx_nth 3 x)) in
  let st := run_coarse false sched (init sc) in
  let n := length (members sc) in
  L (triples sc (thr st) (ops sc)
     ++ [triple (L (map (fun i => of_bool (file_bad (thr st) i || lost_update sc (thr st) i)) (seq 0 n)))
                (L (map (fun _ => A 0%Z) (seq 0 n))) 0]).

Definition run_C20 (x : sx) : sx :=
  match sx_nth 0 x with
  | A _ => run_par x
  | L _ => run_sched x
  end.
