(* Correspondence entry point for C14: an operation that returns an error must leave every
   observation of the store as it was.  Per operation: the outcome, then - when the outcome is
   an error - the full observation vector after the call (model) against the one before the
   call (spec).  Known classes (KNOWN_FINDINGS.txt): 1 = a failed annotate leaves new text
   selections behind, 2 = a failed annotate / insert_data leaves datasets, keys or data
   behind, 3 = both, 4 = a failed batch keeps its earlier elements (possibly with 1-3).
   operations as in Run/StoreRun.v plus (12 (id target datas) ...) = annotate_from_iter, (15 ...) = the same batch through annotate_from_file, and
   (13 id (dbuild ...)) = add_dataset with data items (the set reference of the builders is ignored). *)
From Coq Require Import List ZArith Bool Arith.
Import ListNotations.
From Stam Require Import Base.Sx Model.Offset Model.Store Model.StoreExt Model.StoreObs Spec.StoreSpec Run.StoreRun.

Definition abuild_of_sx (x : sx) : abuild :=
  mkab (sx_onat (sx_nth 0 x))
       (match sx_nth 1 x with A _ => None | L _ => Some (sbuild_of_sx (sx_nth 1 x)) end)
       (map dbuild_of_sx (sx_list (sx_nth 2 x))).

Definition sx_eq_list (a b : list sx) : bool := sx_eqb (L a) (L b).

Definition res_view (s : store) : sx := L (map (fun r => obs_res s false r) (seq 0 (length (ress s)))).
Definition set_view (s : store) : sx := L (map (fun d => obs_set s false d) (seq 0 (length (sets s)))).

(* which documented-as-known leftovers does this failed call have? *)
Definition known_class (s s' : store) (batch_done : nat) : nat :=
  if 0 <? batch_done then 4
  else
    let r := negb (sx_eqb (res_view s) (res_view s')) in
    let d := negb (sx_eqb (set_view s) (set_view s')) in
    match r, d with
    | true, true => 3 | true, false => 1 | false, true => 2 | false, false => 0
    end.

Definition absent : sx := A (-3).

(* pair the observation after (model) with the observation before (spec) *)
Fixpoint zip_obs (after before : list sx) (k : nat) : list sx :=
  match after, before with
  | [], _ => []
  | m :: after', [] => triple m absent k :: zip_obs after' [] k
  | m :: after', sp :: before' => triple m sp (if sx_eqb m sp then 0 else k) :: zip_obs after' before' k
  end.

Definition obs_vec (s : store) : list sx :=
  map (obs_ann s true) (seq 0 (length (anns s)))
  ++ map (obs_res s true) (seq 0 (length (ress s)))
  ++ map (obs_set s true) (seq 0 (length (sets s)))
  ++ [obs_ids s true].

(* the records are compared slot by slot within each group; groups are padded so that a new
   slot (which the specification forbids) lines up with "absent" *)
Definition cmp_state (s s' : store) (k : nat) : list sx :=
  zip_obs (map (obs_ann s' true) (seq 0 (length (anns s')))) (map (obs_ann s true) (seq 0 (length (anns s)))) k
  ++ zip_obs (map (obs_res s' true) (seq 0 (length (ress s')))) (map (obs_res s true) (seq 0 (length (ress s)))) k
  ++ zip_obs (map (obs_set s' true) (seq 0 (length (sets s')))) (map (obs_set s true) (seq 0 (length (sets s)))) k
  ++ zip_obs [obs_ids s' true] [obs_ids s true] k.

Fixpoint run_ops (s : store) (xs : list sx) : list sx :=
  match xs with
  | [] => []
  | x :: xs' =>
      let '(s', r, done) :=
        if Z.eqb (sx_Z (sx_nth 0 x)) 17 then (s, OErr, 0)   (* a document refused by the parser: nothing is touched *)
        else if Z.eqb (sx_Z (sx_nth 0 x)) 12 || Z.eqb (sx_Z (sx_nth 0 x)) 15
        then annotate_batch s (map abuild_of_sx (tl (sx_list x)))
        else if Z.eqb (sx_Z (sx_nth 0 x)) 13
        then let '(s1, r1) := add_set_with s (sx_nat (sx_nth 1 x)) (map dbuild_of_sx (sx_list (sx_nth 2 x))) in (s1, r1, 0)
        else let '(s1, r1) := step s (op_of_sx x) in (s1, r1, 0) in
      let ro := match r with OOk _ => L [A 1] | OErr => L [A 0] | OPanic => L [A (-1)] end in
      let rest :=
        match r with
        | OOk _ => []
        | _ => cmp_state s s' (known_class s s' done)
        end in
      (triple ro ro 0 :: rest) ++ run_ops s' xs'
  end.

Definition run_C14 (x : sx) : sx := L (run_ops empty_store (sx_list x)).
