(* Correspondence entry point for C16.
   input: (texts (complex sides) (res ((b e)...)) (side mode) fwd backi backa)
     texts   ((codepoint ...) ...)
     sides   (((res b e) ...) ...) as read back through the API: the text selections of the
             annotations the transposition targets (complex = 1) or one singleton side per text
             selection of the transposition itself (complex = 0)
     source  resource and ranges of the source annotation as textselections() yields them
     side    -1 Auto | i ByIndex(i);  mode 0: the annotation is transposed, 1: its text selection set
     fwd backi backa: what the implementation answered (the property predicate is evaluated on it)
   observation of one transposition:
     (0 u) Err | (1 u ((flag (res b e)...) ...)) Ok + annotations added + new transposition read back
     | (2 u) adding failed | (3 u) new transposition not found | (-1) panic;  u = store unchanged by transpose()
   sub-cases: 0 forward; 1 for every target side j of the new transposition: transposing that side
   back over it with ByIndex(j); 2 the same with Auto. *)
From Coq Require Import List ZArith NArith Bool Arith.
Import ListNotations.
From Stam Require Import Base.Sx Model.Transpose Spec.TransposeSpec.

Definition dec_frag (x : sx) : frag :=
  mkfrag (sx_nat (sx_nth 0 x)) (sx_nat (sx_nth 1 x)) (sx_nat (sx_nth 2 x)).
Definition enc_frag (f : frag) : sx := L [of_nat (fres f); of_nat (fb f); of_nat (fe f)].
Definition dec_oside (x : sx) : oside :=
  match sx_list x with
  | [] => (0, [])
  | fl :: fs => (sx_nat fl, map dec_frag fs)
  end.
Definition enc_oside (o : oside) : sx := L (of_nat (fst o) :: map enc_frag (snd o)).

Definition enc_ok (O : list oside) : sx := L [A 1%Z; A 1%Z; L (map enc_oside O)].

Definition show (x : tres result) : sx :=
  match x with
  | TOk res => enc_ok (flagged res)
  | TErr => L [A 0%Z; A 1%Z]
  | TPanic => L [A (-1)%Z]
  | TFuel => L [A (-2)%Z]
  end.

Definition targets_of (O : list oside) : list nat :=
  filter (fun j => Nat.eqb (fst (nth j O (0, []))) 0) (seq 0 (length O)).

Definition back_model (lens : list nat) (res : tres result) (cfg : nat -> option nat) : sx :=
  match res with
  | TOk rs =>
      L (map (fun j =>
                let srcf := nth j (r_sides rs) [] in
                show (transpose_annotation (fuel_for (map rng srcf)) lens true (r_sides rs) srcf (cfg j)))
             (targets_of (flagged rs)))
  | _ => L []
  end.

Definition spec_fwd (T : list text) (V : list side) (r : nat) (src : list (nat * nat))
           (cfg : option nat) (wf : bool) (impl : sx) : sx :=
  if wf then
    match impl with
    | L [A Z0; A (Zpos xH)] => impl
    | L [A (Zpos xH); A (Zpos xH); L sides] =>
        if check_forward T V r src cfg (map dec_oside sides) then impl else A 9%Z
    | _ => A 9%Z
    end
  else impl.

Definition spec_back (T : list text) (V : list side) (r : nat) (src : list (nat * nat))
           (cfg : option nat) (wf : bool) (auto : bool) (implfwd implback : sx) : sx :=
  match implfwd with
  | L [A (Zpos xH); A (Zpos xH); L sides] =>
      let O := map dec_oside sides in
      let Of := map snd O in
      let ok := wf && check_forward T V r src cfg O in
      L (map (fun jx =>
                let j := fst jx in
                if ok && single_res (nth j Of []) && pairwise_apart (nth j Of [])
                   && (negb auto || only_side_in_res Of j)
                then enc_ok (expected_back Of j) else snd jx)
             (combine (targets_of O) (sx_list implback)))
  | _ => implback
  end.

Definition run_C16 (x : sx) : sx :=
  let T := map (fun t => map sx_N (sx_list t)) (sx_list (sx_nth 0 x)) in
  let lens := map (@length N) T in
  let complex := sx_bool (sx_nth 0 (sx_nth 1 x)) in
  let V := map (fun s => map dec_frag (sx_list s)) (sx_list (sx_nth 1 (sx_nth 1 x))) in
  let r := sx_nat (sx_nth 0 (sx_nth 2 x)) in
  let src := map (fun p => (sx_nat (sx_nth 0 p), sx_nat (sx_nth 1 p))) (sx_list (sx_nth 1 (sx_nth 2 x))) in
  let cfg := sx_onat (sx_nth 0 (sx_nth 3 x)) in
  let mode := sx_nat (sx_nth 1 (sx_nth 3 x)) in
  let implfwd := sx_nth 4 x in
  let implbi := sx_nth 5 x in
  let implba := sx_nth 6 x in
  let wf := wf_input T complex V r src in
  let m := match mode with
           | 0 => transpose_annotation (fuel_for src) lens complex V (map (fun p => mkfrag r (fst p) (snd p)) src) cfg
           | _ => transpose (fuel_for src) lens complex V r src cfg false
           end in
  L [triple (show m) (spec_fwd T V r src cfg wf implfwd) 0;
     triple (back_model lens m (fun j => Some j)) (spec_back T V r src cfg wf false implfwd implbi) 0;
     triple (back_model lens m (fun _ => None)) (spec_back T V r src cfg wf true implfwd implba) 0].
