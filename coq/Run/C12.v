(* Correspondence entry point for C12.
   input : (interval text ((b e)...) ((sb se)...))
   output: utf8byte(p) for p in 0..len+2, utf8byte_to_charpos(b) for b in 0..blen+2,
           then per sub-selection: relative utf8byte(p) for p in 0..(se-sb)+2,
           relative utf8byte_to_charpos(b) for b in 0..bytes+2, and the selection's text.
   results: (1 n) | (0) error | (2) panic *)
From Coq Require Import List ZArith Bool Arith.
Import ListNotations.
From Stam Require Import Base.Sx Model.Offset Model.Utf8.

Definition out_sx (o : out nat) : sx :=
  match o with OOk n => L [A 1; of_nat n] | OErr => L [A 0] | OPanic => L [A 2] end.

Definition pair_of_sx (x : sx) : nat * nat := (sx_nat (sx_nth 0 x), sx_nat (sx_nth 1 x)).

(* the index after create_milestones and the inserted() callbacks of the annotations, in order *)
Definition build_index (interval : nat) (t : text) (anns : list (nat * nat)) : index * index :=
  fold_left (fun st be => match insert_selection st t (fst be) (snd be) with
                          | OOk st' => st'
                          | _ => st
                          end) anns (milestones interval t).

Definition spec_utf8byte (t : text) (p : nat) : out nat :=
  if p <=? length t then OOk (bytepos t p) else OErr.
Definition spec_charpos (t : text) (b : nat) : out nat :=
  match find (fun p => bytepos t p =? b) (seq 0 (S (length t))) with
  | Some p => OOk p
  | None => OErr
  end.

Definition rel_pairs (k : nat) : list (nat * nat) :=
  flat_map (fun x => map (fun y => (x, y)) (seq 0 k)) (seq 0 k).

Definition run_C12 (x : sx) : sx :=
  let interval := sx_nat (sx_nth 0 x) in
  let t := map sx_N (sx_list (sx_nth 1 x)) in
  let anns := map pair_of_sx (sx_list (sx_nth 2 x)) in
  let sels := map pair_of_sx (sx_list (sx_nth 3 x)) in
  let '(idx, b2c) := build_index interval t anns in
  let n := length t in
  let nb := blen t in
  L (map (fun p => triple (out_sx (utf8byte idx t p)) (out_sx (spec_utf8byte t p)) 0) (seq 0 (n + 3))
     ++ map (fun b => triple (out_sx (utf8byte_to_charpos b2c t b)) (out_sx (spec_charpos t b)) 0) (seq 0 (nb + 3))
     ++ flat_map (fun s =>
          let '(sb, se) := s in
          let st := sub t sb se in
          map (fun p => triple (out_sx (sel_utf8byte idx t sb se p)) (out_sx (spec_utf8byte st p)) 0) (seq 0 (se - sb + 3))
          ++ map (fun b => triple (out_sx (sel_utf8byte_to_charpos b2c t sb se b)) (out_sx (spec_charpos st b)) 0)
                 (seq 0 (blen st + 3))
          ++ [triple (of_Ns st) (of_Ns st) 0]
          (* text_by_offset(Offset::simple(x, y)) relative to the selection *)
          ++ map (fun xy =>
                    let '(x, y) := xy in
                    let r := match sel_utf8byte idx t sb se x, sel_utf8byte idx t sb se y with
                             | OOk bx, OOk by_ => if by_ <? bx then L [A 0]
                                                  else match byte_slice st bx by_ with
                                                       | Some r => L [A 1; of_Ns r]
                                                       | None => L [A 2]
                                                       end
                             | OPanic, _ | _, OPanic => L [A 2]
                             | _, _ => L [A 0]
                             end in
                    let sp := if (x <=? y) && (y <=? se - sb) then L [A 1; of_Ns (sub st x y)] else L [A 0] in
                    triple r sp 0)
                 (rel_pairs (Nat.min (se - sb + 2) 5))) sels).
