(* Correspondence entry point for C17 (Web Annotation export).
   input: (store config cases)
     store  = (resources datasets annotations); a tombstone is the atom -1
       resource   = (id ((b e) | -1 ...))          text selections by handle
       dataset    = id                              (a list of scalar values)
       annotation = (id|-1 target ((set key value) ...))
       target     = (0 r t) | (1 a) | (2 a r t) | (3 r) | (4 d) | (5 (subs)) Multi | (6 (subs)) Composite
                  | (7 (subs)) Directional | (8) DataKey | (9) AnnotationData | (10 r b e) | (11 b e with_text)
       value      = (0) | (1 text) | (2 bool) | (3 int) | (4 quarters) | (5 k) NaN/inf/-inf | (6 (values)) | (7 rfc3339)
                  | (9 neg digits zeros) a whole float: the digits of its shortest representation, then zeros
     config = (ann_iri set_iri res_iri (extra_context ...) auto_generated auto_generator ((uri prefix) ...) template|-1)
     cases  = ((a impl_string|-1 timestamp) ...)   one per exported annotation; timestamp = what this
                                                   call wrote as automatic "generated" value
   per case four sub-cases:
     1 the property: tree of the export (as a JSON consumer sees it: members sorted, last
       duplicate wins)            impl: serde_json on the real output;  model: parse_json on the
       model's string;  spec: the intended tree (duplicates grouped)
     2 parse_json (this development's recogniser) on the REAL output  =  serde_json on it
     3 the model's string and the real output have the same tokens (layout may differ)
     4 the text targets the view gives = annotation.textselections() through the API
     5 the source/selector objects under "target" of the export (read by serde_json from the real
       output / by parse_json from the model's string), in order = those text targets
     6 the member names of the annotation object and of its body, every compact name prefix:name
       expanded through the namespaces of the exported @context, = the full predicate IRIs (what the
       export without namespaces writes): an abbreviation must denote the key's own IRI *)
From Coq Require Import List ZArith NArith Bool Arith String.
Import ListNotations.
From Stam Require Import Base.Sx Model.Json Model.WebAnno Spec.WebAnnoSpec.
Local Open Scope Z_scope.

(* ---------- decoding ---------- *)

Definition str_of (x : sx) : str := map sx_N (sx_list x).
Definition ostr_of (x : sx) : option str := match x with A _ => None | L _ => Some (str_of x) end.

Fixpoint value_of (x : sx) : value :=
  match x with
  | A _ => VNull
  | L l =>
      match l with
      | A k :: args =>
          match Z.to_nat k, args with
          | 1%nat, [t] => VStr (str_of t)
          | 2%nat, [b] => VBool (sx_bool b)
          | 3%nat, [z] => VInt (sx_Z z)
          | 4%nat, [z] => VFloat (FQ (sx_Z z))
          | 5%nat, [z] => VFloat (match sx_nat z with 0%nat => FNaN | 1%nat => FInf false | _ => FInf true end)
          | 9%nat, [n; m; z] => VFloat (FW (sx_bool n) (str_of m) (sx_nat z))
          | 6%nat, [L vs] => VList (map value_of vs)
          | 7%nat, [t] => VDate (str_of t)
          | _, _ => VNull
          end
      | _ => VNull
      end
  end.

Fixpoint sel_of (x : sx) : sel :=
  match x with
  | A _ => SKey
  | L l =>
      match l with
      | A k :: args =>
          match Z.to_nat k, args with
          | 0%nat, [r; t] => STxt (sx_nat r) (sx_nat t)
          | 1%nat, [a] => SAnn (sx_nat a) None
          | 2%nat, [a; r; t] => SAnn (sx_nat a) (Some (sx_nat r, sx_nat t))
          | 3%nat, [r] => SRes (sx_nat r)
          | 4%nat, [d] => SSet (sx_nat d)
          | 5%nat, [L subs] => SMulti (map sel_of subs)
          | 6%nat, [L subs] => SComp (map sel_of subs)
          | 7%nat, [L subs] => SDir (map sel_of subs)
          | 8%nat, _ => SKey
          | 9%nat, _ => SData
          | 10%nat, [r; b; e] => SRTxt (sx_nat r) (sx_nat b) (sx_nat e)
          | 11%nat, [b; e; w] => SRAnn (sx_nat b) (sx_nat e) (sx_bool w)
          | _, _ => SKey
          end
      | _ => SKey
      end
  end.

Definition datum_of (x : sx) : datum :=
  {| d_set := str_of (sx_nth 0 x); d_key := str_of (sx_nth 1 x); d_val := value_of (sx_nth 2 x) |}.

Definition res_of (x : sx) : option resv :=
  match x with
  | A _ => None
  | L _ => Some {| r_id := str_of (sx_nth 0 x);
                   r_sels := map (fun p => match p with
                                           | A _ => None
                                           | L _ => Some (sx_nat (sx_nth 0 p), sx_nat (sx_nth 1 p))
                                           end) (sx_list (sx_nth 1 x)) |}
  end.

Definition ann_of (x : sx) : option annv :=
  match x with
  | A _ => None
  | L _ => Some {| a_id := ostr_of (sx_nth 0 x);
                   a_target := sel_of (sx_nth 1 x);
                   a_data := map datum_of (sx_list (sx_nth 2 x)) |}
  end.

Definition store_of (x : sx) : storev :=
  {| s_res := map res_of (sx_list (sx_nth 0 x));
     s_sets := map ostr_of (sx_list (sx_nth 1 x));
     s_anns := map ann_of (sx_list (sx_nth 2 x)) |}.

Definition config_of (x : sx) : config :=
  {| c_ann_iri := str_of (sx_nth 0 x);
     c_set_iri := str_of (sx_nth 1 x);
     c_res_iri := str_of (sx_nth 2 x);
     c_extra_context := map str_of (sx_list (sx_nth 3 x));
     c_generated := None;      (* set per case: every export call writes its own timestamp *)
     c_generator := sx_bool (sx_nth 5 x);
     c_namespaces := map (fun p => (str_of (sx_nth 0 p), str_of (sx_nth 1 p))) (sx_list (sx_nth 6 x));
     c_template := ostr_of (sx_nth 7 x) |}.

(* ---------- a JSON tree as a consumer sees it ---------- *)

Fixpoint tree_sx (j : json) : sx :=
  match j with
  | JNull => L [A 0]
  | JBool b => L [A 1; of_bool b]
  | JNum l =>
      match num_int l with
      | Some z =>
          (* numbers are compared as numbers; beyond 2^62 (the driver's integers, and past the 53 bits
             a reader's double keeps anyway) by sign, number of digits and the first 15 digits, so that
             two literals of one double (4611686018427387904 / 4611686018427388000) are not told apart *)
          if Z.abs z <? 4611686018427387904 then L [A 2; A z]
          else let ds := dec_N (Z.abs_N z) in
               L [A 8; of_bool (z <? 0); of_nat (List.length ds); of_Ns (firstn 15 ds)]
      | None => match num_quarters l with Some x => L [A 3; A x] | None => L [A 4] end
      end
  | JStr s => L [A 5; of_Ns s]
  | JArr l => L [A 6; L (map tree_sx l)]
  | JObj m => L [A 7; L (map (fun kv => L [of_Ns (fst kv); tree_sx (snd kv)]) m)]
  end.

(* observation of an export: panic -1, not JSON -2, refused (empty string) -3, else the tree *)
Definition obs_string (grouped : bool) (o : option str) : sx :=
  match o with
  | None => A (-1)
  | Some [] => A (-3)
  | Some s => match parse_json s with
              | Some j => tree_sx (norm grouped j)
              | None => A (-2)
              end
  end.

Definition token_eqb (a b : token) : bool :=
  match a, b with
  | TLBrace, TLBrace | TRBrace, TRBrace | TLBrack, TLBrack | TRBrack, TRBrack
  | TComma, TComma | TColon, TColon | TTrue, TTrue | TFalse, TFalse | TNull, TNull => true
  | TStr x, TStr y => str_eqb x y
  | TNum x, TNum y => str_eqb x y
  | _, _ => false
  end.

Fixpoint tokens_eqb (a b : list token) : bool :=
  match a, b with
  | [], [] => true
  | x :: a', y :: b' => token_eqb x y && tokens_eqb a' b'
  | _, _ => false
  end.

(* same tokens; when neither text lexes (an export inside a known class) same characters
   apart from whitespace *)
Definition same_tokens (impl model : option str) : bool :=
  match impl, model with
  | None, None => true
  | Some x, Some y =>
      match lex LStart x, lex LStart y with
      | Some tx, Some ty => tokens_eqb tx ty
      | None, None => str_eqb (filter (fun ch => negb (is_ws ch)) x) (filter (fun ch => negb (is_ws ch)) y)
      | _, _ => false
      end
  | _, _ => false
  end.

(* ---------- classes of known findings ---------- *)

Definition classify (st : storev) (c : config) (a : nat) (av : annv) : nat :=
  if Known_C17_nonfinite av then 1
  else if Known_C17_config_chars c then 2
  else if Known_C17_anonymous_target st av then 5
  else if Known_C17_duplicate_names st c a then 4
  else 0.

(* ---------- the run ---------- *)

Definition targets_sx (o : option (list (str * json * json))) : sx :=
  match o with
  | None => A (-1)
  | Some l => L (map (fun t => match t with (src, b, e) => L [of_Ns src; tree_sx b; tree_sx e] end) l)
  end.

Definition set_generated (c : config) (g : option str) : config :=
  {| c_ann_iri := c_ann_iri c; c_set_iri := c_set_iri c; c_res_iri := c_res_iri c;
     c_extra_context := c_extra_context c; c_generated := g; c_generator := c_generator c;
     c_namespaces := c_namespaces c; c_template := c_template c |}.

(* the source/selector objects below the "target" member *)
Definition obs_targets (o : option str) : sx :=
  match o with
  | None => A (-1)
  | Some [] => A (-3)
  | Some s => match parse_json s with
              | Some (JObj m) =>
                  match member [116; 97; 114; 103; 101; 116]%N m with
                  | Some t => targets_sx (Some (targets t))
                  | None => L []
                  end
              | Some _ => L []
              | None => A (-2)
              end
  end.

(* ---- member names expanded through the exported @context ---- *)

Fixpoint ins_str (x : str) (l : list str) : list str :=
  match l with
  | [] => [x]
  | y :: r => if str_eqb x y then l else if str_ltb x y then x :: l else y :: ins_str x r
  end.
Definition sort_uniq (l : list str) : list str := fold_left (fun acc x => ins_str x acc) l [].

Fixpoint lookup_str (k : str) (m : list (str * str)) : option str :=
  match m with
  | [] => None
  | (k', v) :: r => if str_eqb k k' then Some v else lookup_str k r
  end.

(* prefix:name -> namespace IRI ++ name, when the prefix is declared *)
Definition expand (ctx : list (str * str)) (name : str) : str :=
  match before_colon name with
  | Some pre => match lookup_str pre ctx with
                | Some uri => uri ++ skipn (S (List.length pre)) name
                | None => name
                end
  | None => name
  end.

(* the prefix declarations of the "@context" member *)
Definition context_map (m : list (str * json)) : list (str * str) :=
  match member [64; 99; 111; 110; 116; 101; 120; 116]%N m with
  | Some (JArr l) =>
      flat_map (fun x => match x with
                         | JObj nm => flat_map (fun kv => match snd kv with JStr u => [(fst kv, u)] | _ => [] end) nm
                         | _ => []
                         end) l
  | _ => []
  end.

Definition names_sx (ctx : list (str * str)) (m : list (str * json)) : sx :=
  let names mm := L (map of_Ns (sort_uniq (map (fun kv => expand ctx (fst kv)) mm))) in
  L [names m;
     match member [98; 111; 100; 121]%N m with Some (JObj bm) => names bm | _ => L [] end].

Definition obs_names (o : option str) : sx :=
  match o with
  | None => A (-1)
  | Some [] => A (-3)
  | Some s => match parse_json s with
              | Some j => match norm false j with
                          | JObj m => names_sx (context_map m) m
                          | _ => L []
                          end
              | None => A (-2)
              end
  end.

Definition no_namespaces (c : config) : config :=
  {| c_ann_iri := c_ann_iri c; c_set_iri := c_set_iri c; c_res_iri := c_res_iri c;
     c_extra_context := c_extra_context c; c_generated := c_generated c; c_generator := c_generator c;
     c_namespaces := []; c_template := c_template c |}.

Fixpoint distinct (l : list str) : bool :=
  match l with [] => true | x :: r => negb (existsb (str_eqb x) r) && distinct r end.

(* what sub-case 6 demands: the names of the export without namespaces; None = not judged (a
   prefix declared twice, or a name that reads as prefix:name of a declared prefix by accident) *)
Definition spec_names (st : storev) (c : config) (a : nat) : option sx :=
  match export_ast st (no_namespaces c) a with
  | Some (JObj m) =>
      let ctx := map (fun up => (snd up, fst up)) (c_namespaces c) in
      let all := map fst m ++ match member [98; 111; 100; 121]%N m with Some (JObj bm) => map fst bm | _ => [] end in
      if distinct (map fst ctx)
         && forallb (fun s => str_eqb (expand ctx (uri_to_namespace (c_namespaces c) s)) s) all
      then Some (names_sx [] m) else None
  | _ => None
  end.

Definition run_case (st : storev) (c0 : config) (auto_generated : bool) (x : sx) : list sx :=
  let a := sx_nat (sx_nth 0 x) in
  let c := if auto_generated then set_generated c0 (Some (str_of (sx_nth 2 x))) else c0 in
  let impl := ostr_of (sx_nth 1 x) in
  let model := to_webannotation st c a in
  let m1 := obs_string false model in
  match get_ann st a with
  | None => [triple m1 m1 0; triple (obs_string false impl) (obs_string false impl) 0;
             triple (of_bool (same_tokens impl model)) (A 1) 0; triple (A (-1)) (A (-1)) 0;
             triple (obs_targets model) (obs_targets model) 0;
             triple (obs_names model) (obs_names model) 0]
  | Some av =>
      let k := classify st c a av in
      let spec1 :=
        if negb (accepted av) then A (-3)
        else if Known_C17_anonymous_target st av then A (-3)
        else match export_ast st c a with
             | Some j => tree_sx (norm true j)
             | None => m1
             end in
      let t4 := targets_sx (abs_targets st c (a_target av)) in
      [triple m1 spec1 k;
       triple (obs_string false impl) (obs_string false impl) 0;
       triple (of_bool (same_tokens impl model)) (A 1) k;   (* inside a known class the code may have been repaired *)
       triple t4 t4 0;
       triple (obs_targets model)
              (if negb (accepted av) || Known_C17_anonymous_target st av then A (-3)
               else match export_ast st c a with Some _ => t4 | None => obs_targets model end) k;
       triple (obs_names model)
              (if negb (accepted av) then A (-3)
               else match spec_names st c a with Some x => x | None => obs_names model end) k]
  end.

Definition run_C17 (x : sx) : sx :=
  let st := store_of (sx_nth 0 x) in
  let c := config_of (sx_nth 1 x) in
  L (flat_map (run_case st c (sx_bool (sx_nth 4 (sx_nth 1 x)))) (sx_list (sx_nth 2 x))).
