(* Executable entry point for the correspondence check of C13.
   input : (kind wsflags A B opcodes), A and B = (sorted (hid b e) ...)
   output: one triple (model spec known) per opcode; results 0/1. *)
From Coq Require Import List ZArith Bool Arith.
Import ListNotations.
From Stam Require Import Base.Sx Model.Rel Spec.RelSpec.

Definition rel_of_nat (n : nat) : rel :=
  match n with
  | 0 => Equals | 1 => Overlaps | 2 => Embeds | 3 => Embedded | 4 => Before
  | 5 => After | 6 => Precedes | 7 => Succeeds | 8 => SameBegin | 9 => SameEnd
  | 10 => InSet | _ => SameRange
  end.

(* rel + 12*(all + 2*(neg + 2*(ws + 2*(limit+1)))) *)
Definition op_of_code (z : Z) : op :=
  let r := Z.to_nat (z mod 12)%Z in
  let z1 := (z / 12)%Z in
  let all := Z.odd z1 in
  let z2 := (z1 / 2)%Z in
  let neg := Z.odd z2 in
  let z3 := (z2 / 2)%Z in
  let w := Z.odd z3 in
  let z4 := (z3 / 2)%Z in
  let lim := if Z.eqb z4 0 then None else Some (Z.to_nat (z4 - 1)) in
  mkop (rel_of_nat r) all neg lim w.

Definition ts_of_sx (x : sx) : ts :=
  mkts (sx_onat (sx_nth 0 x)) (sx_nat (sx_nth 1 x)) (sx_nat (sx_nth 2 x)).

Definition tset_of_sx (x : sx) : tset :=
  match sx_list x with
  | [] => mkset [] false
  | f :: l => mkset (map ts_of_sx l) (sx_bool f)
  end.

Definition hd_ts (A : tset) : ts := hd (mkts None 0 0) (items A).

Definition run_C13 (x : sx) : sx :=
  let kind := sx_nat (sx_nth 0 x) in
  let ws := map sx_bool (sx_list (sx_nth 1 x)) in
  let SA := tset_of_sx (sx_nth 2 x) in
  let SB := tset_of_sx (sx_nth 3 x) in
  let codes := sx_list (sx_nth 4 x) in
  L (map (fun c =>
            let o := op_of_code (sx_Z c) in
            match kind with
            | 0 => triple (of_bool (test_pair ws o (hd_ts SA) (hd_ts SB)))
                          (of_bool (spec_pair ws o (hd_ts SA) (hd_ts SB))) 0
            | 1 => triple (of_bool (test_ts_set ws o (hd_ts SA) SB))
                          (of_bool (spec_ts_set ws o (hd_ts SA) (items SB))) 0
            | 2 => triple (of_bool (test_set_ts ws o SA (hd_ts SB)))
                          (of_bool (spec_set_ts ws o (items SA) (hd_ts SB))) 0
            | 9 => triple (of_bool false) (of_bool false) 0   (* annotation without text in that resource *)
            | _ => triple (of_bool (test_set_set ws o SA SB))
                          (of_bool (spec_set_set ws o (items SA) (items SB))) 0
            end) codes).
