(* Correspondence entry point for C02: per operation, which items are alive afterwards and
   whether anything dangles.  model: after the transcribed cascade; spec: the state before
   minus the dependants computed by scan (Spec/RemovalSpec.v), nothing dangling. *)
From Coq Require Import List ZArith Bool Arith.
Import ListNotations.
From Stam Require Import Base.Sx Model.Offset Model.Store Model.StoreObs Spec.StoreSpec Spec.RemovalSpec Run.StoreRun.

Definition sx_pairs (l : list (nat * nat)) : sx := L (map (fun dx => L [of_nat (fst dx); of_nat (snd dx)]) l).

(* liveness view: annotations (with their data), resources, datasets with keys and data *)
Definition live_view (s : store) : sx :=
  L [L (map (fun h => match get_ann s h with Some a => sx_pairs (a_data a) | None => dead end)
            (seq 0 (length (anns s))));
     L (map (fun r => of_bool (match get_res s r with Some _ => true | None => false end)) (seq 0 (length (ress s))));
     L (map (fun d => match get_set s d with
                      | None => dead
                      | Some ds =>
                          L [L (map (fun k => of_bool (match slot (d_keys ds) k with Some _ => true | None => false end))
                                    (seq 0 (length (d_keys ds))));
                             L (map (fun x => of_bool (match slot (d_data ds) x with Some _ => true | None => false end))
                                    (seq 0 (length (d_data ds))))]
                      end) (seq 0 (length (sets s))))].

(* the view the specification predicts from the state before the removal *)
Definition spec_view (s : store) (e : effect) : sx :=
  L [L (map (fun h => match get_ann s h with
                      | Some a => if memn h (e_anns e) then dead else sx_pairs (keep_data e a)
                      | None => dead
                      end) (seq 0 (length (anns s))));
     L (map (fun r => of_bool (match get_res s r with Some _ => negb (memn r (e_res e)) | None => false end))
            (seq 0 (length (ress s))));
     L (map (fun d => match get_set s d with
                      | None => dead
                      | Some ds =>
                          if memn d (e_sets e) then dead else
                          L [L (map (fun k => of_bool (match slot (d_keys ds) k with
                                                       | Some _ => negb (mem_pair (d, k) (e_keys e))
                                                       | None => false end))
                                    (seq 0 (length (d_keys ds))));
                             L (map (fun x => of_bool (match slot (d_data ds) x with
                                                       | Some _ => negb (mem_pair (d, x) (e_data e))
                                                       | None => false end))
                                    (seq 0 (length (d_data ds))))]
                      end) (seq 0 (length (sets s))))].

Fixpoint run_ops (s : store) (ops : list op) : list sx :=
  match ops with
  | [] => []
  | o :: ops' =>
      let '(s', r) := step s o in
      let ro := sx_of_opout o r in
      let m := L [ro; live_view s'; of_bool (dangling_free s')] in
      let sp :=
        if is_removal o then
          let e := spec_effect s o in
          L [(if e_exists e then L [A 1] else ro); spec_view s e; A 1]
        else L [ro; live_view s'; A 1] in
      triple m sp 0 :: run_ops s' ops'
  end.

Definition run_C02 (x : sx) : sx := L (run_ops empty_store (map op_of_sx (sx_list x))).
