(* Correspondence entry point for C01: after every operation of a history, the
   outcome of the operation and every reverse lookup of every item (model: through
   the reverse indices; spec: scan over the live annotations). *)
From Coq Require Import List ZArith Bool Arith.
Import ListNotations.
From Stam Require Import Base.Sx Model.Offset Model.Store Model.StoreObs Spec.StoreSpec Run.StoreRun.

Fixpoint run_ops (s : store) (ops : list op) : list sx :=
  match ops with
  | [] => []
  | o :: ops' =>
      let '(s', r) := step s o in
      let ro := sx_of_opout o r in
      (triple ro ro 0 :: obs_state s') ++ run_ops s' ops'
  end.

Definition run_C01 (x : sx) : sx := L (run_ops empty_store (map op_of_sx (sx_list x))).
