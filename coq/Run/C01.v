(* Correspondence entry point for C01: after every operation of a history, the
   outcome of the operation and every reverse lookup of every item (model: through
   the reverse indices; spec: scan over the live annotations).  Besides, for every complex
   target, the stored form: the harness reports the subselector vector the implementation
   keeps (with its internal ranged selectors) and what iterating over it yields in stored
   order; the model compresses the latter itself (Model/Compress.v) and expands the former
   itself.  Those two sub-cases tie the compression model to the code: the reported value is
   echoed as the specification, so a difference shows as a divergence of the model.  A third
   sub-case: the members of a Multi/Composite selector are stored in non-decreasing order of the
   model's comparator (Model/SubOrder.v). *)
From Coq Require Import List ZArith Bool Arith.
Import ListNotations.
From Stam Require Import Base.Sx Model.Offset Model.Store Model.StoreObs Model.Compress Model.SubOrder Model.Forward Model.Adaptors Spec.StoreSpec Run.StoreRun.

Definition csel_of_sx (x : sx) : csel :=
  let n i := sx_nat (sx_nth i x) in
  match sx_Z (sx_nth 0 x) with
  | 0%Z => CLeaf (LText (n 1) (n 2) (n 3))
  | 1%Z => CLeaf (LAnnText (n 4) (n 1) (n 2) (n 3))
  | 2%Z => CLeaf (LAnn (n 1))
  | 3%Z => CLeaf (LRes (n 1))
  | 4%Z => CLeaf (LSet (n 1))
  | 5%Z => CLeaf (LKey (n 1) (n 2))
  | 6%Z => CLeaf (LData (n 1) (n 2))
  | 7%Z => CRText (n 1) (n 2) (n 3)
  | _ => CRAnn (n 1) (n 2) (negb (Nat.eqb (n 3) 0))
  end.

Definition sx_of_csel (c : csel) : sx :=
  match c with
  | CLeaf lf => of_nats (leaf_key lf)
  | CRText r b e => of_nats [7; r; b; e; 0]
  | CRAnn b e wt => of_nats [8; b; e; if wt then 1 else 0; 0]
  end.

(* the leaves of a list of stored selectors that are leaves (what the harness sends as the
   iteration result contains leaves only) *)
Definition leaves_of (l : list csel) : list leaf :=
  flat_map (fun c => match c with CLeaf lf => [lf] | _ => [] end) l.

Definition form_cases (s : store) (f : sx) : list sx :=
  flat_map (fun e =>
      let stored := sx_nth 1 e in
      let expanded := sx_nth 2 e in
      let cs := map csel_of_sx (sx_list stored) in
      let lfs := leaves_of (map csel_of_sx (sx_list expanded)) in
      let kind := sx_nat (sx_nth 3 e) in
      [triple (L (map sx_of_csel (compress (whole s) lfs))) stored 0;
       triple (L (map (fun lf => of_nats (leaf_key lf)) (expand (own_text s) cs))) expanded 0;
       triple (of_bool (Nat.eqb kind 3 || sortedb (leaf_cmp s) lfs)) (A 1) 0])
    (sx_list f).

(* the counting shortcuts read the length of an index entry: model = that length, spec = the
   number of live annotations the scan finds *)
Definition obs_counts (s : store) (model : bool) : sx :=
  L [L (map (fun r => match get_res s r with
                      | None => dead
                      | Some rs => L (map (fun t => of_nat (length (if model then tget (trm s) r t else s_ts_anns s r t)))
                                          (seq 0 (length (r_sels rs))))
                      end) (seq 0 (length (ress s))));
     L (map (fun d => match get_set s d with
                      | None => dead
                      | Some ds =>
                          L [L (map (fun k => match slot (d_keys ds) k with
                                              | None => dead
                                              | Some _ => of_nat (length (if model
                                                                          then sort_dedup (flat_map (fun x => tget (ddam s) d x) (rget (d_k2x ds) k))
                                                                          else s_key_anns s d ds k))
                                              end) (seq 0 (length (d_keys ds))));
                             L (map (fun x => match slot (d_data ds) x with
                                              | None => dead
                                              | Some _ => of_nat (length (if model then tget (ddam s) d x else s_data_anns s d x))
                                              end) (seq 0 (length (d_data ds))))]
                      end) (seq 0 (length (sets s))))].

(* the targets of every annotation by kind: model = the recursive iteration of the code,
   spec = closure under "targets" without the iterator *)
Definition sx_pairs (l : list (nat * nat)) : sx := L (map (fun p => L [of_nat (fst p); of_nat (snd p)]) l).
Definition obs_forward (s : store) (model : bool) : sx :=
  L (map (fun h => match get_ann s h with
                   | None => dead
                   | Some a =>
                       L [of_nats (if model then fw_resources s a else sp_resources s a);
                          of_nats (if model then fw_resources_meta s a else sp_resources_meta s a);
                          of_nats (fw_datasets s a);
                          sx_pairs (if model then fw_data_meta s a else sp_data_meta s a);
                          sx_pairs (if model then fw_keys_meta s a else sp_keys_meta s a);
                          of_nats (fw_targets_one s a);
                          of_nats (if model then fw_targets_max s a else sp_targets_max s a)]
                   end) (seq 0 (length (anns s)))).

(* the iterator adaptors and derived lookups (Model/Adaptors.v), in the layout of the harness *)
Definition obs_adaptors (s : store) (model : bool) : sx :=
  let derived (l : list nat) :=
    let r := recs s l in
    L [of_nats (ad_resources s model r); of_nats (ad_resources_meta s model r);
       of_nats (sort_dedup (flat_map (fun ha => fw_datasets s (snd ha)) r))] in
  L [L (map (fun even =>
              let sel := live_anns s even in
              L [of_nats (ad_annotations s model sel); of_nats (ad_targets_one s sel); of_nats (ad_targets_max s model sel);
                 sx_pairs (ad_data sel); sx_pairs (ad_data_meta s model sel);
                 sx_pairs (ad_keys s sel); sx_pairs (ad_keys_meta s model sel);
                 of_nats (ad_resources s model sel); of_nats (ad_resources_meta s model sel);
                 of_nats (ad_ts_annotations s model sel)]) [false; true]);
     L (map (fun d => match get_set s d with
                      | None => dead
                      | Some ds =>
                          L [of_nats (ds_data_annotations s model d ds); of_nats (ds_data_annotations_meta s model d ds);
                             of_nats (ds_data_keys ds);
                             of_nats (ds_keys_annotations s model d ds); of_nats (ds_keys_annotations_meta s model d ds);
                             L (map (fun x => match slot (d_data ds) x with
                                              | None => dead
                                              | Some _ => derived (data_anns s model d x)
                                              end) (seq 0 (length (d_data ds))));
                             L (map (fun k => match slot (d_keys ds) k with
                                              | None => dead
                                              | Some _ => derived (key_anns s model d ds k)
                                              end) (seq 0 (length (d_keys ds))))]
                      end) (seq 0 (length (sets s))));
     L [of_nats (res_annotations s model); of_nats (res_annotations_meta s model); of_nats (res_ts_annotations s model)]].

(* operation 14 = AnnotationStore::shrink_to_fit: performance only, the model does nothing *)
Fixpoint run_ops (s : store) (ops : list sx) (forms : list sx) : list sx :=
  match ops with
  | [] => []
  | x :: ops' =>
      let '(s', ro) :=
        if Z.eqb (sx_Z (sx_nth 0 x)) 14 then (s, L [A 1])
        else let o := op_of_sx x in let '(s', r) := step s o in (s', sx_of_opout o r) in
      (triple ro ro 0 :: obs_state s') ++ [triple (obs_counts s' true) (obs_counts s' false) 0; triple (obs_forward s' true) (obs_forward s' false) 0; triple (obs_adaptors s' true) (obs_adaptors s' false) 0] ++ form_cases s' (hd (L []) forms) ++ run_ops s' ops' (tl forms)
  end.

Definition run_C01 (x : sx) : sx :=
  L (run_ops empty_store (sx_list (sx_nth 0 x)) (sx_list (sx_nth 1 x))).
