(* Correspondence entry point for C10.
   input: (ops probes): after the whole history, and for every dataset slot:
     keys unique, vocabulary deduplicated, and for every probe (key|-1 operator) the result
     of find_data and test_data, plus data_by_value for every (key token 0..2, probe value).
   operator = (tag args...) see dop_of_sx. *)
From Coq Require Import List ZArith NArith Bool Arith.
Import ListNotations.
From Stam Require Import Base.Sx Model.Offset Model.Store Model.TempId Model.DataValue
     Model.StoreExt Spec.StoreSpec Spec.DataSpec Run.StoreRun.

Fixpoint dop_of_sx (x : sx) : dop :=
  match x with
  | A _ => OpAny
  | L l =>
      match l with
      | A tag :: rest =>
          let z := sx_Z (nth 0 rest (A 0)) in
          match tag with
          | 0%Z => OpNull | 1%Z => OpAny | 2%Z => OpTrue | 3%Z => OpFalse
          | 4%Z => OpEquals (map sx_N rest)
          | 5%Z => OpEqInt z | 6%Z => OpGt z | 7%Z => OpGe z | 8%Z => OpLt z | 9%Z => OpLe z
          | 10%Z => OpEqFix z | 11%Z => OpGtFix z | 12%Z => OpGeFix z | 13%Z => OpLtFix z | 14%Z => OpLeFix z
          | 15%Z => OpHas (map sx_N rest) | 16%Z => OpHasInt z | 17%Z => OpHasFix z
          | 18%Z => OpNot (match rest with o :: _ => dop_of_sx o | [] => OpAny end)
          | 19%Z => OpAnd (map dop_of_sx rest)
          | _ => OpOr (map dop_of_sx rest)
          end
      | _ => OpAny
      end
  end.

Definition of_opt (o : option nat) : sx := match o with Some h => of_nats [h] | None => of_nats [] end.

Definition probe_set (ds : dset) (model : bool) (probes values : list sx) : sx :=
  L [L (map (fun p =>
               let key := oref_of_sx (sx_nth 0 p) in
               let o := dop_of_sx (sx_nth 1 p) in
               let r := if model then m_find_data ds key o else s_find_data ds key o in
               L [of_nats r; of_bool (match r with [] => false | _ => true end); of_nats r; of_nats r; of_bool (match r with [] => false | _ => true end); of_nats r]) probes);
     L (map (fun v => L (map (fun k => of_opt (if model then m_data_by_value ds (ById k) (value_of_sx v)
                                                else s_data_by_value ds (ById k) (value_of_sx v)))
                             (seq 0 3))) values)].

Definition run_C10 (x : sx) : sx :=
  (* operation 13 = add_dataset from a builder with data items (Model/StoreExt.add_set_with) *)
  let s := fold_left (fun s o =>
                        if Z.eqb (sx_Z (sx_nth 0 o)) 13
                        then fst (add_set_with s (sx_nat (sx_nth 1 o)) (map dbuild_of_sx (sx_list (sx_nth 2 o))))
                        else fst (step s (op_of_sx o)))
                     (sx_list (sx_nth 0 x)) empty_store in
  let probes := sx_list (sx_nth 1 x) in
  let values := sx_list (sx_nth 2 x) in
  let once := (flat_map (fun d =>
       match get_set s d with
       | None => [triple dead dead 0]
       | Some ds =>
           [triple (L [of_bool (keys_unique ds); of_bool (vocab_ok ds)]) (L [A 1; A 1]) 0;
            triple (probe_set ds true probes values) (probe_set ds false probes values) 0]
       end) (seq 0 (length (sets s)))) in
  (* shrink_to_fit changes nothing observable: the same answers again *)
  L (once ++ once).
