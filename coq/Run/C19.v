(* Correspondence entry point for C19.
   requests (strings are lists of scalar values; an absent string is the atom -1):
     (0 which s)                 string parsers: 0 Cursor, 1 Type, 2 SelectorKind, 3 DataFormat,
                                 4 any id lookup (resolve_temp_id): panics or not
     (1 strip base arrays)       `annotations` arrays of one store document; elem = (id build kinds)
     (2 strip arrays)            `data` arrays of one annotation data set; elem = (id build)
     (3 c0 ... c10)              one row of the annotations CSV (the eleven columns)
     (4 ..) (5 ..) (6 ..)        generic mutations of JSON / CSV / CBOR serialisations: measured only
     (7 0 n)                     CBOR: a data value nested n lists deep
     (7 1 v n)                   CBOR: the text selection handle (0) of an annotation's TextSelector
                                 replaced by v; the resource has n text selections
     (7 2 t)                     text resource @include of a JSON file with (t=1) / without text
     (7 3 inc files)             data set @include chain; files = list of (j | -1)
     (7 4 which)                 "@include": "-" in the store (0) / a data set (1); standard input is open
     (8 n hasid samekey)         n annotations with one inline data item each, loaded again with 4n:
                                 safety 5 = more than seven times the cpu time
     (9 strip arrays)            as (1 ..) with a non-empty store, but through merge_json_str
     (11 mode tkind b e)         AnnotationSelector with offset b..e on an annotation whose own target is
                                 of kind tkind (5: text of length 5, 6: annotation with offset, length 2,
                                 others: no text); mode 0 JSON, 1 annotate_from_file, 2 CSV
     (12 ..)                     CBOR length headers rewritten: measured only
     (16 mode n)                 n annotations with inline data whose "@id" is the empty string; mode 0 store,
                                 1 annotate_from_file; result (0 number of data items)
     (17 mode ctype kinds)       one Composite (0) / Multi (1) / Directional (2) selector over the sub-selector kinds
                                 (0 resource, 1 annotation, 2 text, 3 data set, 4 key, 5 data, 6 annotation with offset),
                                 all resolvable; mode 0 STAM JSON, 1 STAM CSV, 2 annotate_from_file; result (0)
     (15 cfg request)            the request under Config variant cfg: same prediction
     (13 mode (keys data) (keys data))  one data set defined twice (sub-stores, with_file, merge_json_str,
                                 merge_json_file, two set objects in one merged file); data = ((id key) ..);
                                 result (0 ((id key) .. by id) (keys ascending))
   sub-cases: [safety] or [safety; result].
     safety: 0 fine, 1 panic, 2 abort, 3 hang, 4 memory over budget, 5 cpu time over budget,
             6 the loaded store is not sane (a lookup panicked / aborted)
     result: (0 ...) loaded, (1) error, (9) not applicable *)
From Coq Require Import List NArith ZArith Bool Arith.
Import ListNotations.
From Stam Require Import Base.Sx Model.Loader Spec.LoaderSpec.
Local Open Scope N_scope.

Definition str_of (x : sx) : str := map sx_N (sx_list x).
Definition ostr_of (x : sx) : option str := match x with A _ => None | L _ => Some (str_of x) end.

(* numbers up to 2^64 as two 32-bit halves *)
Definition big (n : N) : list sx := [of_N (n / 4294967296); of_N (n mod 4294967296)].

(* char::is_uppercase / to_lowercase on the alphabet the generator uses: ASCII, Latin-1,
   U+0130, U+212A (Kelvin), U+FF21, U+1D400 *)
Definition upper_run (c : N) : bool :=
  ((65 <=? c) && (c <=? 90)) || ((192 <=? c) && (c <=? 222) && negb (c =? 215))
  || (c =? 304) || (c =? 8490) || (c =? 65313) || (c =? 119808).
Definition lower_hi (c : N) : str :=
  if (192 <=? c) && (c <=? 222) && negb (c =? 215) then [c + 32]
  else if c =? 304 then [105; 775]
  else if c =? 8490 then [107]
  else if c =? 65313 then [65345]
  else [c].
Definition lower_run := lower_with lower_hi.

Definition cap_slots : N := 33554432.       (* 2^25: between what the generator asks for below and above *)
Definition mem_slots : N := 100000.         (* more slots than this is over the memory budget *)
Definition stack_frames : nat := 1000.      (* between the nesting depths the generator uses *)

Definition index_of {T} (eqb : T -> T -> bool) (x : T) (l : list T) : Z :=
  (fix go (l : list T) (i : Z) : Z :=
     match l with [] => (-1)%Z | y :: l' => if eqb x y then i else go l' (i + 1)%Z end) l 0%Z.

Definition stype_eqb (a b : stype) : bool :=
  match a, b with
  | TStore, TStore | TAnnotation, TAnnotation | TDataSet, TDataSet | TData, TData | TKey, TKey
  | TValue, TValue | TResource, TResource | TTextSelection, TTextSelection
  | TTextSelectionSet, TTextSelectionSet | TConfig, TConfig | TSubStore, TSubStore => true
  | _, _ => false
  end.
Definition all_types := [TStore; TAnnotation; TDataSet; TData; TKey; TValue; TResource;
                         TTextSelection; TTextSelectionSet; TConfig; TSubStore].
Definition skind_eqb (a b : skind) : bool :=
  match a, b with
  | KResource, KResource | KAnnotation, KAnnotation | KText, KText | KDataSet, KDataSet
  | KDataKey, KDataKey | KData, KData | KMulti, KMulti | KComposite, KComposite
  | KDirectional, KDirectional => true
  | _, _ => false
  end.
Definition all_kinds := [KResource; KAnnotation; KText; KDataSet; KDataKey; KData; KMulti; KComposite; KDirectional].

Definition out_of {T} (o : outcome T) (f : T -> sx) : sx :=
  match o with Ok a => f a | Err => L [A 0] | Panic => L [A (-1)] | Abort => L [A (-2)] | Hang => L [A (-3)] end.

Definition cursor_sx (c : cursor) : sx :=
  match c with
  | CBegin n => L (A 1 :: A 0 :: big n)
  | CEnd z => L (A 1 :: A 1 :: big (Z.to_N (- z)))
  end.

Definition run_string (which : nat) (s : str) : sx :=
  match which with
  | 0%nat => triple (out_of (cursor_of_str s) cursor_sx) (out_of (spec_cursor s) cursor_sx) 0
  | 1%nat => let r := out_of (type_of_str lower_run s) (fun t => L [A 1; A (index_of stype_eqb t all_types)]) in
             triple r r 0
  | 2%nat => let r := out_of (kind_of_str s) (fun k => L [A 1; A (index_of skind_eqb k all_kinds)]) in
             triple r r 0
  | 3%nat => let r := out_of (format_of_str s)
                        (fun f => match f with FJson c => L [A 1; A 0; of_bool c] | FCbor => L [A 1; A 1; A 0]
                                            | FCsv => L [A 1; A 2; A 0] end) in
             triple r r 0
  | _ => triple (out_of (resolve_temp_id upper_run false s) (fun _ => L [A 1])) (L [A 1]) 0
  end.

Definition kind_of_nat (n : nat) : skind := nth n all_kinds KResource.

Definition velem_of (x : sx) : velem :=
  {| v_id := ostr_of (sx_nth 0 x); v_build := sx_bool (sx_nth 1 x);
     v_kinds := map (fun k => kind_of_nat (sx_nat k)) (sx_list (sx_nth 2 x)) |}.

Definition safety_of (s : status) (al : N) : Z :=
  match s with
  | SPanic => 1%Z
  | SAbort => 2%Z
  | _ => if mem_slots <? al then 4%Z else 0%Z
  end.

(* specification side of the abstraction: temporary handles are read with the specification parser *)
Definition abs_spec (strip : bool) (e : velem) : option N * bool :=
  ((if strip then match v_id e with Some s => spec_temp_id s | None => None end else None), v_build e).

Definition run_visit (strip : bool) (base : N) (d : list (list velem)) : sx :=
  let st := {| slots := base; alloc := 0; placed := if base =? 0 then [] else [0] |} in
  let r := visit_doc upper_run cap_slots cap_slots strip false st d in
  let known := if Known_C19_alloc base (map (map (abs_spec strip)) d) then 1%nat else 0%nat in
  let mres := match fst r with
              | SOk => L [A 0; of_N (slots (snd r)); of_Ns (rev (placed (snd r)))]
              | SErr => L [A 1]
              | _ => L [A 9]
              end in
  let sres := match spec_doc cap_slots base (map (map (abs_spec strip)) d) with
              | Some ps => L [A 0; of_N (next_after base ps); of_Ns ((if base =? 0 then [] else [0]) ++ ps)]
              | None => L [A 1]
              end in
  L [triple (L [A (safety_of (fst r) (alloc (snd r)))]) (L [A 0]) known;
     triple mres sres 0].

Definition row_of (x : sx) : csvrow :=
  let c i := str_of (sx_nth i x) in
  {| c_id := c 1%nat; c_data := c 2%nat; c_set := c 3%nat; c_kind := c 4%nat; c_res := c 5%nat;
     c_ann := c 6%nat; c_dset := c 7%nat; c_begin := c 8%nat; c_end := c 9%nat; c_key := c 10%nat;
     c_tdata := c 11%nat |}.

Definition res_sx {T} (o : outcome T) : sx :=
  match o with Ok _ => L [A 0] | Err => L [A 1] | _ => L [A 9] end.
Definition safety_sx {T} (o : outcome T) (insane : bool) : sx :=
  match o with
  | Panic => L [A (if insane then 6 else 1)]
  | Abort => L [A 2]
  | Hang => L [A 3]
  | _ => L [A 0]
  end.

Definition run_targeted (x : sx) : sx :=
  match sx_nat (sx_nth 1 x) with
  | 0%nat =>
      let n := sx_nat (sx_nth 2 x) in
      let o := cbor_value stack_frames n in
      L [triple (safety_sx o false) (L [A 0]) (if Nat.ltb stack_frames n then 2 else 0);
         triple (res_sx o) (res_sx o) 0]
  | 1%nat =>
      let s := {| cs_n := sx_N (sx_nth 3 x); cs_targets := [sx_N (sx_nth 2 x)]; cs_rev := [(0, 0)] |} in
      let o := bind (cbor_load s) cbor_probe in
      L [triple (safety_sx o true) (L [A 0]) (if cbor_sane s then 0 else 3);
         triple (L [A 0]) (L [A 0]) 0]
  | 2%nat =>
      let o := resource_include false stack_frames (sx_bool (sx_nth 2 x)) in
      L [triple (safety_sx o false) (L [A 0]) 0; triple (res_sx o) (res_sx o) 0]
  | 4%nat =>
      let o := include_stdin false true in
      L [triple (safety_sx o false) (L [A 0]) 0; triple (res_sx o) (res_sx o) 0]
  | _ =>
      let files := map (fun f => sx_onat f) (sx_list (sx_nth 3 x)) in
      let o := ds_include false stack_frames 0 files (sx_onat (sx_nth 2 x)) in
      L [triple (safety_sx o false) (L [A 0]) 0; triple (res_sx o) (res_sx o) 0]
  end.

Fixpoint insert_pair (p : N * N) (l : list (N * N)) : list (N * N) :=
  match l with
  | [] => [p]
  | q :: l' => if fst p <=? fst q then p :: l else q :: insert_pair p l'
  end.
Definition sort_pairs (l : list (N * N)) : list (N * N) := fold_right insert_pair [] l.
Fixpoint insert_n (p : N) (l : list N) : list N :=
  match l with
  | [] => [p]
  | q :: l' => if p <=? q then p :: l else q :: insert_n p l'
  end.
Definition sort_ns (l : list N) : list N := fold_right insert_n [] l.

Definition def_of (x : sx) : dsdef :=
  {| ds_keys := map sx_N (sx_list (sx_nth 0 x));
     ds_data := map (fun d => (sx_N (sx_nth 0 d), sx_N (sx_nth 1 d))) (sx_list (sx_nth 1 x)) |}.
Definition def_sx (keys : list N) (data : list (N * N)) : sx :=
  L [A 0; L (map (fun p => L [of_N (fst p); of_N (snd p)]) (sort_pairs data)); of_Ns (sort_ns keys)].

Definition run_merge (x : sx) : sx :=
  let a := def_of (sx_nth 2 x) in
  let b := def_of (sx_nth 3 x) in
  let m := ds_merge a b in
  (* specification: the data of a, then those of b whose id a does not have; likewise the keys *)
  let sdata := ds_data a ++ filter (fun d => negb (has_id (fst d) (ds_data a))) (ds_data b) in
  let skeys := ds_keys a ++ filter (fun k => negb (has_key k (ds_keys a))) (ds_keys b) in
  L [triple (L [A 0]) (L [A 0]) 0; triple (def_sx (ds_keys m) (ds_data m)) (def_sx skeys sdata) 0].

Definition run_inner (x : sx) : sx :=
  match sx_nat (sx_nth 0 x) with
  | 0%nat => L [run_string (sx_nat (sx_nth 1 x)) (str_of (sx_nth 2 x))]
  | 1%nat => run_visit (sx_bool (sx_nth 1 x)) (sx_N (sx_nth 2 x))
                       (map (fun l => map velem_of (sx_list l)) (sx_list (sx_nth 3 x)))
  | 2%nat => run_visit (sx_bool (sx_nth 1 x)) 0
                       (map (fun l => map velem_of (sx_list l)) (sx_list (sx_nth 2 x)))
  | 3%nat =>
      let o := csv_row false (row_of x) in
      let m := match o with Ok _ => L [A 0] | Err => L [A 1] | Panic => L [A (-1)] | Abort => L [A (-2)] | Hang => L [A (-3)] end in
      let s := match o with Ok _ => L [A 0] | Err => L [A 1] | _ => L [A 0] end in
      L [triple m s 0]
  | 7%nat => run_targeted x
  | 8%nat =>
      let sl := superlinear (sx_N (sx_nth 1 x)) (sx_bool (sx_nth 2 x)) (sx_bool (sx_nth 3 x)) in
      L [triple (L [A (if sl then 5 else 0)]) (L [A 0]) (if sl then 4 else 0); triple (L [A 0]) (L [A 0]) 0]
  | 11%nat =>
      let parent := match sx_nat (sx_nth 2 x) with 5%nat => Some 5 | 6%nat => Some 2 | 10%nat => Some 5 | _ => None end in
      (* an offset value is a small number or a decimal string (up to and beyond 2^64): a string
         that is no usize makes the document (JSON number / CSV cell) unreadable *)
      let value (v : sx) : option N := match v with A z => Some (Z.to_N z) | L _ => spec_usize (str_of v) end in
      let o := match value (sx_nth 3 x), value (sx_nth 4 x) with
               | Some b, Some e => ann_offset parent b e
               | _, _ => Err
               end in
      L [triple (safety_sx o false) (L [A 0]) 0; triple (res_sx o) (res_sx o) 0]
  | 13%nat => run_merge x
  | 17%nat =>
      (* one complex selector over many resolvable sub-selectors of mixed kinds: the comparator of
         subselectors() has an arm for every pair now ([old = false]), the annotation is built *)
      let kinds := map (fun k => match sx_nat k with 6%nat => KAnnotation | n => kind_of_nat n end) (sx_list (sx_nth 3 x)) in
      let e := {| v_id := None; v_build := true; v_kinds := kinds |} in
      let r := visit_doc upper_run cap_slots cap_slots true false {| slots := 1; alloc := 0; placed := [0] |} [[e]] in
      let res := match fst r with SOk => L [A 0] | SErr => L [A 1] | _ => L [A 9] end in
      L [triple (L [A (safety_of (fst r) (alloc (snd r)))]) (L [A 0]) 0; triple res (L [A 0]) 0]
  | 16%nat =>
      (* n annotations with one inline data item each, every item with "@id": "" (= no identifier)
         and its own value: n data items *)
      L [triple (L [A 0]) (L [A 0]) 0; triple (L [A 0; sx_nth 2 x]) (L [A 0; sx_nth 2 x]) 0]
  | 9%nat => run_visit (sx_bool (sx_nth 1 x)) 1
                       (map (fun l => map velem_of (sx_list l)) (sx_list (sx_nth 2 x)))
  | _ => L [triple (L [A 0]) (L [A 0]) 0]
  end.

(* (15 cfg request): the same request loaded under another Config (milestone_interval 0/1/2,
   shrink_to_fit off, generate_ids on, the reverse indices off, use_include off, all of these).
   The configuration does not change what is accepted nor where items are placed: the
   prediction is that of the inner request. *)
Definition run_C19 (x : sx) : sx :=
  match sx_nat (sx_nth 0 x) with
  | 15%nat => run_inner (sx_nth 2 x)
  | _ => run_inner x
  end.
