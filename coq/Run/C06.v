(* Correspondence entry point for C06.
   input : (len wsflags ((b e)...) (sorted (hid b e)...) opcodes)
   output: per opcode the sorted list of handles found *)
From Coq Require Import List ZArith Bool Arith.
Import ListNotations.
From Stam Require Import Base.Sx Model.Rel Model.Search Model.Handles Run.C13.

Definition known_of_sx (x : sx) : list ts :=
  let l := sx_list x in
  map (fun ih => mkts (Some (fst ih)) (sx_nat (sx_nth 0 (snd ih))) (sx_nat (sx_nth 1 (snd ih))))
      (combine (seq 0 (length l)) l).

Definition spec_search (ws : list bool) (o : op) (R : tset) (K : list ts) : list nat :=
  match orel o, oall o, oneg o with
  | Equals, false, false =>
      (* the reference selection(s) themselves; for several references the result is what the
         implementation documents: the known ones up to the first unknown one *)
      equals_shortcut K (items R)
  | _, _, _ => related ws o R K
  end.

(* twin requests: every reference on its own (the iterator adaptor asks one reference at a time),
   results gathered, sorted, each once; the twin resource has the same text and the same known
   selections under the same handle numbers and answers the same, shown as 1000 + handle *)
Definition gathered (f : tset -> list nat) (R : tset) : list nat :=
  let one := gather (fun t => f (mkset [t] false)) (items R) in
  one ++ map (fun h => 1000 + h) one.

Definition run_C06 (x : sx) : sx :=
  if Nat.eqb (sx_nat (sx_nth 5 x)) 1 then
    let len := sx_nat (sx_nth 0 x) in
    let ws := map sx_bool (sx_list (sx_nth 1 x)) in
    let K := known_of_sx (sx_nth 2 x) in
    let R := tset_of_sx (sx_nth 3 x) in
    L (map (fun c =>
              let o := op_of_code (sx_Z c) in
              triple (of_nats (gathered (fun R1 => search ws o R1 K len) R))
                     (of_nats (gathered (fun R1 => spec_search ws o R1 K) R)) 0) (sx_list (sx_nth 4 x)))
  else
  let len := sx_nat (sx_nth 0 x) in
  let ws := map sx_bool (sx_list (sx_nth 1 x)) in
  let K := known_of_sx (sx_nth 2 x) in
  let R := tset_of_sx (sx_nth 3 x) in
  let codes := sx_list (sx_nth 4 x) in
  L (map (fun c =>
            let o := op_of_code (sx_Z c) in
            triple (of_nats (sort (search ws o R K len)))
                   (of_nats (sort (spec_search ws o R K))) 0) codes).
