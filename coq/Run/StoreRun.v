(* Shared decoding of store histories and observation vectors (C01 C02 C03 C10 C14).
   A request is a list of operations; see harness/src/storegen.rs for the encoding:
     (0 id len) AddRes   (1 id) AddSet   (2 dbuild) InsData   (3 id|-1 target|-1 (dbuild...)) Annotate   (9 set keyid) AddKey
     (4 ref) RmAnn  (5 dref xref strict) RmData  (6 dref kref strict) RmKey  (7 ref) RmRes  (8 ref) RmSet
     ref = (0 tok) | (1 handle);  dbuild = (setref id|-1 key|-1 value)
     value = (0) | (1 b) | (2 z) | (3 z) | (4 cp...) | (5 value...)
     target = (0 rref cb ce) | (1 aref) | (2 aref cb ce) | (3 rref) | (4 dref) | (5 dref kref)
            | (6 dref xref) | (7 kind target...);  cursor = (0 n) | (1 z) *)
From Coq Require Import List ZArith Bool Arith.
Import ListNotations.
From Stam Require Import Base.Sx Model.Offset Model.Store Model.StoreObs Spec.StoreSpec.

Definition cursor_of_sx (x : sx) : cursor :=
  if Z.eqb (sx_Z (sx_nth 0 x)) 0 then CB (sx_nat (sx_nth 1 x)) else CE (sx_Z (sx_nth 1 x)).

Definition ref_of_sx (x : sx) : iref :=
  if Z.eqb (sx_Z (sx_nth 0 x)) 0 then ById (sx_nat (sx_nth 1 x)) else ByHandle (sx_nat (sx_nth 1 x)).
Definition oref_of_sx (x : sx) : option iref :=
  match x with A _ => None | L _ => Some (ref_of_sx x) end.

Fixpoint value_of_sx (x : sx) : value :=
  match x with
  | A _ => VNull
  | L l =>
      match l with
      | A tag :: rest =>
          match tag with
          | 0%Z => VNull
          | 1%Z => VBool (sx_bool (nth 0 rest (A 0)))
          | 2%Z => VInt (sx_Z (nth 0 rest (A 0)))
          | 3%Z => VFix (sx_Z (nth 0 rest (A 0)))
          | 4%Z => VStr (map sx_N rest)
          | _ => VList (map value_of_sx rest)
          end
      | _ => VNull
      end
  end.

Fixpoint sx_of_value (v : value) : sx :=
  match v with
  | VNull => L [A 0]
  | VBool b => L [A 1; of_bool b]
  | VInt z => L [A 2; A z]
  | VFix z => L [A 3; A z]
  | VStr s => L (A 4 :: map of_N s)
  | VList l => L (A 5 :: map sx_of_value l)
  end.

Definition dbuild_of_sx (x : sx) : dbuild :=
  mkdb (ref_of_sx (sx_nth 0 x)) (oref_of_sx (sx_nth 1 x)) (oref_of_sx (sx_nth 2 x)) (value_of_sx (sx_nth 3 x)).

Fixpoint sbuild_of_sx (x : sx) : sbuild :=
  match x with
  | A _ => BRes (ByHandle 0)
  | L l =>
      match l with
      | A tag :: rest =>
          let n i := nth i rest (A 0) in
          match tag with
          | 0%Z => BText (ref_of_sx (n 0)) (mkoff (cursor_of_sx (n 1)) (cursor_of_sx (n 2)))
          | 1%Z => BAnn (ref_of_sx (n 0)) None
          | 2%Z => BAnn (ref_of_sx (n 0)) (Some (mkoff (cursor_of_sx (n 1)) (cursor_of_sx (n 2))))
          | 3%Z => BRes (ref_of_sx (n 0))
          | 4%Z => BSet (ref_of_sx (n 0))
          | 5%Z => BKey (ref_of_sx (n 0)) (ref_of_sx (n 1))
          | 6%Z => BData (ref_of_sx (n 0)) (ref_of_sx (n 1))
          | _ => BComplex (sx_nat (n 0)) (match rest with _ :: subs => map sbuild_of_sx subs | [] => [] end)
          end
      | _ => BRes (ByHandle 0)
      end
  end.

Definition op_of_sx (x : sx) : op :=
  let n i := sx_nth i x in
  match sx_Z (n 0) with
  | 0%Z => AddRes (sx_nat (n 1)) (sx_nat (n 2))
  | 1%Z => AddSet (sx_nat (n 1))
  | 2%Z => InsData (dbuild_of_sx (n 1))
  | 3%Z => Annotate (mkab (sx_onat (n 1))
                          (match n 2 with A _ => None | L _ => Some (sbuild_of_sx (n 2)) end)
                          (map dbuild_of_sx (sx_list (n 3))))
  | 4%Z => RmAnn (ref_of_sx (n 1))
  | 5%Z => RmData (ref_of_sx (n 1)) (ref_of_sx (n 2)) (sx_bool (n 3))
  | 6%Z => RmKey (ref_of_sx (n 1)) (ref_of_sx (n 2)) (sx_bool (n 3))
  | 7%Z => RmRes (ref_of_sx (n 1))
  | 9%Z => AddKey (ref_of_sx (n 1)) (sx_nat (n 2))
  | _ => RmSet (ref_of_sx (n 1))
  end.

Definition sx_of_out (o : out) : sx :=
  match o with OOk h => L [A 1; of_nat h] | OErr => L [A 0] | OPanic => L [A (-1)] end.

(* removals report success without a handle *)
Definition is_removal (o : op) : bool :=
  match o with RmAnn _ | RmData _ _ _ | RmKey _ _ _ | RmRes _ | RmSet _ => true | _ => false end.
Definition sx_of_opout (o : op) (r : out) : sx :=
  match r with
  | OOk h => if is_removal o then L [A 1] else L [A 1; of_nat h]
  | OErr => L [A 0]
  | OPanic => L [A (-1)]
  end.

(** canonical description of an annotation as the API shows it *)
Definition leaf_key (lf : leaf) : list nat :=
  match lf with
  | LText r t m => [0; r; t; m; 0]
  | LAnnText a r t m => [1; r; t; m; a]
  | LAnn a => [2; a; 0; 0; 0]
  | LRes r => [3; r; 0; 0; 0]
  | LSet d => [4; d; 0; 0; 0]
  | LKey d k => [5; d; k; 0; 0]
  | LData d x => [6; d; x; 0; 0]
  end.
Fixpoint lex_leb (a b : list nat) : bool :=
  match a, b with
  | [], _ => true
  | _, [] => false
  | x :: a', y :: b' => if x <? y then true else if y <? x then false else lex_leb a' b'
  end.
Fixpoint ins_leaf (x : list nat) (l : list (list nat)) : list (list nat) :=
  match l with
  | [] => [x]
  | y :: l' => if lex_leb x y then x :: l else y :: ins_leaf x l'
  end.
Definition sort_leaves (l : list (list nat)) : list (list nat) := fold_right ins_leaf [] l.

(* Directional selectors keep the order they were given; the others are compared as sorted lists *)
Definition sx_of_ann (a : ann) : sx :=
  let ks := map leaf_key (a_leaves a) in
  L [of_onat (a_id a);
     L (map (fun dx => L [of_nat (fst dx); of_nat (snd dx)]) (a_data a));
     of_nat (a_kind a);
     L (map of_nats (if Nat.eqb (a_kind a) 3 then ks else sort_leaves ks))].

Definition dead : sx := A (-2).

(** per-item observation records; [mk] selects the model (index) or spec (scan) lookups *)
Definition obs_ann (s : store) (model : bool) (h : nat) : sx :=
  match get_ann s h with
  | None => dead
  | Some a => L [sx_of_ann a; of_nats (if model then m_ann_anns s h else s_ann_anns s h)]
  end.

Definition obs_res (s : store) (model : bool) (r : nat) : sx :=
  match get_res s r with
  | None => dead
  | Some rs =>
      L [of_nat (r_id rs); of_nat (r_len rs);
         of_nats (if model then m_res_meta s r else s_res_meta s r);
         of_nats (if model then m_res_text s r else s_res_text s r);
         L (map (fun it => L [of_nat (fst (snd it)); of_nat (snd (snd it));
                              of_nats (if model then m_ts_anns s r (fst it) else s_ts_anns s r (fst it))])
                (combine (seq 0 (length (r_sels rs))) (r_sels rs)))]
  end.

Definition obs_set (s : store) (model : bool) (d : nat) : sx :=
  match get_set s d with
  | None => dead
  | Some ds =>
      L [of_nat (d_id ds);
         of_nats (if model then m_set_meta s d else s_set_meta s d);
         L (map (fun k => match slot (d_keys ds) k with
                          | None => dead
                          | Some tok =>
                              L [of_nat tok;
                                 of_nats (if model then m_key_data ds k else s_key_data ds k);
                                 of_nats (if model then m_key_anns s d ds k else s_key_anns s d ds k);
                                 of_nats (if model then m_key_meta s d k else s_key_meta s d k)]
                          end) (seq 0 (length (d_keys ds))));
         L (map (fun x => match slot (d_data ds) x with
                          | None => dead
                          | Some it =>
                              L [of_onat (x_id it); of_nat (x_key it); sx_of_value (x_val it);
                                 of_nats (if model then m_data_anns s d x else s_data_anns s d x);
                                 of_nats (if model then m_data_meta s d x else s_data_meta s d x)]
                          end) (seq 0 (length (d_data ds))))]
  end.

Definition ID_TOKENS := 10.

Definition obs_ids (s : store) (model : bool) : sx :=
  L [L (map (fun t => of_nats (if model then m_resolve (anns s) (aidx s) t else s_resolve (anns s) a_id t)) (seq 0 ID_TOKENS));
     L (map (fun t => of_nats (if model then m_resolve (ress s) (ridx s) t else s_resolve (ress s) (fun r => Some (r_id r)) t)) (seq 0 ID_TOKENS));
     L (map (fun t => of_nats (if model then m_resolve (sets s) (sidx s) t else s_resolve (sets s) (fun d => Some (d_id d)) t)) (seq 0 ID_TOKENS))].

(* the list of sub-case triples describing one state *)
Definition obs_state (s : store) : list sx :=
  map (fun h => triple (obs_ann s true h) (obs_ann s false h) 0) (seq 0 (length (anns s)))
  ++ map (fun r => triple (obs_res s true r) (obs_res s false r) 0) (seq 0 (length (ress s)))
  ++ map (fun d => triple (obs_set s true d) (obs_set s false d) 0) (seq 0 (length (sets s)))
  ++ [triple (obs_ids s true) (obs_ids s false) 0].
