(* Correspondence entry point for C11 (CBOR round trip).
   request (built by harness/src/c11.rs from a history):
     (sections bytes)
   sections = what the ORIGINAL store answered, one entry per observation section (a digest when
              the reloaded store answered the same, the full vector otherwise) followed by the
              flag 1 for "a second save/load generation answers the same";
   bytes    = the file written by save().
   sub-cases:
     one per section   spec = model = the original's answer: by C11_roundtrip the loaded store is
                       the saved one up to the erased transient flags, which no section observes;
     save/load status  (1 1);
     file bytes        model = bytes_of_toks (enc (dec (toks_of_bytes file))) under the schema
                       extracted from the source; spec = the file itself;
     well-formedness   the file is exactly one well-formed CBOR data item. *)
From Coq Require Import String.
From Coq Require Import List ZArith NArith Bool Arith.
Import ListNotations.
From Stam Require Import Base.Sx Model.Cbor Spec.CborSpec Gen.CborSchema.

Definition bytes_of_sx (x : sx) : list N := map sx_N (sx_list x).

Definition run_C11 (x : sx) : sx :=
  let secs := sx_list (sx_nth 0 x) in
  let bytes := bytes_of_sx (sx_nth 1 x) in
  let root := TRef extracted_root in
  let reenc :=
    match bytes with
    | [] => L []
    | _ =>
        match reencode extracted_schema root bytes with
        | Some bs => of_Ns bs
        | None => A (-9)
        end
    end in
  let wf :=
    match toks_of_bytes (length bytes) bytes with
    | Some ts => of_bool (wellformed_items 1 ts)
    | None => A 0
    end in
  L (map (fun s => triple s s 0) secs
     ++ [triple (L [A 1; A 1]) (L [A 1; A 1]) 0;
         triple reenc (of_Ns bytes) 0;
         triple wf (A 1) 0]).
