(* Correspondence entry point for C11 (CBOR round trip).
   request (built by harness/src/c11.rs from a history):
     (sections bytes view)
   sections = what the ORIGINAL store answered, one entry per observation section (a digest when
              the reloaded store answered the same, the full vector otherwise), then the flag 1
              for "a second save/load generation answers the same" and the flag 1 for "the
              second generation's file equals the first up to the order of map entries";
   bytes    = the file written by save();
   view     = the index dump of the ORIGINAL store taken through the public API (items by
              handle, ids, texts, text selections, every reverse index row, id maps, position
              index), see [store_view].
   sub-cases:
     one per section   spec = model = the original's answer: by C11_store_roundtrip the loaded
                       store is the saved one up to the erased transient flags, which no section
                       observes;
     save/load status  (1 1);
     file bytes        model = bytes_of_toks (enc (dec (toks_of_bytes file))) under the schema
                       extracted from the source; spec = the file itself;
     well-formedness   the file is exactly one well-formed CBOR data item;
     index dump        model = [store_view] of the value the MODEL decodes from the file,
                       spec = the dump of the original store, impl = the dump of the reloaded
                       store: the indices in the file are the ones the original answered with,
                       and the ones the reloaded store answers with. *)
From Coq Require Import String Ascii.
From Coq Require Import List ZArith NArith Bool Arith.
Import ListNotations.
From Stam Require Import Base.Sx Model.Cbor Spec.CborSpec Gen.CborSchema.

Definition bytes_of_sx (x : sx) : list N := map sx_N (sx_list x).

(* ------------------------------------------------------------------ *)
(* reading a decoded store value by field NAME (positions and indices come from the schema) *)
Section View.
Variable Sc : schema.

Definition tv : Type := (ty * value)%type.
Definition nothing : tv := (TP PUnit, VU).

Fixpoint find_named (fname : ident) (p : nat) (fs : list field) : option (nat * field) :=
  match fs with
  | [] => None
  | f :: r => if ident_eqb (f_name f) fname then Some (p, f) else find_named fname (S p) r
  end.

(* field [fname] of a struct value; transparent structs are looked through by [untr] *)
Definition getf (x : tv) (fname : ident) : tv :=
  match x with
  | (TRef it, VRec l) =>
      match lookup Sc it with
      | Some (IStruct _ fs) =>
          match find_named fname 0 fs with
          | Some (p, f) =>
              (match fkind_of f with FK_ty t => t | _ => f_ty f end, nth p l VU)
          | None => nothing
          end
      | _ => nothing
      end
  | _ => nothing
  end.

(* look through a transparent struct *)
Definition untr (x : tv) : tv :=
  match x with
  | (TRef it, VRec [v]) =>
      match lookup Sc it with
      | Some (IStruct true [f]) => (match fkind_of f with FK_ty t => t | _ => f_ty f end, v)
      | _ => x
      end
  | _ => x
  end.

Definition elems (x : tv) : list tv :=
  match untr x with
  | (TVec t, VSeq l) => map (fun v => (t, v)) l
  | (TTup ts, VSeq l) => combine ts l
  | _ => []
  end.
Definition entries (x : tv) : list (tv * tv) :=
  match untr x with
  | (TMapT kt vt, VMapv l) =>
      flat_map (fun e => match e with VPair k v => [((kt, k), (vt, v))] | _ => [] end) l
  | _ => []
  end.
Definition unopt (x : tv) : option tv :=
  match x with
  | (TOpt t, VSome v) => Some (t, v)
  | _ => None
  end.
(* the number inside a handle (transparent struct around an unsigned) or a plain unsigned *)
Definition num (x : tv) : nat :=
  match snd x with
  | VRec [VN n] => N.to_nat n
  | VN n => N.to_nat n
  | _ => 0
  end.
Definition bytes (x : tv) : list N := match snd x with VS s => s | _ => [] end.
Definition flag (x : tv) : bool := match snd x with VB b => b | _ => false end.

Fixpoint bytes_eqb (a b : list N) {struct a} : bool :=
  match a, b with
  | [], [] => true
  | x :: a', y :: b' => N.eqb x y && bytes_eqb a' b'
  | _, _ => false
  end.

Fixpoint insert_nat (x : nat) (l : list nat) : list nat :=
  match l with
  | [] => [x]
  | y :: r => if Nat.leb x y then x :: l else y :: insert_nat x r
  end.
Definition sort_nat (l : list nat) : list nat := fold_right insert_nat [] l.

Definition live_at (slots : list tv) (h : nat) : bool :=
  match nth_error slots h with
  | Some s => match unopt s with Some _ => true | None => false end
  | None => false
  end.

(* a row of handles, as the API shows it: handles of removed items are skipped, ascending *)
Definition row (live : nat -> bool) (x : tv) : sx :=
  of_nats (sort_nat (filter live (map num (elems x)))).
Definition nth_row (rows : list tv) (h : nat) : tv := nth h rows nothing.
Definition relmap_rows (m : tv) : list tv := elems (getf m (i_ "data")).
(* [i_ "data"] is evaluated below by [Eval vm_compute] in every definition that is extracted *)

Definition opt_bytes (x : tv) : sx :=
  match unopt x with
  | Some s => of_Ns (bytes s)
  | None => A (-1)
  end.

(* a DataValue as (tag payload) *)
Fixpoint value_sx_fuel (fuel : nat) (v : value) : sx :=
  match fuel with
  | 0 => A (-9)
  | S fuel' =>
      match v with
      | VVar 0 _ => L [A 0]
      | VVar 1 [VS s] => L [A 1; of_Ns s]
      | VVar 2 [VB b] => L [A 2; of_bool b]
      | VVar 3 [VZ z] =>
          (* sign and two 32-bit halves: the driver's atoms are 63-bit machine integers *)
          L [A 3; of_bool (Z.ltb z 0); of_N (N.div (Z.abs_N z) 4294967296); of_N (N.modulo (Z.abs_N z) 4294967296)]
      | VVar 4 [VF b] => L [A 4; of_N (N.div b 4294967296); of_N (N.modulo b 4294967296)]
      | VVar 5 [VSeq l] => L (A 5 :: map (value_sx_fuel fuel') l)
      | VVar 6 [VS s] => L [A 6; of_Ns s]
      | _ => A (-8)
      end
  end.

End View.

Definition DEAD : sx := A (-2).

(* the dump; the field names are character lists computed once *)
Definition store_view (Sc : schema) (root : ty) (v : value) : sx :=
  Eval cbv beta iota delta [i_ list_ascii_of_string relmap_rows] in
  let g := getf Sc in
  let elems := elems Sc in
  let entries := entries Sc in
  let row := row Sc in
  let st : tv := (root, v) in
  let anns := elems (g st (i_ "annotations")) in
  let sets := elems (g st (i_ "annotationsets")) in
  let ress := elems (g st (i_ "resources")) in
  let live_a := live_at anns in
  let aidmap := entries (g (g st (i_ "annotation_idmap")) (i_ "data")) in
  let ridmap := entries (g (g st (i_ "resource_idmap")) (i_ "data")) in
  let sidmap := entries (g (g st (i_ "dataset_idmap")) (i_ "data")) in
  let resolve := fun (m : list (tv * tv)) (id : list N) =>
    match find (fun e => bytes_eqb (bytes (fst e)) id) m with
    | Some e => of_nat (num (snd e))
    | None => A (-1)
    end in
  let id_res := fun (m : list (tv * tv)) (x : tv) =>
    match unopt x with
    | Some s => resolve m (bytes s)
    | None => A (-1)
    end in
  let aamap := entries (g (g st (i_ "annotation_annotation_map")) (i_ "data")) in
  let aarow := fun (h : nat) =>
    match find (fun e => Nat.eqb (num (fst e)) h) aamap with
    | Some e => row live_a (snd e)
    | None => L []
    end in
  (* the settings of a Config that the file carries and the API can read back *)
  let cfgv := fun (c : tv) =>
    L [ of_bool (flag (g c (i_ "generate_ids"))); of_bool (flag (g c (i_ "strip_temp_ids")));
        of_bool (flag (g c (i_ "use_include"))); of_nat (num (g c (i_ "milestone_interval")));
        of_bool (flag (g c (i_ "textrelationmap"))); of_bool (flag (g c (i_ "resource_annotation_metamap")));
        of_bool (flag (g c (i_ "dataset_annotation_metamap"))); of_bool (flag (g c (i_ "annotation_annotation_map")));
        of_bool (flag (g c (i_ "key_annotation_metamap"))); of_bool (flag (g c (i_ "data_annotation_metamap")));
        opt_bytes (g c (i_ "workdir")) ] in
  let trm := relmap_rows Sc (g st (i_ "textrelationmap")) in
  let ddam := relmap_rows Sc (g st (i_ "dataset_data_annotation_map")) in
  let ramm := relmap_rows Sc (g st (i_ "resource_annotation_metamap")) in
  let damm := relmap_rows Sc (g st (i_ "dataset_annotation_metamap")) in
  let kamm := relmap_rows Sc (g st (i_ "key_annotation_metamap")) in
  let dtamm := relmap_rows Sc (g st (i_ "data_annotation_metamap")) in
  L [ (* annotations *)
      L (map (fun ih =>
                match unopt (snd ih) with
                | None => DEAD
                | Some a =>
                    L [ opt_bytes (g a (i_ "id"));
                        id_res aidmap (g a (i_ "id"));
                        L (map (fun p => of_nats (map num (elems p))) (elems (g a (i_ "data"))));
                        aarow (fst ih) ]
                end) (combine (seq 0 (length anns)) anns));
      (* resources *)
      L (map (fun ih =>
                match unopt (snd ih) with
                | None => DEAD
                | Some r =>
                    let tsels := elems (g r (i_ "textselections")) in
                    let trrows := relmap_rows Sc (nth_row trm (fst ih)) in
                    L [ of_Ns (bytes (g r (i_ "id")));
                        resolve ridmap (bytes (g r (i_ "id")));
                        of_Ns (bytes (g r (i_ "text")));
                        of_nat (num (g r (i_ "textlen")));
                        opt_bytes (g r (i_ "filename"));
                        L (map (fun jt =>
                                  match unopt (snd jt) with
                                  | None => DEAD
                                  | Some t =>
                                      L [ of_nat (num (g t (i_ "begin"))); of_nat (num (g t (i_ "end")));
                                          row live_a (nth_row trrows (fst jt)) ]
                                  end) (combine (seq 0 (length tsels)) tsels));
                        row live_a (nth_row ramm (fst ih));
                        (* position index: charpos, bytepos, begin2end, end2begin *)
                        L (map (fun e =>
                                  let it := snd e in
                                  L [ of_nat (num (fst e)); of_nat (num (g it (i_ "bytepos")));
                                      L (map (fun p => of_nats (map num (elems p))) (elems (g it (i_ "begin2end"))));
                                      L (map (fun p => of_nats (map num (elems p))) (elems (g it (i_ "end2begin")))) ])
                               (entries (g r (i_ "positionindex"))));
                        cfgv (g r (i_ "config")) ]
                end) (combine (seq 0 (length ress)) ress));
      (* datasets *)
      L (map (fun ih =>
                match unopt (snd ih) with
                | None => DEAD
                | Some s =>
                    let keys := elems (g s (i_ "keys")) in
                    let data := elems (g s (i_ "data")) in
                    let live_d := live_at data in
                    let kdm := relmap_rows Sc (g s (i_ "key_data_map")) in
                    let kidmap := entries (g (g s (i_ "key_idmap")) (i_ "data")) in
                    let didmap := entries (g (g s (i_ "data_idmap")) (i_ "data")) in
                    let ddrows := relmap_rows Sc (nth_row ddam (fst ih)) in
                    let kmrows := relmap_rows Sc (nth_row kamm (fst ih)) in
                    let dmrows := relmap_rows Sc (nth_row dtamm (fst ih)) in
                    L [ opt_bytes (g s (i_ "id"));
                        id_res sidmap (g s (i_ "id"));
                        opt_bytes (g s (i_ "filename"));
                        L (map (fun jk =>
                                  match unopt (snd jk) with
                                  | None => DEAD
                                  | Some k =>
                                      L [ of_Ns (bytes (g k (i_ "id")));
                                          resolve kidmap (bytes (g k (i_ "id")));
                                          row live_d (nth_row kdm (fst jk));
                                          row live_a (nth_row kmrows (fst jk)) ]
                                  end) (combine (seq 0 (length keys)) keys));
                        L (map (fun jd =>
                                  match unopt (snd jd) with
                                  | None => DEAD
                                  | Some d =>
                                      L [ opt_bytes (g d (i_ "id"));
                                          id_res didmap (g d (i_ "id"));
                                          of_nat (num (g d (i_ "key")));
                                          value_sx_fuel 30 (snd (g d (i_ "value")));
                                          row live_a (nth_row ddrows (fst jd));
                                          row live_a (nth_row dmrows (fst jd)) ]
                                  end) (combine (seq 0 (length data)) data));
                        row live_a (nth_row damm (fst ih));
                        cfgv (g s (i_ "config")) ]
                end) (combine (seq 0 (length sets)) sets));
      cfgv (g st (i_ "config")) ].

Definition run_C11 (x : sx) : sx :=
  let secs := sx_list (sx_nth 0 x) in
  let bytes := bytes_of_sx (sx_nth 1 x) in
  let view := sx_nth 2 x in
  let root := TRef extracted_root in
  let decoded :=
    match toks_of_bytes (length bytes) bytes with
    | Some ts =>
        match dec extracted_schema (S (length ts)) root ts with
        | Some (v, []) => Some (ts, v)
        | _ => None
        end
    | None => None
    end in
  let reenc :=
    match bytes with
    | [] => L []
    | _ =>
        match decoded with
        | Some (_, v) => of_Ns (bytes_of_toks (enc extracted_schema root v))
        | None => A (-9)
        end
    end in
  let wf :=
    match toks_of_bytes (length bytes) bytes with
    | Some ts => of_bool (wellformed_items 1 ts)
    | None => A 0
    end in
  let mview :=
    match decoded with
    | Some (_, v) => store_view extracted_schema root v
    | None => A (-9)
    end in
  L (map (fun s => triple s s 0) secs
     ++ [triple (L [A 1; A 1]) (L [A 1; A 1]) 0;
         triple reenc (of_Ns bytes) 0;
         triple wf (A 1) 0;
         triple mview view 0]).
