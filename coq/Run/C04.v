(* Correspondence entry point for C04.
   input : (text (offset ...)), offset = ((kind v) (kind v)), kind 0 = BeginAligned, 1 = EndAligned
   output: per level two sub-cases (annotate path, FindText::textselection path) *)
From Coq Require Import List ZArith Bool Arith.
Import ListNotations.
From Stam Require Import Base.Sx Model.Offset Model.Utf8 Spec.OffsetSpec.

Definition cursor_of_sx (x : sx) : cursor :=
  if Z.eqb (sx_Z (sx_nth 0 x)) 0 then CB (sx_nat (sx_nth 1 x)) else CE (sx_Z (sx_nth 1 x)).
Definition offset_of_sx (x : sx) : offset := mkoff (cursor_of_sx (sx_nth 0 x)) (cursor_of_sx (sx_nth 1 x)).

Definition sx_of_cursor (c : cursor) : list sx :=
  match c with CB n => [A 0; of_nat n] | CE z => [A 1; A z] end.

Definition modes := [BeginBegin; BeginEnd; EndEnd; EndBegin].

Definition sx_res (r : res (nat * nat)) : list sx :=
  match r with Ok (b, e) => [of_nat b; of_nat e] | Err => [A (-1); A (-1)] end.

Definition report_sx (o : option offset) (rr : offset -> res (nat * nat)) : sx :=
  match o with
  | None => L [A (-1)]
  | Some off => L (sx_of_cursor (o_begin off) ++ sx_of_cursor (o_end off) ++ sx_res (rr off))
  end.

Definition ok_sx (t : text) (b e : nat) (reports : list sx) : sx :=
  L [A 1; of_nat b; of_nat e; of_Ns (sub t b e); L reports].

(* model side of one level *)
Definition model_level (t : text) (parent : option (nat * nat)) (o : offset)
  : (res (nat * nat)) * sx * sx :=
  let len := length t in
  match parent with
  | None =>
      let r := resource_ts len o in
      let s1 := match r with
                | Ok (b, e) => ok_sx t b e (map (fun m => report_sx (Some (report_resource len (b, e) m)) (resource_ts len)) modes)
                | Err => L [A 0]
                end in
      let s2 := match r with Ok (b, e) => L [A 1; of_nat b; of_nat e; of_Ns (sub t b e)] | Err => L [A 0] end in
      (r, s1, s2)
  | Some p =>
      let r := selection_ts p o in
      let s1 := match r with
                | Ok (b, e) => ok_sx t b e (map (fun m => report_sx (relative_offset (b, e) p m) (findtext_sel_ts len p)) modes)
                | Err => L [A 0]
                end in
      let s2 := match findtext_sel_ts len p o with Ok (b, e) => L [A 1; of_nat b; of_nat e; of_Ns (sub t b e)] | Err => L [A 0] end in
      (r, s1, s2)
  end.

Definition spec_level (t : text) (parent : option (nat * nat)) (o : offset)
  : option (nat * nat) * sx * sx :=
  let r := match parent with None => spec_accept (length t) o | Some p => spec_accept_rel p o end in
  let plen := match parent with None => length t | Some p => snd p - fst p end in
  let pb := match parent with None => 0 | Some p => fst p end in
  match r with
  | Some (b, e) =>
      (r,
       ok_sx t b e (map (fun m => let off := spec_report plen (b - pb) (e - pb) m in
                                  L (sx_of_cursor (o_begin off) ++ sx_of_cursor (o_end off) ++ [of_nat b; of_nat e])) modes),
       L [A 1; of_nat b; of_nat e; of_Ns (sub t b e)])
  | None => (r, L [A 0], L [A 0])
  end.

Fixpoint run_levels (t : text) (mparent sparent : option (option (nat * nat))) (os : list offset) : list sx :=
  match os with
  | [] => []
  | o :: os' =>
      let '(mnext, m1, m2) :=
        match mparent with
        | None => (None, L [A 9], L [A 9])
        | Some mp => let '(r, s1, s2) := model_level t mp o in
                     (match r with Ok x => Some (Some x) | Err => None end, s1, s2)
        end in
      let '(snext, s1, s2) :=
        match sparent with
        | None => (None, L [A 9], L [A 9])
        | Some sp => let '(r, s1, s2) := spec_level t sp o in
                     (match r with Some x => Some (Some x) | None => None end, s1, s2)
        end in
      triple m1 s1 0 :: triple m2 s2 0 :: run_levels t mnext snext os'
  end.

(* request (7 len): relative_offset for every pair of ranges over a text of that length.
   Specification: embedded -> the well-formed offset in that mode, which re-resolves to the range;
   not embedded -> nothing is reported. *)
Definition ranges_upto (len : nat) : list (nat * nat) :=
  flat_map (fun b => map (fun e => (b, e)) (seq b (S len - b))) (seq 0 (S len)).

Definition pair_case (len : nat) (t c : nat * nat) : sx :=
  let model := L (map (fun m => report_sx (relative_offset t c m) (findtext_sel_ts len c)) modes) in
  let spec := L (map (fun m =>
                  if (fst c <=? fst t) && (snd t <=? snd c) then
                    let off := spec_report (snd c - fst c) (fst t - fst c) (snd t - fst c) m in
                    L (sx_of_cursor (o_begin off) ++ sx_of_cursor (o_end off) ++ [of_nat (fst t); of_nat (snd t)])
                  else L [A (-1)]) modes) in
  triple model spec 0.

Definition run_pairs (len : nat) : list sx :=
  flat_map (fun t => map (fun c => pair_case len t c) (ranges_upto len)) (ranges_upto len).

Definition run_C04 (x : sx) : sx :=
  match sx_nth 0 x with
  | A _ => L (run_pairs (sx_nat (sx_nth 1 x)))
  | L _ =>
      let t := map sx_N (sx_list (sx_nth 0 x)) in
      let os := map offset_of_sx (sx_list (sx_nth 1 x)) in
      L (run_levels t (Some None) (Some None) os)
  end.
