(* Correspondence entry point for C18.
   input: (ops mode table edits (json cbor) switches)
     ops    a store history as in Run/StoreRun.v, except that AddRes carries the text:
            (0 id len cp...) - the length used is the number of codepoints given.
            Tokens: dataset 78 = the text validation set, keys 90 checksum, 91 text, 92 delimiter.
     mode   0 checksum, 1 text, 2 both, 3 auto
     table  ((text) (digest)) pairs: the SHA-1 digests the library reported for the joined strings
            that occur in this case (the digest function of the model is this table)
     edits  (0 r (cp...))                same-length replacement of the text of resource r
            (1 r (cp...) 0)              replacement of another length: the library refused to load
            (1 r (cp...) 1 (ann...))     ... loaded; per live annotation the text selections it now
                                         has, ((restok b e)...) in the order of the library
            a history may contain (9 mode): protect_text in the middle
     json, cbor   1 = the store before the final protect_text could be written to STAM JSON / CBOR and
            read back (otherwise the round trip of the protected store is not demanded: C05, C11)
     switches     bit mask of the Config reverse-index switches turned OFF for this case (0 = default).
            The model has no such switches: they disable reverse lookups only, so every answer of
            protect_text / validate_text must be the one of the default configuration; the records
            with reverse lookups are compared only when all indices are on
   sub-cases:
     1  the table is a function and free of collisions (the hypothesis on the digest)
     per protect_text (those of the history, then the final one with [mode]):
        its outcome; the verdict per annotation slot afterwards (-2 empty, 2 missing, 1 valid,
        0 invalid) with the counters (valid invalid missing)
     one record per annotation slot and per dataset slot after the final protect (model: reverse
        indices, spec: scans)
     then the verdicts of the live annotations after a JSON and after a CBOR round trip,
     then per edit: the text selections of the live annotations as
     loaded (model: offsets as reported by offset_with_mode resolved against the new length; (0) =
     refused); the verdicts of the live annotations (or (0) when loading failed). *)
From Coq Require Import List ZArith NArith Bool Arith.
Import ListNotations.
From Stam Require Import Base.Sx Model.Offset Model.Utf8 Model.Store Model.StoreObs Spec.StoreSpec
     Run.StoreRun Model.Validate Spec.ValidateSpec.

Definition text_of_sx (x : sx) : text := map sx_N (sx_list x).

Definition op18_of_sx (x : sx) : op :=
  if Z.eqb (sx_Z (sx_nth 0 x)) 0
  then AddRes (sx_nat (sx_nth 1 x)) (length (skipn 3 (sx_list x)))
  else op_of_sx x.

(* the texts by resource handle: a new handle is created exactly when the id is not in use *)
Definition step18 (st : store * list text) (x : sx) : store * list text :=
  let '(s, txts) := st in
  let s' := fst (step s (op18_of_sx x)) in
  if Z.eqb (sx_Z (sx_nth 0 x)) 0 then
    match id_get (ridx s) (sx_nat (sx_nth 1 x)) with
    | Some _ => (s', txts)
    | None => (s', txts ++ [map sx_N (skipn 3 (sx_list x))])
    end
  else (s', txts).

(** the digest oracle of a case *)
Definition table := list (text * text).
Definition table_of_sx (x : sx) : table :=
  map (fun p => (text_of_sx (sx_nth 0 p), text_of_sx (sx_nth 1 p))) (sx_list x).
Definition H_of (tb : table) (t : text) : text :=
  match find (fun p => text_eqb (fst p) t) tb with
  | Some p => snd p
  | None => [0%N]
  end.
Definition table_ok (tb : table) : bool :=
  forallb (fun p => forallb (fun q => Bool.eqb (text_eqb (fst p) (fst q)) (text_eqb (snd p) (snd q))) tb) tb.

Definition sx_of_verdict (v : option bool) : sx :=
  match v with None => A 2 | Some true => A 1 | Some false => A 0 end.
Definition sx_of_slot (v : option (option bool)) : sx :=
  match v with None => dead | Some v => sx_of_verdict v end.

Definition count_verdict (l : list (option (option bool))) (v : option bool) : nat :=
  length (filter (fun x => match x, v with
                           | Some (Some a), Some b => Bool.eqb a b
                           | Some None, None => true
                           | _, _ => false
                           end) l).
Definition sx_of_verdicts (l : list (option (option bool))) : sx :=
  L [L (map sx_of_slot l);
     L [of_nat (count_verdict l (Some true)); of_nat (count_verdict l (Some false)); of_nat (count_verdict l None)]].

Definition live_only (l : list (option (option bool))) : list (option (option bool)) :=
  filter (fun x => match x with Some _ => true | None => false end) l.

Definition slots (s : store) : list nat := seq 0 (length (anns s)).

(* per slot of the protected store [s1]: what the property demands, given the store [s0] before *)
Definition demand_slot (H : text -> text) (s0 s1 : store) (h : nat) (dem : ann -> option bool) (ps : ann -> list text)
  : option (option bool) :=
  match get_ann s1 h with
  | None => None
  | Some a1 =>
      match get_ann s0 h with
      | Some a0 => if carries_info s0 a0 then Some (by_reference H s1 a1 (ps a1)) else Some (dem a1)
      | None => Some (by_reference H s1 a1 (ps a1))
      end
  end.

Definition set_nth {X} (l : list X) (i : nat) (v : X) : list X :=
  firstn i l ++ match skipn i l with [] => [] | _ :: r => v :: r end.

(* text selections as the library reports them: (resource token, begin, end) *)
Definition range_of_sx (s : store) (x : sx) : option (nat * (nat * nat)) :=
  match id_get (ridx s) (sx_nat (sx_nth 0 x)) with
  | Some r => Some (r, (sx_nat (sx_nth 1 x), sx_nat (sx_nth 2 x)))
  | None => None
  end.

Fixpoint zip_live (s : store) (hs : list nat) (obs : list sx) : list (nat * option sx) :=
  match hs with
  | [] => []
  | h :: hs' =>
      match get_ann s h with
      | None => (h, None) :: zip_live s hs' obs
      | Some _ => match obs with
                  | o :: obs' => (h, Some o) :: zip_live s hs' obs'
                  | [] => (h, Some (L [])) :: zip_live s hs' []
                  end
      end
  end.

(* the text selections every live annotation has after loading against [txts'], as the model of
   offset reporting and resolution predicts them; (0) = the loader refuses *)
Definition sx_of_reresolved (s : store) (txts' : list text) : sx :=
  match reresolve s (fun r => length (nth r txts' [])) with
  | None => L [A 0]
  | Some ll =>
      L (map (fun l => L (map (fun x => L [match get_res s (fst x) with Some rs => of_nat (r_id rs) | None => A (-1) end;
                                          of_nat (fst (snd x)); of_nat (snd (snd x))]) l)) ll)
  end.

Definition run_edit (H : text -> text) (txts : list text) (s0 s1 : store) (e : sx) : list sx :=
  let r := sx_nat (sx_nth 1 e) in
  let txts' := set_nth txts r (text_of_sx (sx_nth 2 e)) in
  [triple (sx_of_reresolved s1 txts') (sx_of_reresolved s1 txts') 0;
   if Z.eqb (sx_Z (sx_nth 0 e)) 0 then
    let m := live_only (validate_all H txts' s1) in
    let sp := live_only (map (fun h => demand_slot H s0 s1 h (demand_edited txts txts' s1) (ann_pieces txts' s1)) (slots s1)) in
    triple (sx_of_verdicts m) (sx_of_verdicts sp) 0
  else if Z.eqb (sx_Z (sx_nth 3 e)) 0 then triple (L [A 0]) (L [A 0]) 0
  else
    let z := zip_live s1 (slots s1) (sx_list (sx_nth 4 e)) in
    let newps (o : sx) : list text := map (piece txts') (omap (range_of_sx s1) (sx_list o)) in
    let m := omap (fun ho => match snd ho with
                             | None => None
                             | Some o => match get_ann s1 (fst ho) with
                                         | Some a => Some (Some (validate_on H s1 a (newps o)))
                                         | None => None
                                         end
                             end) z in
    let sp := omap (fun ho => match snd ho with
                              | None => None
                              | Some o => Some (demand_slot H s0 s1 (fst ho)
                                                  (fun a => demand_pieces (ann_pieces txts s1 a) (newps o))
                                                  (fun _ => newps o))
                              end) z in
    let known := existsb (fun ho => match snd ho, get_ann s1 (fst ho) with
                                    | Some o, Some a =>
                                        regrouped (odflt (ann_vstr s1 a KDEL)) (ann_pieces txts s1 a) (newps o)
                                    | _, _ => false
                                    end) z in
    triple (sx_of_verdicts m) (sx_of_verdicts sp) (if known then 1 else 0)].

(* protect_text on [s0]: the protected store, and the two sub-cases outcome / verdicts *)
Definition protect_case (H : text -> text) (txts : list text) (s0 : store) (mode : nat) : store * list sx :=
  let '(s1, o) := protect H txts s0 mode in
  let verdicts := validate_all H txts s1 in
  let demanded := map (fun h => demand_slot H s0 s1 h (demand_protected txts s1) (ann_pieces txts s1)) (slots s1) in
  (s1, [triple (sx_of_out o) (L [A 1; A 0]) 0;
        triple (sx_of_verdicts verdicts) (sx_of_verdicts demanded) 0]).

(* a history may protect in the middle: (9 mode) *)
Definition step_case (H : text -> text) (st : store * list text * list sx) (x : sx) : store * list text * list sx :=
  let '(s, txts, acc) := st in
  if Z.eqb (sx_Z (sx_nth 0 x)) 9 then
    let '(s1, tr) := protect_case H txts s (sx_nat (sx_nth 1 x)) in (s1, txts, acc ++ tr)
  else let '(s', txts') := step18 (s, txts) x in (s', txts', acc).

Definition run_C18 (x : sx) : sx :=
  let tb := table_of_sx (sx_nth 2 x) in
  let H := H_of tb in
  let '(s0, txts, acc) := fold_left (step_case H) (sx_list (sx_nth 0 x)) (empty_store, [], []) in
  let mode := sx_nat (sx_nth 1 x) in
  let '(s1, tr) := protect_case H txts s0 mode in
  let verdicts := validate_all H txts s1 in
  let demanded := map (fun h => demand_slot H s0 s1 h (demand_protected txts s1) (ann_pieces txts s1)) (slots s1) in
  L ([triple (of_bool (table_ok tb)) (A 1) 0]
     ++ acc ++ tr
     ++ (if Z.eqb (sx_Z (sx_nth 5 x)) 0
         then map (fun h => triple (obs_ann s1 true h) (obs_ann s1 false h) 0) (slots s1)
              ++ map (fun d => triple (obs_set s1 true d) (obs_set s1 false d) 0) (seq 0 (length (sets s1)))
         else [])
     ++ map (fun ok => if sx_bool ok
                       then triple (sx_of_verdicts (live_only verdicts)) (sx_of_verdicts (live_only demanded)) 0
                       else triple (L [A 0]) (L [A 0]) 0) [sx_nth 0 (sx_nth 4 x); sx_nth 1 (sx_nth 4 x)]
     ++ flat_map (run_edit H txts s0 s1) (sx_list (sx_nth 3 x))).
