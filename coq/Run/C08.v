(* Correspondence entry point for C08.
   Layer 1 (LimitIter, Handles):
     (0 bg en n)            limit(bg,en) over the items 0..n-1
     (1 A B k)              A.union(B); array and contains(x) for x < k
     (2 A B k)              A.intersection(B); array as a set and contains(x) for x < k
     (3 A k)                from_iter(A); contains / position for x < k
     (4 A)                  sort
   Layers 2/3 (queries over a store built by a history of Run/StoreRun.v):
     (5 history ((query chain) ...))   SELECT: per entry the rows through STAMQL text, through the
                                       Query/Constraint constructors and (chain = 1) through the
                                       iterator API
     (6 history add)                   ADD ANNOTATION ... { sub }: query_mut, then the direct calls
     (7 history x sub nosub)           DELETE ANNOTATION ?x { sub } (nosub = 1: without sub-query, an error)
   query  = (name rt (cst ...) lim opt sub)   rt 0 ANNOTATION 1 DATA 2 KEY 3 RESOURCE 4 DATASET 5 TEXT
            lim = () | (bg en)   sub = () | (query)
   cst    = (0 tok) ID | (1 ref meta) ANNOTATION | (2 ref meta) RESOURCE | (3 ref meta) DATASET
          | (4 set key meta) DATA set key | (5 set key op meta) DATA set key op value | (6 op) VALUE
          | (7 v meta) DATA ?v | (8 v meta) KEY ?v | (9 v) TEXT ?v | (10 v kw) RELATION ?v KW
          | (11 (cp ...) nocase) TEXT "..." | (12 cst ...) union
   ref    = (0 tok) | (1 v);   op as in harness/src/c10.rs dop
   add    = (id|-1 ((set key value) ...) target sub off)   off = () | (cursor cursor), cursor = (0 n) | (1 z)
   rows are lists of items (tag h1 h2 h3), flattened; without LIMIT they are compared sorted *)
From Coq Require Import List ZArith NArith Bool Arith.
Import ListNotations.
From Stam Require Import Base.Sx Model.Limit Model.Handles Spec.HandlesSpec.
From Stam Require Import Model.Offset Model.Store Model.DataValue Model.QuerySem Spec.QuerySpec Run.StoreRun.

Definition nats_of (x : sx) : list nat := map sx_nat (sx_list x).

Definition obs_h (h : handles) (canon : bool) (k : nat) : sx :=
  L [of_nats (if canon then sort (arr h) else arr h);
     L (map (fun x => of_bool (contains h x)) (seq 0 k))].

(** decoding of queries *)

Fixpoint dop_of_sx (x : sx) : dop :=
  match x with
  | A _ => OpAny
  | L l =>
      match l with
      | A tag :: rest =>
          let z := sx_Z (nth 0 rest (A 0)) in
          match tag with
          | 0%Z => OpNull | 1%Z => OpAny | 2%Z => OpTrue | 3%Z => OpFalse
          | 4%Z => OpEquals (map sx_N rest)
          | 5%Z => OpEqInt z | 6%Z => OpGt z | 7%Z => OpGe z | 8%Z => OpLt z | 9%Z => OpLe z
          | 10%Z => OpEqFix z | 11%Z => OpGtFix z | 12%Z => OpGeFix z | 13%Z => OpLtFix z | 14%Z => OpLeFix z
          | 15%Z => OpHas (map sx_N rest) | 16%Z => OpHasInt z | 17%Z => OpHasFix z
          | 18%Z => OpNot (match rest with o :: _ => dop_of_sx o | [] => OpAny end)
          | 19%Z => OpAnd (map dop_of_sx rest)
          | _ => OpOr (map dop_of_sx rest)
          end
      | _ => OpAny
      end
  end.

Definition vref_of_sx (x : sx) : vref :=
  if Z.eqb (sx_Z (sx_nth 0 x)) 0 then RId (sx_nat (sx_nth 1 x)) else RVar (sx_nat (sx_nth 1 x)).

Definition kw_of_nat (n : nat) : relkw :=
  match n with
  | 0 => KwEquals | 1 => KwEmbeds | 2 => KwEmbedded | 3 => KwOverlaps | 4 => KwPrecedes
  | 5 => KwSucceeds | 6 => KwSameBegin | 7 => KwSameEnd | 8 => KwBefore | _ => KwAfter
  end.

Fixpoint cst_of_sx (x : sx) : cst :=
  match x with
  | A _ => CVal OpAny
  | L l =>
      match l with
      | A tag :: rest =>
          let n i := nth i rest (A 0) in
          match tag with
          | 0%Z => CId (sx_nat (n 0))
          | 1%Z => CAnn (vref_of_sx (n 0)) (sx_bool (n 1))
          | 2%Z => CRes (vref_of_sx (n 0)) (sx_bool (n 1))
          | 3%Z => CSet (vref_of_sx (n 0)) (sx_bool (n 1))
          | 4%Z => CKey (sx_nat (n 0)) (sx_nat (n 1)) (sx_bool (n 2))
          | 5%Z => CKeyVal (sx_nat (n 0)) (sx_nat (n 1)) (dop_of_sx (n 2)) (sx_bool (n 3))
          | 6%Z => CVal (dop_of_sx (n 0))
          | 7%Z => CDataVar (sx_nat (n 0)) (sx_bool (n 1))
          | 8%Z => CKeyVar (sx_nat (n 0)) (sx_bool (n 1))
          | 9%Z => CTextVar (sx_nat (n 0))
          | 10%Z => CRel (sx_nat (n 0)) (kw_of_nat (sx_nat (n 1)))
          | 11%Z => CText (map sx_N (sx_list (n 0))) (sx_bool (n 1))
          | _ => CUnion (map cst_of_sx rest)
          end
      | _ => CVal OpAny
      end
  end.

Definition rt_of_nat (n : nat) : rtype :=
  match n with 0 => TAnn | 1 => TData | 2 => TKey | 3 => TRes | 4 => TSet | _ => TText end.

Definition lim_of_sx (x : sx) : option (Z * Z) :=
  match sx_list x with
  | [b; e] => Some (sx_Z b, sx_Z e)
  | _ => None
  end.

(* sub-queries nest at most [fuel] deep *)
Fixpoint query_of_sx (fuel : nat) (x : sx) : query :=
  Q (sx_nat (sx_nth 0 x)) (rt_of_nat (sx_nat (sx_nth 1 x))) (map cst_of_sx (sx_list (sx_nth 2 x)))
    (lim_of_sx (sx_nth 3 x)) (sx_bool (sx_nth 4 x))
    (match fuel with
     | 0 => None
     | S f => match sx_list (sx_nth 5 x) with
              | [sq] => Some (query_of_sx f sq)
              | _ => None
              end
     end).

(** printing of rows *)

Definition item_nats (it : item) : list nat :=
  match it with
  | IAnn a => [0; a; 0; 0]
  | IData d x => [1; d; x; 0]
  | IKey d k => [2; d; k; 0]
  | IRes r => [3; r; 0; 0]
  | ISet d => [4; d; 0; 0]
  | IText r b e => [5; r; b; e]
  end.
Definition row_nats (row : list item) : list nat := flat_map item_nats row.

Fixpoint has_limit (q : query) : bool :=
  match q with
  | Q _ _ _ lim _ sub =>
      match lim with Some _ => true | None => match sub with Some sq => has_limit sq | None => false end end
  end.

(* the order of the rows is part of the observation only when a LIMIT makes it matter *)
Definition rows_sx (ordered : bool) (rows : list (list item)) : sx :=
  let l := map row_nats rows in
  L (map of_nats (if ordered then l else sort_leaves l)).

Definition orows_sx (ordered : bool) (o : option (list (list item))) : sx :=
  match o with Some rows => rows_sx ordered rows | None => L [A (-1)] end.

Definition state_sx (s : store) (model : bool) : sx :=
  L (map (fun t => sx_nth (if model then 0 else 1) t) (obs_state s)).

Definition addq_of_sx (x : sx) : addq :=
  mkadd (sx_onat (sx_nth 0 x))
        (map (fun d => (sx_nat (sx_nth 0 d), sx_nat (sx_nth 1 d), value_of_sx (sx_nth 2 d))) (sx_list (sx_nth 1 x)))
        (sx_nat (sx_nth 2 x))
        (query_of_sx 3 (sx_nth 3 x))
        (match sx_list (sx_nth 4 x) with
         | [cb; ce] => Some (mkoff (cursor_of_sx cb) (cursor_of_sx ce))
         | _ => None
         end).

Definition item_of_sx (x : sx) : option item :=
  match map sx_nat (sx_list x) with
  | [0; a; _; _] => Some (IAnn a)
  | [1; d; y; _] => Some (IData d y)
  | [2; d; k; _] => Some (IKey d k)
  | [3; r; _; _] => Some (IRes r)
  | [4; d; _; _] => Some (ISet d)
  | _ => None
  end.

Definition out_code (o : out) : sx :=
  match o with OOk _ => A 1 | OErr => A 0 | OPanic => A (-1) end.

Definition run_C08 (x : sx) : sx :=
  match sx_nat (sx_nth 0 x) with
  | 0 =>
      let bg := sx_Z (sx_nth 1 x) in
      let en := sx_Z (sx_nth 2 x) in
      let l := seq 0 (sx_nat (sx_nth 3 x)) in
      L [triple (of_nats (limit bg en l)) (of_nats (slice_spec bg en l)) 0]
  | 1 =>
      let A := nats_of (sx_nth 1 x) in
      let B := nats_of (sx_nth 2 x) in
      let k := sx_nat (sx_nth 3 x) in
      let u := spec_union_list A B in
      L [triple (obs_h (union (from_iter A) (from_iter B)) false k)
                (L [of_nats (if nondecr A then sort u else u);
                    L (map (fun y => of_bool (mem y A || mem y B)) (seq 0 k))]) 0]
  | 2 =>
      let A := nats_of (sx_nth 1 x) in
      let B := nats_of (sx_nth 2 x) in
      let k := sx_nat (sx_nth 3 x) in
      L [triple (obs_h (intersection (from_iter A) (from_iter B)) true k)
                (L [of_nats (sort (spec_inter_list A B));
                    L (map (fun y => of_bool (mem y A && mem y B)) (seq 0 k))]) 0]
  | 3 =>
      let A := nats_of (sx_nth 1 x) in
      let k := sx_nat (sx_nth 2 x) in
      L [triple (obs_h (from_iter A) false k)
                (L [of_nats A; L (map (fun y => of_bool (mem y A)) (seq 0 k))]) 0]
  | 4 =>
      let A := nats_of (sx_nth 1 x) in
      L [triple (of_nats (arr (sort_h (from_iter A)))) (of_nats (sort A)) 0]
  | 5 =>
      let s := run (map op_of_sx (sx_list (sx_nth 1 x))) in
      L (flat_map (fun qe =>
                     let q := query_of_sx 3 (sx_nth 0 qe) in
                     let ord := false in
                     let spec := rows_sx ord (sem s [] q) in
                     let k := known_class s q in
                     let t := triple (orows_sx ord (eval_text s q)) spec k in
                     let p := triple (orows_sx ord (eval_prog s q)) spec k in
                     let c := triple (rows_sx ord (eval_chain s q)) spec (known_chain s q) in
                     t :: p :: (if sx_bool (sx_nth 1 qe) then [c] else []))
                  (sx_list (sx_nth 2 x)))
  | 6 =>
      let s := run (map op_of_sx (sx_list (sx_nth 1 x))) in
      let a := addq_of_sx (sx_nth 2 x) in
      let k := match known_class s (add_sub a) with
               | 0 => if any_noncanon (add_sub a) then 5 else 0
               | k => k
               end in
      let '(s2, o2) := spec_add s a in
      let spec := L [out_code o2; state_sx s2 false] in
      (* query_mut, then the same store changed by the direct calls on the rows of the sub-query *)
      match eval_text s (add_sub a) with
      | None => L [triple (L [A (-1)]) spec k; triple (L [A (-1)]) spec k]
      | Some rows =>
          let '(s1, o) := exec_add s a rows in
          let m := L [out_code o; state_sx s1 true] in
          L [triple m spec k; triple m spec k]
      end
  | 8 =>
      (* a collection kept from the query, one item removed by the direct call, the collection used again
         (Handles::items, as constraint of a query, as argument of filter_any) *)
      let s := run (map op_of_sx (sx_list (sx_nth 1 x))) in
      let q := query_of_sx 3 (sx_nth 2 x) in
      let victim := item_of_sx (sx_nth 3 x) in
      let k := known_class s q in
      let out l := rows_sx false (map (fun it => [it]) l) in
      let spec := out (coll_after s (sem s [] q) victim) in
      let m := match eval_prog s q with
               | Some rows => out (coll_after s rows victim)
               | None => L [A (-1)]
               end in
      L [triple m spec k; triple m spec k; triple m spec k]
  | _ =>
      let s := run (map op_of_sx (sx_list (sx_nth 1 x))) in
      let v := sx_nat (sx_nth 2 x) in
      let sub := query_of_sx 3 (sx_nth 3 x) in
      let nosub := sx_bool (sx_nth 4 x) in
      if nosub then
        (* DELETE without sub-query: a QuerySyntaxError, the store stays as it is *)
        L [triple (L [A 0; state_sx s true]) (L [A 0; state_sx s false]) 0]
      else
        let k := known_class s sub in
        let '(s2, o2) := spec_delete s v sub in
        let spec := L [out_code o2; state_sx s2 false] in
        match eval_text s sub with
        | None => L [triple (L [A (-1)]) spec k; triple (L [A (-1)]) spec k]
        | Some rows =>
            let '(s1, o1) := exec_delete s v sub rows in
            let m := L [out_code o1; state_sx s1 true] in
            L [triple m spec k; triple m spec k]
        end
  end.
