(* Correspondence entry point for C08, layer 1 (LimitIter, Handles).
   requests: (0 bg en n)            limit(bg,en) over the items 0..n-1
             (1 A B k)              A.union(B); array and contains(x) for x < k
             (2 A B k)              A.intersection(B); array as a set and contains(x) for x < k
             (3 A k)                from_iter(A); contains / position for x < k
             (4 A)                  sort *)
From Coq Require Import List ZArith Bool Arith.
Import ListNotations.
From Stam Require Import Base.Sx Model.Limit Model.Handles Spec.HandlesSpec.

Definition nats_of (x : sx) : list nat := map sx_nat (sx_list x).

Definition obs_h (h : handles) (canon : bool) (k : nat) : sx :=
  L [of_nats (if canon then sort (arr h) else arr h);
     L (map (fun x => of_bool (contains h x)) (seq 0 k))].

Definition run_C08 (x : sx) : sx :=
  match sx_nat (sx_nth 0 x) with
  | 0 =>
      let bg := sx_Z (sx_nth 1 x) in
      let en := sx_Z (sx_nth 2 x) in
      let l := seq 0 (sx_nat (sx_nth 3 x)) in
      L [triple (of_nats (limit bg en l)) (of_nats (slice_spec bg en l)) 0]
  | 1 =>
      let A := nats_of (sx_nth 1 x) in
      let B := nats_of (sx_nth 2 x) in
      let k := sx_nat (sx_nth 3 x) in
      let u := spec_union_list A B in
      L [triple (obs_h (union (from_iter A) (from_iter B)) false k)
                (L [of_nats (if nondecr A then sort u else u);
                    L (map (fun y => of_bool (mem y A || mem y B)) (seq 0 k))]) 0]
  | 2 =>
      let A := nats_of (sx_nth 1 x) in
      let B := nats_of (sx_nth 2 x) in
      let k := sx_nat (sx_nth 3 x) in
      L [triple (obs_h (intersection (from_iter A) (from_iter B)) true k)
                (L [of_nats (sort (spec_inter_list A B));
                    L (map (fun y => of_bool (mem y A && mem y B)) (seq 0 k))]) 0]
  | 3 =>
      let A := nats_of (sx_nth 1 x) in
      let k := sx_nat (sx_nth 2 x) in
      L [triple (obs_h (from_iter A) false k)
                (L [of_nats A; L (map (fun y => of_bool (mem y A)) (seq 0 k))]) 0]
  | _ =>
      let A := nats_of (sx_nth 1 x) in
      L [triple (of_nats (arr (sort_h (from_iter A)))) (of_nats (sort A)) 0]
  end.
