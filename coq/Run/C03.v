(* Correspondence entry point for C03.
   input: (ops tail strings variant) - variant 1 = store configured with strip_temp_ids(false); the history, then tail = 0 nothing | 1 strip_annotation_ids
          | 2 strip_data_ids | 3 reindex, then every string is looked up as annotation,
          resource, dataset and, in every dataset, as key and as data.
   output: one sub-case per string: the handles found (model: temporary id / id map;
           spec: scan of the live items). *)
From Coq Require Import List ZArith NArith Bool Arith.
Import ListNotations.
From Stam Require Import Base.Sx Model.Offset Model.Store Model.TempId Model.Reindex
     Spec.StoreSpec Spec.IdSpec Run.StoreRun.

Definition of_opt (o : option nat) : sx := match o with Some h => of_nats [h] | None => of_nats [] end.

Definition lookups_plain (s : store) (model : bool) (str : list N) : sx :=
  L [ (if model then of_opt (lookup_str_plain KAnn (anns s) (aidx s) str) else of_nats (spec_lookup_plain KAnn (anns s) a_id str));
      (if model then of_opt (lookup_str_plain KRes (ress s) (ridx s) str) else of_nats (spec_lookup_plain KRes (ress s) (fun r => Some (r_id r)) str));
      (if model then of_opt (lookup_str_plain KSet (sets s) (sidx s) str) else of_nats (spec_lookup_plain KSet (sets s) (fun d => Some (d_id d)) str));
      L (map (fun d => match get_set s d with
                       | None => dead
                       | Some ds =>
                           L [ (if model then of_opt (lookup_str_plain KKey (d_keys ds) (d_kidx ds) str)
                                else of_nats (spec_lookup_plain KKey (d_keys ds) (fun t => Some t) str));
                               (if model then of_opt (lookup_str_plain KData (d_data ds) (d_xidx ds) str)
                                else of_nats (spec_lookup_plain KData (d_data ds) x_id str)) ]
                       end) (seq 0 (length (sets s)))) ].

Definition lookups (s : store) (model : bool) (str : list N) : sx :=
  L [ (if model then of_opt (lookup_str KAnn (anns s) (aidx s) str) else of_nats (spec_lookup_str KAnn (anns s) a_id str));
      (if model then of_opt (lookup_str KRes (ress s) (ridx s) str) else of_nats (spec_lookup_str KRes (ress s) (fun r => Some (r_id r)) str));
      (if model then of_opt (lookup_str KSet (sets s) (sidx s) str) else of_nats (spec_lookup_str KSet (sets s) (fun d => Some (d_id d)) str));
      L (map (fun d => match get_set s d with
                       | None => dead
                       | Some ds =>
                           L [ (if model then of_opt (lookup_str KKey (d_keys ds) (d_kidx ds) str)
                                else of_nats (spec_lookup_str KKey (d_keys ds) (fun t => Some t) str));
                               (if model then of_opt (lookup_str KData (d_data ds) (d_xidx ds) str)
                                else of_nats (spec_lookup_str KData (d_data ds) x_id str)) ]
                       end) (seq 0 (length (sets s)))) ].

Definition run_C03 (x : sx) : sx :=
  let s0 := run (map op_of_sx (sx_list (sx_nth 0 x))) in
  let s := match sx_nat (sx_nth 1 x) with
           | 0 => s0
           | 1 => strip_annotation_ids s0
           | 2 => strip_data_ids s0
           | _ => reindex_ids s0
           end in
  L (map (fun str => let cs := map sx_N (sx_list str) in
                     if Nat.eqb (sx_nat (sx_nth 3 x)) 1
                     then triple (lookups_plain s true cs) (lookups_plain s false cs) 0
                     else triple (lookups s true cs) (lookups s false cs) 0)
         (sx_list (sx_nth 2 x))).
