(* Correspondence entry point for C09 (STAMQL parser and printers).
   requests (as completed by the harness with the oracle tables):
     (0 text dts res)    Query::parse(text), TryFrom<&str>, to_string, parse(to_string)
     (1 query dts res)   a query built through the public API: to_string, parse(to_string)
     (4 query dts res)   the same as 1, constraints attached through constrain()
     (5 text dts res constraints)  Query::parse(text) extended with constrain(c) for each constraint
     (3 kind qual depth items)  SELECT ANNOTATION ?x with one collection constraint (Annotations 0,
                         Data 1, Keys 2, Resources 3, TextSelections 4) over the harness's fixed store;
                         items = what the store says about each handle, () = no such item:
                         (id) | (set key op) | (set key) | (id) | (res b e)
   dts = ((string canonical) ...)  strings chrono accepts as RFC 3339 and their to_rfc3339() form
   res = ((string ok) ...)         strings handed to Regex::new and whether it accepts them
   sub-cases: 0 parse outcome (or the built query), 1 printed text, 2 parse and print of the printed text *)
From Coq Require Import List ZArith NArith Bool Arith.
Import ListNotations.
From Stam Require Import Base.Sx Model.StamqlLex Model.Stamql Model.StamqlSx Model.StamqlColl Spec.StamqlSpec.

Fixpoint lookup_str {X} (tab : list (str * X)) (s : str) : option X :=
  match tab with
  | [] => None
  | (k, v) :: tab' => if str_eqb k s then Some v else lookup_str tab' s
  end.

Definition d_dts (x : sx) : list (str * str) :=
  map (fun p => (d_str (sx_nth 0 p), d_str (sx_nth 1 p))) (sx_list x).
Definition d_res (x : sx) : list (str * bool) :=
  map (fun p => (d_str (sx_nth 0 p), sx_bool (sx_nth 1 p))) (sx_list x).

Definition mk_dt (tab : list (str * str)) (s : str) : option str := lookup_str tab s.
Definition mk_re (tab : list (str * bool)) (s : str) : bool :=
  match lookup_str tab s with Some b => b | None => false end.

Definition e_print (o : option str) : sx :=
  match o with Some t => L [A 0; e_str t] | None => L [A 1] end.

Definition e_parse (o : outcome (query * str)) : sx :=
  match o with
  | Ok (q, rem) => L [A 0; e_query q; e_str rem; of_bool (is_empty (trim rem))]
  | Err => L [A 1]
  | Panic => L [A (-1)]
  | Fuel => L [A (-3)]
  end.

Definition e_reparse (o : outcome (query * str)) : sx :=
  match o with
  | Ok (q, rem) => L [A 0; e_query q; e_str rem; e_print (print_query q)]
  | Err => L [A 1]
  | Panic => L [A (-1)]
  | Fuel => L [A (-3)]
  end.

Definition na : sx := L [A 2].

(* nesting depth from which the recursive descent is known to exhaust the 8 MiB main-thread stack *)
Definition Known_C09_deep_threshold : Z := 10000.

Section Run.
  Variable dt : str -> option str.
  Variable re : str -> bool.

  (* sub-cases 1 and 2 for a query *)
  Definition print_and_back (q : query) : list sx :=
    match print_query q with
    | Some t =>
        [triple (e_print (Some t)) (e_print (Some t)) 0;
         triple (e_reparse (parse_query dt re t))
                (L [A 0; e_query q; e_str []; e_print (Some t)])
                (known_class dt q)]
    | None => [triple (e_print None) (e_print None) 0; triple na na 0]
    end.

  Definition run_text (s : str) : list sx :=
    let o := parse_query dt re s in
    triple (e_parse o) (e_parse (spec_outcome o)) (match o with Panic => 20 | Fuel => 21 | _ => 0 end)
    :: match o with
       | Ok (q, _) => print_and_back q
       | _ => [triple na na 0; triple na na 0]
       end.

  Definition run_built (q : query) : list sx :=
    triple (e_query q) (e_query q) 0 :: print_and_back q.

  (* constrain(): the constraint and an empty attribute list are appended *)
  Definition q_constrain (q : query) (extra : list constr) : query :=
    match q with
    | Q name qt optional rt asg cs cas subs attrs =>
        Q name qt optional rt asg (cs ++ extra) (cas ++ map (fun _ => []) extra) subs attrs
    end.

  Definition run_extended (s : str) (extra : list constr) : list sx :=
    match parse_query dt re s with
    | Ok (q, _) =>
        let q' := q_constrain q extra in
        triple (L [A 0; e_query q']) (L [A 0; e_query q']) 0 :: print_and_back q'
    | Err => [triple (L [A 1]) (L [A 1]) 0; triple na na 0; triple na na 0]
    | Panic => [triple (L [A (-1)]) (L [A 1]) 20; triple na na 0; triple na na 0]
    | Fuel => [triple (L [A (-3)]) (L [A 1]) 21; triple na na 0; triple na na 0]
    end.
End Run.

(* collection constraints *)
Definition d_citem (kind : nat) (x : sx) : option citem :=
  match sx_list x with
  | [] => None
  | _ =>
      Some (match kind with
            | 0 => IAnn (d_str (sx_nth 0 x))
            | 1 => IData (d_str (sx_nth 0 x)) (d_str (sx_nth 1 x)) (d_dataop (sx_nth 2 x))
            | 2 => IKey (d_str (sx_nth 0 x)) (d_str (sx_nth 1 x))
            | 3 => IRes (d_str (sx_nth 0 x))
            | _ => ITsel (d_str (sx_nth 0 x)) (d_big (sx_nth 1 x)) (d_big (sx_nth 2 x))
            end)
  end.

Fixpoint all_some {X} (l : list (option X)) : option (list X) :=
  match l with
  | [] => Some []
  | Some x :: l' => match all_some l' with Some r => Some (x :: r) | None => None end
  | None :: _ => None
  end.

Definition coll_name : str := [120%N].

Definition run_coll (x : sx) : list sx :=
  let kind := sx_nat (sx_nth 1 x) in
  let q := d_qual (sx_nth 2 x) in
  let d := d_depth (sx_nth 3 x) in
  match all_some (map (d_citem kind) (sx_list (sx_nth 4 x))) with
  | None => [triple (e_print None) (e_print None) 0; triple na na 0]
  | Some items =>
      match print_coll_query coll_name RAnnotation q d items with
      | None => [triple (e_print None) (e_print None) 0; triple na na 0]
      | Some t =>
          let expected := coll_query coll_name RAnnotation q d items in
          [triple (e_print (Some t)) (e_print (Some t)) 0;
           (* parsing the printed collection gives the union of the items' constraints *)
           triple (e_reparse (parse_query (fun _ => None) (fun _ => true) t))
                  (L [A 0; e_query expected; e_str []; e_print (print_query expected)]) 0]
      end
  end.

Definition run_C09 (x : sx) : sx :=
  let dt := mk_dt (d_dts (sx_nth 2 x)) in
  let re := mk_re (d_res (sx_nth 3 x)) in
  match sx_nat (sx_nth 0 x) with
  | 0 => L (run_text dt re (d_str (sx_nth 1 x)))
  | 1 => L (run_built dt re (d_query 40 (sx_nth 1 x)))
  | 3 => L (run_coll x)
  | 4 => L (run_built dt re (d_query 40 (sx_nth 1 x)))
  | 5 => L (run_extended dt re (d_str (sx_nth 1 x)) (map (d_constr 40) (sx_list (sx_nth 4 x))))
  | _ =>
      (* (2 n mode): n nested "[ " (mode 0) or "{ SELECT ..." (mode 1), never closed: a syntax error
         is demanded.  Constraint::parse / parse_select recurse once per nesting level without a bound;
         the model has no stack, the class says where the implementation runs out of it. *)
      let deep := (Known_C09_deep_threshold <=? sx_Z (sx_nth 1 x))%Z in
      L [triple (if deep then L [A (-2)] else L [A 1]) (L [A 1]) (if deep then 10 else 0)]
  end.
