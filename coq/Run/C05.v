(* Correspondence entry point for C05.
   request = (0 ops (rmode smode))      a history in the encoding of Run/StoreRun.v, plus (9) = save now (the
                                       store is written, flagged stand-off files are flushed); the final store is
                                       viewed as a document store: identifiers "r3" "s1" "a0" "k2" "d5",
                                       texts as harness/src/storegen.rs text_of_len; rmode / smode say
                                       which resources / datasets are kept in stand-off files
           | (1 literal)               a store given directly:
                                       (id|-1 (res...) (set...) (ann...)), -1 = a removed slot
                                       res = (id text file|-1)   set = (id file|-1 (key|-1 ...) (data|-1 ...))
                                       data = (id|-1 keyhandle value)   ann = (id|-1 ((d x)...) kind (leaf...))
                                       leaf = (0 r b e m) | (1 a) | (2 a r b e m) | (3 r) | (4 d) | (5 d k) | (6 d x)
                                       value = (0) | (1 b) | (2 z) | (3 z) | (4 cp...) | (5 value...) | (6 cp...)
   Sub-cases (model, spec, class):
     0  the store is in the class the theorem covers                       (spec: yes)
     1  canonical observation of the original store
     2  the main document as a JSON tree (pretty output)                    3  (compact output)
     4  the stand-off files
     5  canonical observation of the reloaded store                        (spec: that of the original)
     6  slot layout of the reloaded store (which handles are in use)
     7  flags: extended observation equal, second write identical (pretty, compact, files)  (spec: all 1) *)
From Coq Require Import String Ascii.
From Coq Require Import List ZArith NArith Bool Arith.
Import ListNotations.
From Stam Require Import Base.Sx Model.Offset Model.Store Run.StoreRun Model.Json Model.TempId
     Model.StamJson Model.StamJsonView Spec.StamJsonSpec.

(** * sx helpers *)
Definition sx_str (s : str) : sx := L (map of_N s).
Definition str_of_sx (x : sx) : str := map sx_N (sx_list x).
Definition ostr_of_sx (x : sx) : option str := match x with A _ => None | L _ => Some (str_of_sx x) end.
Definition sx_ostr (o : option str) : sx := match o with Some s => sx_str s | None => A (-1) end.

Fixpoint sx_cmp (x y : sx) {struct x} : comparison :=
  match x, y with
  | A a, A b => Z.compare a b
  | A _, L _ => Lt
  | L _, A _ => Gt
  | L l, L m =>
      (fix go (l m : list sx) {struct l} : comparison :=
         match l, m with
         | [], [] => Eq
         | [], _ => Lt
         | _, [] => Gt
         | a :: l', b :: m' => match sx_cmp a b with Eq => go l' m' | c => c end
         end) l m
  end.
Definition sx_le (x y : sx) : bool := match sx_cmp x y with Gt => false | _ => true end.
Fixpoint sx_ins (x : sx) (l : list sx) : list sx :=
  match l with
  | [] => [x]
  | y :: l' => if sx_le x y then x :: l else y :: sx_ins x l'
  end.
Definition sx_sort (l : list sx) : list sx := fold_right sx_ins [] l.

(** * JSON trees as sx *)
Fixpoint sx_of_json (j : json) : sx :=
  match j with
  | JNull => L [A 0]
  | JBool b => L [A 1; of_bool b]
  | JNum l => L (A 2 :: map of_N l)
  | JStr s => L (A 3 :: map of_N s)
  | JArr l => L (A 4 :: map sx_of_json l)
  | JObj m => L (A 5 :: map (fun kv => L [sx_str (fst kv); sx_of_json (snd kv)]) m)
  end.

(* the order of the sub-selectors of a MultiSelector / CompositeSelector carries no meaning (the
   library keeps them in textual order): compared as sorted lists *)
Definition is_unordered_sel (m : list (str * json)) : bool :=
  match member K_type m with
  | Some (JStr t) => str_eqb t T_MultiSelector || str_eqb t T_CompositeSelector
  | _ => false
  end.
Definition sxj_sort_selectors (x : sx) : sx :=
  (* x is the sx of an object: sort the value of its "selectors" member *)
  match x with
  | L (tag :: ms) =>
      L (tag :: map (fun kv =>
                       match kv with
                       | L [k; L (A 4%Z :: items)] =>
                           if sx_eqb k (sx_str K_selectors) then L [k; L (A 4%Z :: sx_sort items)] else kv
                       | _ => kv
                       end) ms)
  | _ => x
  end.
Fixpoint nsx_of_json (j : json) : sx :=
  match j with
  | JArr l => L (A 4 :: map nsx_of_json l)
  | JObj m =>
      let x := L (A 5 :: map (fun kv => L [sx_str (fst kv); nsx_of_json (snd kv)]) m) in
      if is_unordered_sel m then sxj_sort_selectors x else x
  | _ => sx_of_json j
  end.

(** * observations *)
Fixpoint sx_of_jval (v : jval) : sx :=
  match v with
  | XNull => L [A 0]
  | XBool b => L [A 1; of_bool b]
  | XInt z => L [A 2; A z]
  | XFix z => L [A 3; A z]
  | XStr s => L (A 4 :: map of_N s)
  | XList l => L (A 5 :: map sx_of_jval l)
  | XDate s => L (A 6 :: map of_N s)
  end.
Fixpoint jval_of_sx (x : sx) : jval :=
  match x with
  | A _ => XNull
  | L l =>
      match l with
      | A tag :: rest =>
          match tag with
          | 0%Z => XNull
          | 1%Z => XBool (sx_bool (nth 0 rest (A 0)))
          | 2%Z => XInt (sx_Z (nth 0 rest (A 0)))
          | 3%Z => XFix (sx_Z (nth 0 rest (A 0)))
          | 4%Z => XStr (map sx_N rest)
          | 5%Z => XList (map jval_of_sx rest)
          | _ => XDate (map sx_N rest)
          end
      | _ => XNull
      end
  end.

Definition sx_cursor (c : cursor) : sx :=
  match c with CB n => L [A 0; of_nat n] | CE z => L [A 1; A z] end.
Definition sx_offset (o : offset) : sx := L [sx_cursor (o_begin o); sx_cursor (o_end o)].
Definition sx_abs (o : option (str * nat * nat)) : sx :=
  match o with Some (r, b, e) => L [sx_str r; of_nat b; of_nat e] | None => A (-1) end.
Definition sx_cleaf (l : cleaf) : sx :=
  match cl_sel l with
  | BText r o => L [A 0; sx_str r; sx_offset o; sx_abs (cl_abs l)]
  | BAnn a None => L [A 1; sx_str a; A (-1); sx_abs (cl_abs l)]
  | BAnn a (Some o) => L [A 1; sx_str a; sx_offset o; sx_abs (cl_abs l)]
  | BRes r => L [A 3; sx_str r]
  | BSet d => L [A 4; sx_str d]
  | BKey d k => L [A 5; sx_str d; sx_str k]
  | BData d x => L [A 6; sx_str d; sx_str x]
  end.
Definition sx_cann (a : cann) : sx :=
  let ls := map sx_cleaf (ca_leaves a) in
  L [sx_str (ca_name a);
     L (map (fun p => L [sx_str (fst p); sx_str (snd p)]) (ca_data a));
     of_nat (ca_kind a);
     L (if Nat.eqb (ca_kind a) 1 || Nat.eqb (ca_kind a) 2 then sx_sort ls else ls)].
Definition sx_cset (d : cset) : sx :=
  L [sx_str (cs_id d); sx_ostr (cs_file d); L (map sx_str (cs_keys d));
     L (map (fun x => L [sx_str (cx_name x); sx_str (cx_key x); sx_of_jval (cx_val x)]) (cs_data d))].
Definition sx_cres (r : cres) : sx := L [sx_str (cr_id r); sx_str (cr_text r); sx_ostr (cr_file r)].
Definition sx_cstore (c : cstore) : sx :=
  L [sx_ostr (c_id c); L (map sx_cres (c_ress c)); L (map sx_cset (c_sets c)); L (map sx_cann (c_anns c))].

Definition sx_fcontent (c : fcontent) : sx :=
  match c with FText t => L (A 0 :: map of_N t) | FJson j => L [A 1; nsx_of_json j] end.
Definition sx_files (fs : files) : sx :=
  L (sx_sort (map (fun p => L [sx_str (fst p); sx_fcontent (snd p)]) fs)).

Definition live_flags {X} (l : list (option X)) : sx :=
  L (map (fun o => match o with Some _ => A 1 | None => A 0 end) l).
Definition sx_layout (s : dstore) : sx :=
  L [of_nat (length (st_ress s)); of_nat (length (st_sets s)); live_flags (st_anns s);
     L (map (fun p => L [of_nat (length (js_keys (snd p))); live_flags (js_data (snd p))]) (live (st_sets s)))].

(** * literal stores *)
Definition dleaf_of_sx (x : sx) : dleaf :=
  let n i := sx_nat (sx_nth i x) in
  match sx_Z (sx_nth 0 x) with
  | 0%Z => DText (n 1) (n 2) (n 3) (omode_of_nat (n 4))
  | 1%Z => DAnn (n 1)
  | 2%Z => DAnnText (n 1) (n 2) (n 3) (n 4) (omode_of_nat (n 5))
  | 3%Z => DRes (n 1)
  | 4%Z => DSet (n 1)
  | 5%Z => DKey (n 1) (n 2)
  | _ => DData (n 1) (n 2)
  end.
Definition oslot {X} (f : sx -> X) (x : sx) : option X := match x with A _ => None | L _ => Some (f x) end.
Definition dres_of_sx (x : sx) : dres :=
  mkdres (str_of_sx (sx_nth 0 x)) (str_of_sx (sx_nth 1 x)) (ostr_of_sx (sx_nth 2 x)).
Definition ddata_of_sx (x : sx) : ddata :=
  mkddata (ostr_of_sx (sx_nth 0 x)) (sx_nat (sx_nth 1 x)) (jval_of_sx (sx_nth 2 x)).
Definition dset_of_sx (x : sx) : dset :=
  mkdset (str_of_sx (sx_nth 0 x)) (map ostr_of_sx (sx_list (sx_nth 2 x)))
         (map (oslot ddata_of_sx) (sx_list (sx_nth 3 x))) (ostr_of_sx (sx_nth 1 x)).
Definition dann_of_sx (x : sx) : dann :=
  mkdann (ostr_of_sx (sx_nth 0 x))
         (map (fun p => (sx_nat (sx_nth 0 p), sx_nat (sx_nth 1 p))) (sx_list (sx_nth 1 x)))
         (sx_nat (sx_nth 2 x)) (map dleaf_of_sx (sx_list (sx_nth 3 x))).
Definition dstore_of_sx (x : sx) : dstore :=
  mkdstore (ostr_of_sx (sx_nth 0 x))
           (map (oslot dres_of_sx) (sx_list (sx_nth 1 x)))
           (map (oslot dset_of_sx) (sx_list (sx_nth 2 x)))
           (map (oslot dann_of_sx) (sx_list (sx_nth 3 x))).

(** * owners *)
Definition sx_onat (o : option nat) : sx := match o with Some n => of_nat n | None => A (-1) end.
Definition live_owners {X} (own : list (option nat)) (l : list (option X)) : sx :=
  L (map (fun p => sx_onat (owner_of own (fst p))) (live l)).
Definition sx_obs (c : cstore) (s : dstore) (ow : owners) : sx :=
  L [sx_cstore c; L (map (fun p => L [sx_ostr (fst p); sx_str (snd p)]) (ow_subs ow));
     live_owners (ow_res ow) (st_ress s); live_owners (ow_set ow) (st_sets s); live_owners (ow_ann ow) (st_anns s)].

Fixpoint set_nth {X} (l : list X) (n : nat) (d v : X) : list X :=
  match n, l with
  | 0, [] => [v]
  | 0, _ :: l' => v :: l'
  | S n', [] => d :: set_nth [] n' d v
  | S n', x :: l' => x :: set_nth l' n' d v
  end.

(** * histories: the operations of Run/StoreRun.v, plus
      (9)                 save now
      (10 n)              add_new_substore("sub<n>", "sub<n>.store.stam.json")
      (11 kind h k)       associate_substore(item h of kind 0 resource / 1 dataset / 2 annotation, sub-store k)
      (12 kind h where)   export a copy: kind 0 resource.to_txt_file, 1 resource.to_json_file, 2 dataset.to_json_file,
                          3 store.to_json_file (which also flushes, see sop_of_sx); where 0 = backup/<own file name>,
                          1 = backup/<another name>
      (13)                the members that qualify get their stand-off file names now (nothing is written) *)
Definition SUB := LIT "sub".
Definition APP_STORE := LIT ".store.stam.json".
Definition hstep (st : store * owners) (o : sx) : store * owners :=
  let '(s, ow) := st in
  match sx_Z (sx_nth 0 o) with
  | 10%Z =>
      let nm := SUB ++ digits (N.of_nat (sx_nat (sx_nth 1 o))) in
      (s, mkown (ow_subs ow ++ [(Some nm, nm ++ APP_STORE)]) (ow_res ow) (ow_set ow) (ow_ann ow))
  | 11%Z =>
      let h := sx_nat (sx_nth 2 o) in
      let k := sx_nat (sx_nth 3 o) in
      if negb (k <? length (ow_subs ow)) then (s, ow) else
      match sx_Z (sx_nth 1 o) with
      | 0%Z => match get_res s h with
               | Some _ => (s, mkown (ow_subs ow) (set_nth (ow_res ow) h None (Some k)) (ow_set ow) (ow_ann ow))
               | None => (s, ow) end
      | 1%Z => match get_set s h with
               | Some _ => (s, mkown (ow_subs ow) (ow_res ow) (set_nth (ow_set ow) h None (Some k)) (ow_ann ow))
               | None => (s, ow) end
      | _ => match get_ann s h with
             | Some _ => (s, mkown (ow_subs ow) (ow_res ow) (ow_set ow) (set_nth (ow_ann ow) h None (Some k)))
             | None => (s, ow) end
      end
  | 12%Z | 13%Z => (s, ow)      (* exporting a copy elsewhere / naming the stand-off files: the store is as it was *)
  | _ => (fst (step s (op_of_sx o)), ow)
  end.

(* the files the store should have on disk: stand-off members and sub-store documents *)
Definition want_files (rm sm : nat) (st : store * owners) : files :=
  match encode_o (view (fst st) rm sm) (snd st) with Some d => snd d | None => [] end.
Definition sub_names (st : store * owners) : list str := map snd (ow_subs (snd st)).

(* writing the store document somewhere else serialises the members too: their flagged files are flushed *)
Definition sop_of_sx (o : sx) : sop sx :=
  if Z.eqb (sx_Z (sx_nth 0 o)) 9 || (Z.eqb (sx_Z (sx_nth 0 o)) 12 && Z.eqb (sx_Z (sx_nth 1 o)) 3) then SSave else SMod o.
Definition run_saves (ops : list sx) (rm sm : nat) : (store * owners) * fstate :=
  save_run hstep (want_files rm sm) sub_names (map sop_of_sx ops) (empty_store, no_owners) (mkfs [] []).

(* an item whose public identifier reads as a temporary identifier of its own kind cannot be looked
   up by that identifier (the lookup goes to the handle the number names) *)
Definition is_temp (k : kind) (id : str) : bool := match temp_resolve k id with Some _ => true | None => false end.
Definition shadowed_id (s : dstore) : bool :=
  existsb (is_temp KRes) (map (fun p => jr_id (snd p)) (live (st_ress s)))
  || existsb (is_temp KSet) (map (fun p => js_id (snd p)) (live (st_sets s)))
  || existsb (is_temp KAnn) (flat_map (fun p => opt_list (ja_id (snd p))) (live (st_anns s)))
  || existsb (fun p => existsb (is_temp KKey) (flat_map opt_list (js_keys (snd p)))
                       || existsb (is_temp KData) (flat_map (fun o => match o with Some it => opt_list (jx_id it) | None => [] end)
                                                            (js_data (snd p))))
             (live (st_sets s)).

(** * the run *)
Definition sx_enc (d : json * files) : sx := L [nsx_of_json (fst d); sx_files (snd d)].

Definition run_C05 (x : sx) : sx :=
  let hist := Z.eqb (sx_Z (sx_nth 0 x)) 0 in
  let rm := sx_nat (sx_nth 0 (sx_nth 2 x)) in
  let sm := sx_nat (sx_nth 1 (sx_nth 2 x)) in
  let '((s0, ow), st0) := if hist then run_saves (sx_list (sx_nth 1 x)) rm sm
                          else ((empty_store, no_owners), mkfs [] []) in
  let s := if hist then view s0 rm sm else dstore_of_sx (sx_nth 1 x) in
  (* a sub-store whose items do not all come before the later documents' items is reordered by loading *)
  let kn := if negb (arranged s ow) then 1 else if has_reserved_id s then 2 else 0 in
  let wf := triple (of_bool (wf_dstore s)) (A 1) (if has_reserved_id s then 2 else 0) in
  match canon s, encode_o s ow with
  | Some c, Some d =>
      (* the final save: a literal store is new (every stand-off member is flagged) *)
      let st1 := flag_all (map snd (ow_subs ow)) (if hist then st0 else mark [] (snd d) st0) in
      let disk := fs_disk (flush (snd d) st1) in
      let o := sx_obs c s ow in
      let t := nsx_of_json (fst d) in
      let f := sx_files disk in
      let fspec := sx_files (rewrite_all (snd d) (fs_disk st1)) in
      let s' := decode_o (fst d, disk) in
      let back := match s' with
                  | Some (s1, ow1) => match canon s1 with Some c1 => sx_obs c1 s1 ow1 | None => L [A 0] end
                  | None => L [A 0]
                  end in
      let lay := match s' with Some (s1, _) => sx_layout s1 | None => A 0 end in
      let again := match s' with
                   | Some (s1, ow1) => match encode_o s1 ow1 with
                                       | Some d1 => (sx_eqb (nsx_of_json (fst d1)) t, sx_eqb (sx_files (snd d1)) (sx_files (snd d)))
                                       | None => (false, false)
                                       end
                   | None => (false, false)
                   end in
      L [wf; triple o o 0; triple t t 0; triple t t 0; triple f fspec 0; triple back o kn; triple lay lay 0;
         triple (L [of_bool (sx_eqb back o && negb (shadowed_id s)); of_bool (fst again); of_bool (fst again); of_bool (snd again)])
                (L [A 1; A 1; A 1; A 1]) kn]
  | _, _ => L [wf; triple (A 0) (A 0) 0]
  end.
