(* Correspondence entry point for C07.  Model inputs (first atom = kind):
     (0 text lctable ((mode b e)...) (needle...))       find_text, find_text_nocase per selection x needle
     (1 text ((mode b e)...) (delim...))                split_text
     (2 text ((mode b e)...) (set...))                  trim_text, trim_text_with
     (3 text (mode b e) allow ((caps ((g...)...))...))  find_text_regex; the regex crate's matches on the
                                                        plain slice are the oracle input; a group is
                                                        (start end) in bytes or () when it did not take part
     (4 interval text ((b e)...) ((mode b e)...))       segmentation
     (5 text lctable ((mode b e)...) ((frag...)...) skipset nocase)   find_text_sequence
     (6 (text...) (needle...))                          AnnotationStore::find_text over all resources
   mode 0 = the resource itself (b = 0, e = length), 1 = an unbound, 2 = a known text selection;
   the model does not distinguish them.  lctable: ((c l1 l2 ..)...) = char::to_lowercase.
   Selections are observed as (begin end text). *)
From Coq Require Import List ZArith NArith Bool Arith.
Import ListNotations.
From Stam Require Import Base.Sx Model.Offset Model.Utf8 Model.TextOps Spec.TextOpsSpec.

Definition text_of (x : sx) : text := map sx_N (sx_list x).
Definition sel_of (x : sx) : nat * nat := (sx_nat (sx_nth 1 x), sx_nat (sx_nth 2 x)).
Definition pair_of (x : sx) : nat * nat := (sx_nat (sx_nth 0 x), sx_nat (sx_nth 1 x)).

Definition obs_sel (t : text) (r : nat * nat) : sx :=
  L [of_nat (fst r); of_nat (snd r); of_Ns (sub t (fst r) (snd r))].
Definition obs_list (t : text) (r : list (nat * nat) * status) : sx :=
  match snd r with
  | Done => L (map (obs_sel t) (fst r))
  | Panicked => L [A (-1)]
  | NoFuel => L [A (-3)]
  end.
Definition spec_list (t : text) (sb : nat) (l : list (nat * nat)) : sx :=
  L (map (fun r => obs_sel t (shift sb r)) l).

(* the engines, instantiated by their char-level meaning *)
Definition find_b (hay nd : text) : option nat := option_map (bytepos hay) (first_occ nd hay).
Definition split_b (hay d : text) : list (nat * nat) :=
  map (fun r => (bytepos hay (fst r), bytepos hay (snd r) - bytepos hay (fst r))) (split_spec d hay).

Fixpoint lc_lookup (tbl : list (N * text)) (c : N) : text :=
  match tbl with
  | [] => [c]
  | (k, v) :: tbl' => if (k =? c)%N then v else lc_lookup tbl' c
  end.
Definition lc_of (x : sx) : N -> text :=
  lc_lookup (map (fun e => (sx_N (sx_nth 0 e), map sx_N (tl (sx_list e)))) (sx_list x)).

Definition mem_N (s : text) (c : N) : bool := existsb (fun x => (x =? c)%N) s.

(* regex oracle decoding *)
Definition group_of (x : sx) : rgroup :=
  match sx_list x with
  | [a; b] => Some (sx_nat a, sx_nat b)
  | _ => None
  end.
Definition expr_of (x : sx) : rexpr :=
  (sx_bool (sx_nth 0 x), map (fun m => map group_of (sx_list m)) (sx_list (sx_nth 1 x))).

Definition obs_result (t : text) (r : rresult) : sx :=
  L [of_nat (fst r); of_nats (fst (snd r)); L (map (obs_sel t) (snd (snd r)))].
Definition obs_results (t : text) (r : list rresult * status) : sx :=
  match snd r with
  | Done => L (map (obs_result t) (fst r))
  | Panicked => L [A (-1)]
  | NoFuel => L [A (-3)]
  end.

(* the hypotheses of C07_find_text_regex on the oracle input, checked on every case: groups on
   character boundaries inside the whole match, matches of an expression in order *)
Definition group_okb (hay : text) (g0 : nat * nat) (g : rgroup) : bool :=
  match g with
  | None => true
  | Some g =>
      match char_index hay (fst g), char_index hay (snd g) with
      | Some a, Some b => (a <=? b) && (fst g0 <=? fst g) && (snd g <=? snd g0)
      | _, _ => false
      end
  end.
Definition match_okb (hay : text) (m : rmatch) : bool :=
  match m with
  | Some g :: rest => group_okb hay g (Some g) && forallb (group_okb hay g) rest
  | _ => false
  end.
Fixpoint stream_okb (s : list rmatch) : bool :=
  match s with
  | [] => true
  | x :: s' =>
      (fst (g0 x) <=? snd (g0 x))
      && forallb (fun y => (fst (g0 x) <? fst (g0 y)) && (snd (g0 x) <=? fst (g0 y))) s'
      && stream_okb s'
  end.
Definition oracle_okb (hay : text) (es : list rexpr) : bool :=
  forallb (fun e => stream_okb (snd e) && forallb (match_okb hay) (snd e)) es.

Definition modes_ok (t : text) (x : sx) : bool :=
  negb (sx_nat (sx_nth 0 x) =? 0) || ((sx_nat (sx_nth 1 x) =? 0) && (sx_nat (sx_nth 2 x) =? length t)).

Definition run_C07 (x : sx) : sx :=
  match sx_nat (sx_nth 0 x) with
  | 0 =>
      let t := text_of (sx_nth 1 x) in
      let lc := lc_of (sx_nth 2 x) in
      let lower := flat_map lc in
      L (flat_map (fun s =>
           let '(sb, se) := sel_of s in
           let hay := sub t sb se in
           flat_map (fun n =>
             let nd := text_of n in
             [triple (obs_list t (find_text find_b t nd sb se))
                     (spec_list t sb (match_indices nd hay)) 0;
              triple (obs_list t (find_text_nocase find_b lower t nd sb se))
                     (spec_list t sb (nocase_indices lc (lower nd) hay))
                     (if Known_C07_nocase_len lc hay then 1 else 0)])
             (sx_list (sx_nth 4 x)))
           (sx_list (sx_nth 3 x)))
  | 1 =>
      let t := text_of (sx_nth 1 x) in
      L (flat_map (fun s =>
           let '(sb, se) := sel_of s in
           map (fun d =>
             triple (obs_list t (split_text split_b t (text_of d) sb se))
                    (spec_list t sb (split_spec (text_of d) (sub t sb se))) 0)
             (sx_list (sx_nth 3 x)))
           (sx_list (sx_nth 2 x)))
  | 2 =>
      let t := text_of (sx_nth 1 x) in
      L (flat_map (fun s =>
           let '(sb, se) := sel_of s in
           flat_map (fun cs =>
             let inset := mem_N (text_of cs) in
             let m := match trim_text inset t sb se with
                      | OOk r => L [A 1; obs_sel t r]
                      | OErr => L [A 0]
                      | OPanic => L [A (-1)]
                      end in
             let sp := L [A 1; obs_sel t (shift sb (trim_spec inset (sub t sb se)))] in
             [triple m sp 0; triple m sp 0])
             (sx_list (sx_nth 3 x)))
           (sx_list (sx_nth 2 x)))
  | 3 =>
      let t := text_of (sx_nth 1 x) in
      let '(sb, se) := sel_of (sx_nth 2 x) in
      let allow := sx_bool (sx_nth 3 x) in
      let es := map expr_of (sx_list (sx_nth 4 x)) in
      let hay := sub t sb se in
      L [triple (obs_results t (find_text_regex t es allow sb se))
                (if oracle_okb hay es then
                   match regex_spec hay sb es allow with
                   | Some l => L (map (obs_result t) l)
                   | None => L [A (-2)]
                   end
                 else L [A (-9)]) 0]
  | 4 =>
      let interval := sx_nat (sx_nth 1 x) in
      let t := text_of (sx_nth 2 x) in
      let known := map pair_of (sx_list (sx_nth 3 x)) in
      L (map (fun s =>
           let '(sb, se) := sel_of s in
           let m := if sx_nat (sx_nth 0 s) =? 0 then segmentation interval t known
                    else segmentation_in_range interval t known sb se in
           triple (L (map (obs_sel t) m)) (L (map (obs_sel t) (segments_spec known sb se))) 0)
           (sx_list (sx_nth 4 x)))
  | 5 =>
      let t := text_of (sx_nth 1 x) in
      let lc := lc_of (sx_nth 2 x) in
      let lower := flat_map lc in
      let skip := mem_N (text_of (sx_nth 5 x)) in
      let nocase := sx_bool (sx_nth 6 x) in
      L (flat_map (fun s =>
           let '(sb, se) := sel_of s in
           let hay := sub t sb se in
           map (fun fs =>
             let frags := map text_of (sx_list fs) in
             let m := match find_text_sequence find_b (if nocase then lower else (fun y => y)) skip t frags sb se with
                      | OOk (Some l) => L [A 1; L (map (obs_sel t) l)]
                      | OOk None => L [A 0]
                      | _ => L [A (-1)]
                      end in
             let occ := if nocase then (fun f h => nocase_indices lc (lower f) h) else match_indices in
             let sp := match sequence_spec occ skip hay 0 frags with
                       | Some l => L [A 1; L (map (fun r => obs_sel t (shift sb r)) l)]
                       | None => L [A 0]
                       end in
             triple m sp (if nocase && Known_C07_nocase_len lc hay then 1 else 0))
             (sx_list (sx_nth 4 x)))
           (sx_list (sx_nth 3 x)))
  | _ =>
      let ts := map text_of (sx_list (sx_nth 1 x)) in
      L (map (fun n =>
           let nd := text_of n in
           let obs1 (ir : nat * (nat * nat)) :=
             L [of_nat (fst ir); of_nat (fst (snd ir)); of_nat (snd (snd ir));
                of_Ns (sub (nth (fst ir) ts []) (fst (snd ir)) (snd (snd ir)))] in
           let m := match store_find find_b 0 ts nd with
                    | (l, Done) => L (map obs1 l)
                    | (_, Panicked) => L [A (-1)]
                    | (_, NoFuel) => L [A (-3)]
                    end in
           let sp := L (map obs1 (store_indices 0 ts nd)) in
           triple m sp 0)
           (sx_list (sx_nth 2 x)))
  end.
