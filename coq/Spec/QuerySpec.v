(* C08 layer 2: what the statement of the property demands of query results, written
   independently of how [sem] computes them. *)
From Coq Require Import List Arith Bool ZArith NArith.
Import ListNotations.
From Stam Require Import Model.Offset Model.Store Model.DataValue Model.Limit Model.QuerySem.

(** an item is selected by a level iff it is a live item of the result type and satisfies
    every constraint *)
Definition selected (s : store) (e : env) (rt : rtype) (cs : list cst) (it : item) : Prop :=
  In it (universe s rt) /\ forall c, In c cs -> csat s e c it = true.

(** a disjunction: the items of the branch results, each once, in store order *)
Definition branch_result (s : store) (e : env) (rt : rtype) (c : cst) : list item :=
  filter (csat s e c) (universe s rt).
Definition union_of (u : list item) (results : list (list item)) : list item :=
  filter (fun it => existsb (existsb (item_eqb it)) results) u.

(** nested iteration: the sub-query once per outer item, the outer variable bound to it;
    an OPTIONAL sub-query without rows leaves the outer item by itself *)
Definition nested (s : store) (e : env) (name : nat) (items : list item) (sq : query) : list (list item) :=
  flat_map (fun it =>
              let inner := sem s (e ++ [(name, it)]) sq in
              match inner with
              | [] => if q_opt sq then [[it]] else []
              | _ => map (cons it) inner
              end) items.

(** ADD / DELETE as the direct calls on the store: [step] of Model/Store.v *)
Fixpoint steps_until_failure (s : store) (ops : list op) : store * out :=
  match ops with
  | [] => (s, OOk 0)
  | o :: ops' => match step s o with
                 | (s', OOk _) => steps_until_failure s' ops'
                 | (s', r) => (s', r)
                 end
  end.

Definition spec_add (s : store) (a : addq) : store * out :=
  match add_builders s a (sem s [] (add_sub a)) with
  | Some bs => steps_until_failure s (map Annotate bs)
  | None => (s, OErr)
  end.

(* the direct calls: annotations, resources and data sets are removed by handle (a handle that is
   gone is an error that changes nothing); data and keys, in strict mode, when they are still there *)
Definition spec_rm (s : store) (it : item) : store :=
  match it with
  | IAnn a => fst (step s (RmAnn (ByHandle a)))
  | IRes r => fst (step s (RmRes (ByHandle r)))
  | ISet d => fst (step s (RmSet (ByHandle d)))
  | IData d x => if item_live s it then fst (step s (RmData (ByHandle d) (ByHandle x) true)) else s
  | IKey d k => if item_live s it then fst (step s (RmKey (ByHandle d) (ByHandle k) true)) else s
  | IText _ _ _ => s
  end.
Definition spec_delete (s : store) (x : nat) (sub : query) : store * out :=
  match delete_items x sub (sem s [] sub) with
  | Some its => if existsb is_text_item its then (s, OErr) else (fold_left spec_rm its s, OOk 0)
  | None => (s, OErr)
  end.
