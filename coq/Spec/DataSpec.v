(* C10: the data vocabulary and data search, by scans over the live data items only. *)
From Coq Require Import List ZArith NArith Bool Arith.
Import ListNotations.
From Stam Require Import Model.Offset Model.Store Model.TempId Model.DataValue Spec.StoreSpec.

(* the live key a request names, by scan *)
Definition s_key (ds : dset) (r : iref) : option nat :=
  match r with
  | ById tok => hd_error (s_resolve (d_keys ds) (fun t => Some t) tok)
  | ByHandle h => match slot (d_keys ds) h with Some _ => Some h | None => None end
  end.

Definition s_find_data (ds : dset) (key : option iref) (o : dop) : list nat :=
  match key with
  | Some kr =>
      match s_key ds kr with
      | Some k => filter (fun x => match slot (d_data ds) x with
                                   | Some it => Nat.eqb (x_key it) k && value_test (x_val it) o
                                   | None => false end) (seq 0 (length (d_data ds)))
      | None => []
      end
  | None => filter (fun x => match slot (d_data ds) x with
                             | Some it => value_test (x_val it) o
                             | None => false end) (seq 0 (length (d_data ds)))
  end.

Definition s_data_by_value (ds : dset) (kr : iref) (v : value) : option nat :=
  match s_key ds kr with
  | Some k => find (fun x => match slot (d_data ds) x with
                             | Some it => Nat.eqb (x_key it) k && value_eqb (x_val it) v
                             | None => false end) (seq 0 (length (d_data ds)))
  | None => None
  end.

(* each key exists once *)
Fixpoint nodup_nat (l : list nat) : bool :=
  match l with [] => true | x :: l' => negb (existsb (Nat.eqb x) l') && nodup_nat l' end.
Definition keys_unique (ds : dset) : bool :=
  nodup_nat (flat_map (fun k => match k with Some t => [t] | None => [] end) (d_keys ds)).

(* data without an id is never a second copy of an existing (key, value) *)
Definition vocab_ok (ds : dset) : bool :=
  forallb (fun x2 =>
             match slot (d_data ds) x2 with
             | Some it2 =>
                 match x_id it2 with
                 | Some _ => true
                 | None =>
                     forallb (fun x1 => match slot (d_data ds) x1 with
                                        | Some it1 => negb (Nat.eqb (x_key it1) (x_key it2) && value_eqb (x_val it1) (x_val it2))
                                        | None => true end) (seq 0 x2)
                 end
             | None => true
             end) (seq 0 (length (d_data ds))).
