(* What the documentation promises about the store, written as scans over the
   live items only - no reverse index, no id map is read here.
   - every reverse lookup = the live annotations whose own target / data refer to
     the item, in chronological (handle) order, each once;
   - an id resolves to the live item carrying it;
   - a removal removes the item and exactly its dependants (transitively through
     annotations on annotations). *)
From Coq Require Import List Arith Bool ZArith.
Import ListNotations.
From Stam Require Import Model.Offset Model.Store.

Definition scan (s : store) (P : ann -> bool) : list nat :=
  filter (fun h => match get_ann s h with Some a => P a | None => false end)
         (seq 0 (length (anns s))).

Definition has_leaf (P : leaf -> bool) (a : ann) : bool := existsb P (a_leaves a).

Definition on_ts (r t : nat) (lf : leaf) : bool :=
  match lf with
  | LText r' t' _ | LAnnText _ r' t' _ => Nat.eqb r' r && Nat.eqb t' t
  | _ => false
  end.
Definition on_res_text (r : nat) (lf : leaf) : bool :=
  match lf with LText r' _ _ | LAnnText _ r' _ _ => Nat.eqb r' r | _ => false end.
Definition on_res_meta (r : nat) (lf : leaf) : bool :=
  match lf with LRes r' => Nat.eqb r' r | _ => false end.
Definition on_ann (a : nat) (lf : leaf) : bool :=
  match lf with LAnn a' | LAnnText a' _ _ _ => Nat.eqb a' a | _ => false end.
Definition on_set (d : nat) (lf : leaf) : bool :=
  match lf with LSet d' => Nat.eqb d' d | _ => false end.
Definition on_key (d k : nat) (lf : leaf) : bool :=
  match lf with LKey d' k' => Nat.eqb d' d && Nat.eqb k' k | _ => false end.
Definition on_data (d x : nat) (lf : leaf) : bool :=
  match lf with LData d' x' => Nat.eqb d' d && Nat.eqb x' x | _ => false end.
Definition uses_data (d x : nat) (a : ann) : bool :=
  existsb (fun dx => Nat.eqb (fst dx) d && Nat.eqb (snd dx) x) (a_data a).
Definition uses_set (d : nat) (a : ann) : bool :=
  existsb (fun dx => Nat.eqb (fst dx) d) (a_data a).

(** reverse lookups *)
Definition s_ts_anns (s : store) (r t : nat) := scan s (has_leaf (on_ts r t)).
Definition s_res_text (s : store) (r : nat) := scan s (has_leaf (on_res_text r)).
Definition s_res_meta (s : store) (r : nat) := scan s (has_leaf (on_res_meta r)).
Definition s_ann_anns (s : store) (a : nat) := scan s (has_leaf (on_ann a)).
Definition s_set_meta (s : store) (d : nat) := scan s (has_leaf (on_set d)).
Definition s_key_meta (s : store) (d k : nat) := scan s (has_leaf (on_key d k)).
Definition s_data_meta (s : store) (d x : nat) := scan s (has_leaf (on_data d x)).
Definition s_data_anns (s : store) (d x : nat) := scan s (uses_data d x).

Definition live_data (ds : dset) : list nat := live_handles (d_data ds).
Definition s_key_data (ds : dset) (k : nat) : list nat :=
  filter (fun x => match slot (d_data ds) x with Some it => Nat.eqb (x_key it) k | None => false end)
         (seq 0 (length (d_data ds))).
Definition s_key_anns (s : store) (d : nat) (ds : dset) (k : nat) : list nat :=
  scan s (fun a => existsb (fun dx => Nat.eqb (fst dx) d
                                      && match slot (d_data ds) (snd dx) with
                                         | Some it => Nat.eqb (x_key it) k
                                         | None => false
                                         end) (a_data a)).

(** id resolution: the live item carrying the id *)
Definition s_resolve {X} (l : list (option X)) (idof : X -> option nat) (tok : nat) : list nat :=
  filter (fun h => match slot l h with
                   | Some it => match idof it with Some i => Nat.eqb i tok | None => false end
                   | None => false
                   end) (seq 0 (length l)).

(** removal: the set of annotations that must go *)
Definition targets_any (D : list nat) (a : ann) : bool :=
  has_leaf (fun lf => match lf with
                      | LAnn a' | LAnnText a' _ _ _ => existsb (Nat.eqb a') D
                      | _ => false
                      end) a.

(* close D under "targets an annotation in D" *)
Fixpoint close (fuel : nat) (s : store) (D : list nat) : list nat :=
  match fuel with
  | 0 => D
  | S f =>
      close f s (filter (fun h => existsb (Nat.eqb h) D
                                  || match get_ann s h with Some a => targets_any D a | None => false end)
                        (seq 0 (length (anns s))))
  end.

Definition closure (s : store) (D0 : list nat) : list nat := close (length (anns s)) s D0.

Definition deps_ann (s : store) (h : nat) : list nat := closure s [h].
Definition deps_res (s : store) (r : nat) : list nat :=
  closure s (scan s (fun a => has_leaf (on_res_text r) a || has_leaf (on_res_meta r) a)).
(* a dataset takes with it everything that uses its data or targets the set, one of its
   keys or one of its data items (otherwise those targets would dangle) *)
Definition on_set_any (d : nat) (lf : leaf) : bool :=
  match lf with LSet d' | LKey d' _ | LData d' _ => Nat.eqb d' d | _ => false end.
Definition deps_set (s : store) (d : nat) : list nat :=
  closure s (scan s (fun a => uses_set d a || has_leaf (on_set_any d) a)).
(* strict: every annotation using the data; non-strict: those left without data *)
Definition only_data (d x : nat) (a : ann) : bool :=
  uses_data d x a && forallb (fun dx => Nat.eqb (fst dx) d && Nat.eqb (snd dx) x) (a_data a).
Definition deps_data (s : store) (d x : nat) (strict : bool) : list nat :=
  closure s (scan s (fun a => (if strict then uses_data d x a else only_data d x a)
                              || has_leaf (on_data d x) a)).
Definition uses_key (ds : dset) (d k : nat) (a : ann) : bool :=
  existsb (fun dx => Nat.eqb (fst dx) d
                     && match slot (d_data ds) (snd dx) with Some it => Nat.eqb (x_key it) k | None => false end)
          (a_data a).
Definition only_key (ds : dset) (d k : nat) (a : ann) : bool :=
  uses_key ds d k a
  && forallb (fun dx => Nat.eqb (fst dx) d
                        && match slot (d_data ds) (snd dx) with Some it => Nat.eqb (x_key it) k | None => false end)
             (a_data a).
Definition on_key_data (ds : dset) (d k : nat) (lf : leaf) : bool :=
  match lf with
  | LKey d' k' => Nat.eqb d' d && Nat.eqb k' k
  | LData d' x' => Nat.eqb d' d && match slot (d_data ds) x' with Some it => Nat.eqb (x_key it) k | None => false end
  | _ => false
  end.
Definition deps_key (s : store) (ds : dset) (d k : nat) (strict : bool) : list nat :=
  closure s (scan s (fun a => (if strict then uses_key ds d k a else only_key ds d k a)
                              || has_leaf (on_key_data ds d k) a)).

(** nothing dangles: every reference of every live annotation resolves to a live item *)
Definition leaf_live (s : store) (lf : leaf) : bool :=
  match lf with
  | LText r t _ => match get_res s r with Some rs => t <? length (r_sels rs) | None => false end
  | LAnn a => match get_ann s a with Some _ => true | None => false end
  | LAnnText a r t _ =>
      match get_ann s a, get_res s r with
      | Some _, Some rs => t <? length (r_sels rs)
      | _, _ => false
      end
  | LRes r => match get_res s r with Some _ => true | None => false end
  | LSet d => match get_set s d with Some _ => true | None => false end
  | LKey d k => match get_set s d with
                | Some ds => match slot (d_keys ds) k with Some _ => true | None => false end
                | None => false
                end
  | LData d x => match get_set s d with
                 | Some ds => match slot (d_data ds) x with Some _ => true | None => false end
                 | None => false
                 end
  end.
Definition data_live (s : store) (dx : nat * nat) : bool :=
  match get_set s (fst dx) with
  | Some ds => match slot (d_data ds) (snd dx) with
               | Some it => match slot (d_keys ds) (x_key it) with Some _ => true | None => false end
               | None => false
               end
  | None => false
  end.
Definition ann_sound (s : store) (a : ann) : bool :=
  forallb (leaf_live s) (a_leaves a) && forallb (data_live s) (a_data a).
Definition dangling_free (s : store) : bool :=
  forallb (fun h => match get_ann s h with Some a => ann_sound s a | None => true end)
          (seq 0 (length (anns s))).
