(* What the text operations mean on the plain string (a list of scalar values), written
   without any reference to bytes, offsets fields or iterators:
     match_indices   leftmost non-overlapping occurrences (str::match_indices), positions in codepoints
     nocase_indices  the same for "the lower-cased text equals the lower-cased needle"
     split_spec      what lies between the occurrences of the delimiter (str::split)
     trim_spec       what remains after removing leading and trailing characters of a set
     segments_spec   cut [lo, hi) at every position where a known selection begins or ends
     merge_spec      the order (and overlap rule) of the matches of several regular expressions
     sequence_spec   fragments one after the other with only skippable characters in between *)
From Coq Require Import List NArith Arith Bool.
Import ListNotations.

Definition text := list N.

Fixpoint prefixb (nd hay : text) : bool :=
  match nd, hay with
  | [], _ => true
  | n :: nd', h :: hay' => (n =? h)%N && prefixb nd' hay'
  | _ :: _, [] => false
  end.

(* scan left to right; [skip] characters are still covered by the previous match *)
Fixpoint match_indices_go (nd hay : text) (pos skip : nat) : list (nat * nat) :=
  match hay with
  | [] => if (skip =? 0) && prefixb nd [] then [(pos, pos)] else []
  | _ :: hay' =>
      if (skip =? 0) && prefixb nd hay
      then (pos, pos + length nd) :: match_indices_go nd hay' (S pos) (length nd - 1)
      else match_indices_go nd hay' (S pos) (skip - 1)
  end.
Definition match_indices (nd hay : text) : list (nat * nat) := match_indices_go nd hay 0 0.

Definition shift (b : nat) (r : nat * nat) : nat * nat := (b + fst r, b + snd r).
Definition subtext (t : text) (b e : nat) : text := firstn (e - b) (skipn b t).

(* case-insensitive: [lc] is char::to_lowercase (one character may become several) *)
Fixpoint strip_prefix (p l : text) : option text :=
  match p, l with
  | [], _ => Some l
  | a :: p', b :: l' => if (a =? b)%N then strip_prefix p' l' else None
  | _ :: _, [] => None
  end.

(* the number k of leading characters of hay whose lower-casing is exactly nd *)
Fixpoint lc_prefix (lc : N -> text) (hay nd : text) {struct hay} : option nat :=
  match nd with
  | [] => Some 0
  | _ :: _ =>
      match hay with
      | [] => None
      | c :: hay' =>
          match strip_prefix (lc c) nd with
          | Some nd' => option_map S (lc_prefix lc hay' nd')
          | None => None
          end
      end
  end.

Fixpoint nocase_go (lc : N -> text) (nd hay : text) (pos skip : nat) : list (nat * nat) :=
  match hay with
  | [] => match nd with [] => if skip =? 0 then [(pos, pos)] else [] | _ => [] end
  | _ :: hay' =>
      if skip =? 0 then
        match lc_prefix lc hay nd with
        | Some k => (pos, pos + k) :: nocase_go lc nd hay' (S pos) (k - 1)
        | None => nocase_go lc nd hay' (S pos) 0
        end
      else nocase_go lc nd hay' (S pos) (skip - 1)
  end.
(* nd is the lower-cased needle *)
Definition nocase_indices (lc : N -> text) (nd hay : text) : list (nat * nat) := nocase_go lc nd hay 0 0.

(* split: the pieces between the occurrences *)
Fixpoint gaps (from : nat) (ms : list (nat * nat)) (en : nat) : list (nat * nat) :=
  match ms with
  | [] => [(from, en)]
  | m :: ms' => (from, fst m) :: gaps (snd m) ms' en
  end.
Definition split_spec (delim hay : text) : list (nat * nat) :=
  gaps 0 (match_indices delim hay) (length hay).

(* trim *)
Fixpoint dropwhile (f : N -> bool) (l : text) : text :=
  match l with
  | c :: l' => if f c then dropwhile f l' else l
  | [] => []
  end.
Definition trim_spec (inset : N -> bool) (hay : text) : nat * nat :=
  let a := dropwhile inset hay in
  let b := dropwhile inset (rev a) in
  (length hay - length a, length hay - length a + length b).

(* segmentation of [lo, hi): cut at every p with lo < p < hi where a known selection begins or ends *)
Definition is_boundary (known : list (nat * nat)) (p : nat) : bool :=
  existsb (fun k => (fst k =? p) || (snd k =? p)) known.
Definition cuts (known : list (nat * nat)) (lo hi : nat) : list nat :=
  filter (fun p => (lo <? p) && is_boundary known p) (seq 0 hi).
Fixpoint pieces (from : nat) (cs : list nat) (hi : nat) : list (nat * nat) :=
  match cs with
  | [] => [(from, hi)]
  | c :: cs' => (from, c) :: pieces c cs' hi
  end.
Definition segments_spec (known : list (nat * nat)) (lo hi : nat) : list (nat * nat) :=
  if lo <? hi then pieces lo (cuts known lo hi) hi else [].

(* several regular expressions: every match is (stream index, begin, end, payload); order by
   begin, ties by stream; without overlap a match is dropped when it begins inside an earlier
   result *)
Section Merge.
  Context {X : Type}.
  Variable kb ke : X -> nat.
  (* stable insertion sort by the begin: an element goes before the first one that does not
     begin earlier than it *)
  Fixpoint insert_by (x : nat * X) (l : list (nat * X)) : list (nat * X) :=
    match l with
    | [] => [x]
    | y :: l' => if kb (snd x) <=? kb (snd y) then x :: l else y :: insert_by x l'
    end.
  Definition sort_by (l : list (nat * X)) : list (nat * X) := fold_right insert_by [] l.
  Fixpoint greedy (covered : nat) (l : list (nat * X)) : list (nat * X) :=
    match l with
    | [] => []
    | x :: l' =>
        if covered <=? kb (snd x) then x :: greedy (Nat.max covered (ke (snd x))) l'
        else greedy covered l'
    end.
  Fixpoint tag_from (i : nat) (ss : list (list X)) : list (nat * X) :=
    match ss with
    | [] => []
    | s :: ss' => map (fun m => (i, m)) s ++ tag_from (S i) ss'
    end.
  Definition merge_spec (allow_overlap : bool) (ss : list (list X)) : list (nat * X) :=
    let all := sort_by (tag_from 0 ss) in
    if allow_overlap then all else greedy 0 all.
End Merge.

(* byte offset -> codepoint position in a plain string (None: not on a character boundary) *)
Definition ulen (c : N) : nat :=
  if (c <? 128)%N then 1 else if (c <? 2048)%N then 2 else if (c <? 65536)%N then 3 else 4.
Fixpoint char_index (hay : text) (b : nat) : option nat :=
  match b, hay with
  | 0, _ => Some 0
  | _, [] => None
  | _, c :: hay' => if ulen c <=? b then option_map S (char_index hay' (b - ulen c)) else None
  end.

(* the known class of find_text_nocase: some character of the searched text lower-cases to
   something of another UTF-8 length (or to several characters) *)
Definition len_pres (lc : N -> text) (c : N) : bool :=
  match lc c with
  | [c'] => ulen c' =? ulen c
  | _ => false
  end.
Definition Known_C07_nocase_len (lc : N -> text) (hay : text) : bool := negb (forallb (len_pres lc) hay).

(* the results of find_text_regex from the engine's matches on the plain slice [hay] that
   begins at codepoint sb: a match is its groups (group 0 = the whole match first), absent or
   (start, end) in bytes; an expression is (has capture groups, its matches in order) *)
Definition sgroup := option (nat * nat).
Definition smatch := list sgroup.
Definition g0 (m : smatch) : nat * nat := match m with Some g :: _ => g | _ => (0, 0) end.
Definition group_sel (hay : text) (sb : nat) (g : nat * nat) : option (nat * nat) :=
  match char_index hay (fst g), char_index hay (snd g) with
  | Some b, Some e => Some (sb + b, sb + e)
  | _, _ => None
  end.
Fixpoint caps_from (i : nat) (gs : list sgroup) : list (nat * (nat * nat)) :=
  match gs with
  | [] => []
  | None :: gs' => caps_from (S i) gs'
  | Some g :: gs' => (i, g) :: caps_from (S i) gs'
  end.
Fixpoint all_some {Y} (l : list (option Y)) : option (list Y) :=
  match l with
  | [] => Some []
  | Some y :: l' => option_map (cons y) (all_some l')
  | None :: _ => None
  end.
(* one result: (expression index, (capture group numbers, selections)); without capture groups
   the whole match, with capture groups the groups that took part *)
Definition sresult := (nat * (list nat * list (nat * nat)))%type.
Definition result_spec (hay : text) (sb : nat) (caps : bool) (eidx : nat) (m : smatch) : option sresult :=
  if caps then
    let cs := caps_from 1 (tl m) in
    option_map (fun sels => (eidx, (map fst cs, sels))) (all_some (map (fun c => group_sel hay sb (snd c)) cs))
  else option_map (fun s => (eidx, ([], [s]))) (group_sel hay sb (g0 m)).
Definition regex_spec (hay : text) (sb : nat) (es : list (bool * list smatch)) (allow_overlap : bool)
  : option (list sresult) :=
  all_some (map (fun im => result_spec hay sb (fst (nth (fst im) es (false, []))) (fst im) (snd im))
                (merge_spec (fun m => fst (g0 m)) (fun m => snd (g0 m)) allow_overlap (map snd es))).

(* find_text_sequence *)
Fixpoint first_occ (nd hay : text) : option nat :=
  if prefixb nd hay then Some 0
  else match hay with
       | [] => None
       | _ :: hay' => option_map S (first_occ nd hay')
       end.
(* [occ f hay]: the occurrences of fragment f in hay (match_indices or nocase_indices) *)
Fixpoint sequence_spec (occ : text -> text -> list (nat * nat)) (skip : N -> bool) (hay : text)
         (pos : nat) (frags : list text) : option (list (nat * nat)) :=
  match frags with
  | [] => Some []
  | f :: frags' =>
      match occ f (skipn pos hay) with
      | [] => None
      | (k, k2) :: _ =>
          if forallb skip (firstn k (skipn pos hay)) then
            match sequence_spec occ skip hay (pos + k2) frags' with
            | Some l => Some ((pos + k, pos + k2) :: l)
            | None => None
            end
          else None
      end
  end.

(* all resources of a store, in order *)
Fixpoint store_indices (i : nat) (ts : list text) (nd : text) : list (nat * (nat * nat)) :=
  match ts with
  | [] => []
  | t :: ts' => map (fun r => (i, r)) (match_indices nd t) ++ store_indices (S i) ts' nd
  end.

(* str::join *)
Fixpoint join (d : text) (l : list text) : text :=
  match l with
  | [] => []
  | x :: l' => match l' with [] => x | _ :: _ => x ++ d ++ join d l' end
  end.
