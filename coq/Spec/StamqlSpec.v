(* What C09 demands, independently of the parser's control flow.
   (1) Totality: for every string the parser answers Ok or Err.  [spec_parse]
       maps an outcome to the demanded one (a panic should have been a syntax
       error).
   (2) Fixpoint: for a query q (parsed or built) whose printed form is t,
       parsing t yields exactly q with nothing left, and printing again gives t.
   Classes of syntax trees for which (2) is known to fail in the code as it is
   are decidable predicates [Known_C09_*]; [known_class] picks the first that
   applies (0 = none).  [wf_query] is the domain of programmatically built
   queries the claim is made for. *)
From Coq Require Import List ZArith NArith Bool Arith.
Import ListNotations.
From Stam Require Import Model.StamqlLex Model.Stamql.

Definition spec_outcome {A} (o : outcome A) : outcome A :=
  match o with Panic => Err | x => x end.

(* ---------- string classes ---------- *)
(* printed between double quotes: a quote that is not preceded by a backslash ends the argument
   early; a final backslash escapes the closing quote *)
Fixpoint bad_quote_aux (prev_bs : bool) (s : str) : bool :=
  match s with
  | [] => prev_bs
  | c :: s' => if (c =? c_dquote)%N && negb prev_bs then true else bad_quote_aux (c =? c_backslash)%N s'
  end.
Definition bad_quote (s : str) : bool := bad_quote_aux false s.

(* printed raw after '?': cut at a terminator, a quote opens a quoted argument *)
Definition bad_var (v : str) : bool :=
  existsb (fun c => is_term c || (c =? c_dquote)%N || (c =? c_cr)%N) v.
(* query name: read back up to the first separator, trailing ';' stripped, the whole text trimmed *)
Definition bad_name (v : str) : bool :=
  existsb (fun c => is_ws c) v || match rev v with c :: _ => (c =? c_semicolon)%N | [] => false end.

Definition is_empty (s : str) : bool := match s with [] => true | _ => false end.

(* a token the lexer reads back whole: no separator, no quote *)
Definition tok_char (c : N) : bool := negb (is_term c) && negb (c =? c_dquote)%N.
Definition tok_ok (t : str) : bool := forallb tok_char t.
Definition in_isize_b (z : Z) : bool := ((isize_min <=? z) && (z <=? isize_max))%Z.

Section Classes.
  Variable dt_parse : str -> option str.

  (* identifier printed in quotes where the parser looks for AS / ?var *)
  Definition reserved_id (id : str) (q : qual) : bool :=
    match q with
    | QNormal => str_eqb id K_AS
    | QMetadata => str_eqb id K_RECURSIVE
    end.
  Definition looks_var (id : str) : bool := starts_with K_QMARK id && (1 <? blen id).

  Definition offset_ok (o : option offset) : bool :=
    match o with
    | None => true
    | Some (b, e) =>
        let ok c := match c with
                    | CB n => ((0 <=? n) && (n <=? usize_max))%Z
                    | CE z => ((isize_min <=? z) && (z <=? 0))%Z
                    end in
        ok b && ok e
    end.

  Definition leaf_quote (l : leaf) : bool := match l with LStr s => bad_quote s | _ => false end.
  Definition leaf_float (l : leaf) : bool := match l with LFlt _ => true | _ => false end.
  Definition leaf_keyword (l : leaf) : bool :=
    match l with
    | LStr s => match get_arg_type dt_parse s true with TString => false | _ => true end
    | _ => false
    end.
  Definition base_leaf (f : leaf -> bool) (b : base) : bool :=
    match b with BLeaf l => f l | _ => false end.
  Definition op_base (o : dataop) : base := match o with Pos b => b | Neg b => b end.
  Definition op_float (o : dataop) : bool :=
    match op_base o with BLeaf l => leaf_float l | BCmpF _ _ => true | _ => false end.
  Definition op_any (o : dataop) : bool := match o with Pos BAny => true | _ => false end.

  (* class 2: a string printed in quotes that the lexer cannot read back *)
  Fixpoint c_quote (c : constr) : bool :=
    match c with
    | CId id => bad_quote id
    | CAnnotation id _ _ _ | CResource id _ _ | CDataSet id _ => bad_quote id
    | CDataKey set key _ => bad_quote set || bad_quote key
    | CSubStore (Some id) => bad_quote id
    | CKeyValue set key op _ => bad_quote set || bad_quote key || base_leaf leaf_quote (op_base op)
    | CValue op _ | CKeyValueVar _ op _ => base_leaf leaf_quote (op_base op)
    | CText t _ => bad_quote t
    | CRegex re => bad_quote re
    | CUnion l => existsb c_quote l
    | _ => false
    end.

  (* class 3: a variable name printed raw that is not read back as one token *)
  Fixpoint c_var (c : constr) : bool :=
    match c with
    | CKeyVar v _ | CDataSetVar v _ | CResourceVar v _ _ | CTextVar v | CSubStoreVar v
    | CAnnotationVar v _ _ _ => bad_var v || is_empty v
    | CDataVar v _ | CTextRel v _ _ | CKeyValueVar v _ _ => bad_var v
    | CUnion l => existsb c_var l
    | _ => false
    end.

  (* class 4: float operands *)
  Fixpoint c_float (c : constr) : bool :=
    match c with
    | CKeyValue _ _ op _ | CValue op _ | CKeyValueVar _ op _ => op_float op
    | CUnion l => existsb c_float l
    | _ => false
    end.

  (* class 5: a quoted string that is read back as a keyword, a variable or another value type *)
  Fixpoint c_keyword (c : constr) : bool :=
    match c with
    | CAnnotation id q _ _ | CResource id q _ | CDataSet id q => reserved_id id q || looks_var id
    | CDataKey set _ q => reserved_id set q || starts_with K_QMARK set
    | CKeyValue set _ op q =>
        reserved_id set q || starts_with K_QMARK set || base_leaf leaf_keyword (op_base op)
    | CValue op _ => base_leaf leaf_keyword (op_base op)
    | CSubStore (Some id) => looks_var id || str_eqb id K_NONE || is_empty id
    | CText t nocase => (negb nocase && str_eqb t K_AS) || looks_var t
    | CRegex re => looks_var re
    | CUnion l => existsb c_keyword l
    | _ => false
    end.

  (* class 6: AnnotationDepth that has no syntax (Zero; Max without AS METADATA) *)
  Fixpoint c_depth (c : constr) : bool :=
    match c with
    | CAnnotation _ q d _ | CAnnotationVar _ q d _ =>
        match d, q with DZero, _ => true | DMax, QNormal => true | _, _ => false end
    | CUnion l => existsb c_depth l
    | _ => false
    end.

  (* class 7: KeyValueVariable has no syntax *)
  Fixpoint c_kvvar (c : constr) : bool :=
    match c with CKeyValueVar _ _ _ => true | CUnion l => existsb c_kvvar l | _ => false end.

  (* class 8: text relation with modifiers / SAMERANGE / INSET *)
  Fixpoint c_rel (c : constr) : bool :=
    match c with
    | CTextRel _ k dflt => negb dflt || match k with RSameRange | RInSet => true | _ => false end
    | CUnion l => existsb c_rel l
    | _ => false
    end.

  (* class 9: DATA set key = any is printed as DATA set key *)
  Fixpoint c_any (c : constr) : bool :=
    match c with CKeyValue _ _ op _ => op_any op | CUnion l => existsb c_any l | _ => false end.

  Fixpoint q_exists (f : constr -> bool) (q : query) : bool :=
    match q with
    | Q _ _ _ _ _ cs _ subs _ =>
        existsb f cs || (fix go (l : list query) : bool :=
                           match l with [] => false | s :: l' => q_exists f s || go l' end) subs
    end.

  (* class 1: assignments of an ADD query are not printed *)
  Fixpoint q_assign (q : query) : bool :=
    match q with
    | Q _ _ _ _ asg _ _ subs _ =>
        match asg with [] => false | _ => true end
        || (fix go (l : list query) : bool :=
              match l with [] => false | s :: l' => q_assign s || go l' end) subs
    end.

  Fixpoint q_name (q : query) : bool :=
    match q with
    | Q name _ _ _ _ _ _ subs _ =>
        match name with Some n => bad_name n | None => false end
        || (fix go (l : list query) : bool :=
              match l with [] => false | s :: l' => q_name s || go l' end) subs
    end.

  Definition known_class (q : query) : nat :=
    if q_assign q then 1
    else if q_exists c_quote q then 2
    else if q_exists c_var q || q_name q then 3
    else if q_exists c_float q then 4
    else if q_exists c_keyword q then 5
    else if q_exists c_depth q then 6
    else if q_exists c_kvvar q then 7
    else if q_exists c_rel q then 8
    else if q_exists c_any q then 9
    else 0.

  (* ---------- domain of built queries ---------- *)
  Variable re_ok : str -> bool.

  (* the to_rfc3339() text of a datetime: one token, classified as a datetime, its own canonical form *)
  Definition dt_canonical_b (d : str) : bool :=
    tok_ok d
    && match get_arg_type dt_parse d false with TDatetime => true | _ => false end
    && match dt_parse d with Some d' => str_eqb d' d | None => false end
    && match d with x :: _ => negb (is_ws x) | [] => false end.

  Definition leaf_wf (l : leaf) : bool := match l with LInt z => in_isize_b z | _ => true end.
  Definition base_wf (b : base) : bool :=
    match b with
    | BLeaf l => leaf_wf l
    | BCmp _ z => in_isize_b z
    | BDt _ d => dt_canonical_b d
    | BOr l => forallb leaf_wf l
    | _ => true
    end.
  Definition op_wf (o : dataop) : bool := base_wf (op_base o).

  Fixpoint wf_constr (c : constr) : bool :=
    match c with
    | CAnnotation _ _ _ o | CResource _ _ o | CResourceVar _ _ o | CAnnotationVar _ _ _ o => offset_ok o
    | CKeyValue _ _ op _ | CValue op _ | CKeyValueVar _ op _ => op_wf op
    | CRegex r => re_ok r
    | CLimit b e => in_isize_b b && in_isize_b e
    | CUnion l => match l with [] => false | _ => forallb wf_constr l end
    | _ => true
    end.

  (* no known class applies to the constraint *)
  Definition class_free (c : constr) : bool :=
    negb (c_quote c || c_var c || c_float c || c_keyword c || c_depth c || c_kvvar c || c_rel c || c_any c).
End Classes.

(* ---------- the fixpoint statement at full strength ---------- *)
Section Statement.
  Variable dt_parse : str -> option str.
  Variable re_ok : str -> bool.

  Definition attr_ok (a : str) : bool :=
    match a with
    | c :: _ => (c =? c_at)%N && forallb (fun x => negb (is_split x)) a
    | [] => false
    end.

  (* queries the grammar can produce or the public API can build: SELECT with any of the six result
     types, constraints and SELECT sub-queries; DELETE / ADD ANNOTATION with SELECT sub-queries only
     (assignments make class 1); one attribute list per constraint *)
  Fixpoint wf_query (top : bool) (q : query) : bool :=
    match q with
    | Q name qt optional rt asg cs cas subs attrs =>
        match rt with Some _ => true | None => false end
        && match qt with
           | QSelect => true
           | _ => top && negb optional && match rt with Some RAnnotation => true | _ => false end
                  && match cs with [] => true | _ => false end
           end
        && forallb (wf_constr dt_parse re_ok) cs
        && (length cas =? length cs) && forallb (forallb attr_ok) cas && forallb attr_ok attrs
        && (fix go (l : list query) : bool :=
              match l with [] => true | s :: l' => wf_query false s && go l' end) subs
    end.

  (* printing a query and parsing the text gives the same query back, nothing is left over
     (so printing again gives the same text) *)
  Definition fixpoint_at (parse : str -> outcome (query * str)) (q : query) : Prop :=
    forall t, print_query q = Some t -> parse t = Ok (q, []).
End Statement.
