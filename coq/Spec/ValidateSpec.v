(* What text validation promises, stated over the characters an annotation selects:
   - after protect_text (any mode) every annotation that selects text is reported valid, an
     annotation that selects no text (no text selector at all, or only zero-width ones) carries
     no validation information and is reported missing, none is invalid;
   - against another text with the same offsets an annotation is reported invalid exactly when
     the characters it selects differ.
   Nothing here looks at data items, keys, checksums or reverse indices. *)
From Coq Require Import List Arith Bool ZArith NArith.
Import ListNotations.
From Stam Require Import Model.Offset Model.Utf8 Model.Store Model.Validate.

(* the characters selected by one part of a target *)
Definition sel_of_leaf (txts : list text) (s : store) (lf : leaf) : option text :=
  match lf with
  | LText r t _ | LAnnText _ r t _ =>
      match get_res s r with
      | Some rs => match nth_error (r_sels rs) t with
                   | Some rg => Some (sub (nth r txts []) (fst rg) (snd rg))
                   | None => None
                   end
      | None => None
      end
  | _ => None
  end.

(* one string per text-selecting part, in the order of the target *)
Definition selected (txts : list text) (s : store) (a : ann) : list text :=
  omap (sel_of_leaf txts s) (a_leaves a).

Definition nonempty (p : text) : bool := negb (is_nil p).
Definition some_text (ps : list text) : bool := existsb nonempty ps.
Definition selects_text (txts : list text) (s : store) (a : ann) : bool := some_text (selected txts s a).

Definition texts_eqb (a b : list text) : bool := list_eqb text_eqb a b.

(* verdict demanded right after protecting *)
Definition demand_protected (txts : list text) (s : store) (a : ann) : option bool :=
  if selects_text txts s a then Some true else None.

(* verdict demanded when the same store is read against the texts [txts'] *)
Definition demand_edited (txts txts' : list text) (s : store) (a : ann) : option bool :=
  if selects_text txts s a then Some (texts_eqb (selected txts s a) (selected txts' s a)) else None.

(* the same on explicit lists of selected strings (used when the offsets were resolved again
   against a text of another length) *)
Definition demand_pieces (old new : list text) : option bool :=
  if some_text old then Some (texts_eqb old new) else None.

(* an annotation that already carried validation information before protect_text is outside the
   property; what is demanded of it is validation against the information it carries: every
   reference present must equal the joined text, resp. its digest *)
Definition carries_info (s : store) (a : ann) : bool :=
  negb (is_none (ann_vstr s a KCHK)) || negb (is_none (ann_vstr s a KTXT)).

Section Digest.
Variable H : text -> text.

Definition by_reference (s : store) (a : ann) (ps : list text) : option bool :=
  let j := text_join (odflt (ann_vstr s a KDEL)) ps in
  let okc := match ann_vstr s a KCHK with
             | Some c => Some (negb (is_nil j) && text_eqb c (H j))
             | None => None
             end in
  let okt := match ann_vstr s a KTXT with
             | Some t => Some (text_eqb t j)
             | None => None
             end in
  match okc, okt with
  | None, None => None
  | Some x, None | None, Some x => Some x
  | Some x, Some y => Some (x && y)
  end.

End Digest.

(* the known limitation of validating a joined string: after the offsets were resolved against a
   text of another length the selected strings may differ while their joins coincide *)
Definition regrouped (d : text) (old new : list text) : bool :=
  negb (texts_eqb old new) && text_eqb (text_join d old) (text_join d new).
