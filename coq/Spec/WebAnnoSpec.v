(* What a Web Annotation export is meant to be: the JSON tree, described directly (no string
   building, no commas, no passes), and the readings of that tree the property talks about:
   the text targets (resource IRI, start, end - in order) and the data members (name, value). *)
From Coq Require Import List NArith ZArith Bool Arith String.
From Stam Require Import Model.Json Model.WebAnno.
Import ListNotations.
Local Open Scope N_scope.

(* ---------- values ---------- *)

Fixpoint value_json (v : value) : json :=
  match v with
  | VNull => JNull
  | VBool b => JBool b
  | VInt z => JNum (dec_Z z)
  | VFloat (FQ x) => JNum (float_str (FQ x))
  | VFloat (FW n m z) => JNum (float_str (FW n m z))
  | VFloat _ => JNull                      (* no JSON number: see Known_C17_nonfinite *)
  | VStr s => JStr s
  | VDate s => JStr s
  | VList l => JArr (map value_json l)
  end.

(* a string value that is an IRI is a reference (documented in output_predicate_datavalue) *)
Definition pred_json (v : value) : json :=
  match v with
  | VStr s => if is_iri s then JObj [(LIT "id", JStr s)] else JStr s
  | _ => value_json v
  end.

Definition is_main_key (k : str) : bool :=
  str_eqb k (LIT "generated") || str_eqb k (LIT "generator") || str_eqb k (LIT "motivation")
  || str_eqb k (LIT "created") || str_eqb k (LIT "creator").

(* data that is a property of the annotation itself, not of its body *)
Definition is_main (d : datum) : bool := in_anno_ns d && is_main_key (d_key d).

Definition pred_name (c : config) (d : datum) : str :=
  uri_to_namespace (c_namespaces c)
    (if in_anno_ns d then d_key d else into_iri (d_key d) (into_iri (d_set d) (c_set_iri c))).

Definition member_of (c : config) (d : datum) : str * json := (pred_name c d, pred_json (d_val d)).

Definition has_anno_key (k : str) (l : list datum) : bool :=
  existsb (fun d => in_anno_ns d && str_eqb (d_key d) k) l.

(* ---------- context ---------- *)

Definition namespaces_json (c : config) : json :=
  JObj (map (fun up => (snd up, JStr (fst up))) (c_namespaces c)).

Definition context_json (c : config) : json :=
  match c_extra_context c, c_namespaces c with
  | [], [] => JStr CONTEXT_ANNO
  | ex, [] => JArr (JStr CONTEXT_ANNO :: map JStr ex)
  | ex, _ => JArr (JStr CONTEXT_ANNO :: map JStr ex ++ [namespaces_json c])
  end.

Definition generator_json : json :=
  JObj [(LIT "id", JStr (LIT "https://github.com/annotation/stam-rust"));
        (LIT "type", JStr (LIT "Software"));
        (LIT "name", JStr (LIT "STAM Library"))].

(* ---------- targets ---------- *)

Definition res_iri (c : config) (rv : resv) : str := into_iri (r_id rv) (c_res_iri c).

(* a text target: the source/selector object, or (second form) the instantiated template *)
Definition leaf_json (st : storev) (c : config) (second : bool) (r t : nat) : option json :=
  match get_res st r with
  | None => None
  | Some rv =>
      match get_tsel rv t with
      | None => None
      | Some (b, e) =>
          if second then
            match c_template c with
            | Some tpl => Some (JStr (fill_template tpl (res_iri c rv) b e))
            | None => None
            end
          else
            Some (JObj [(LIT "source", JStr (res_iri c rv));
                        (LIT "selector",
                         JObj [(LIT "type", JStr (LIT "TextPositionSelector"));
                               (LIT "start", JNum (dec_nat b));
                               (LIT "end", JNum (dec_nat e))])])
      end
  end.

Definition annref_json (st : storev) (c : config) (a : nat) : option json :=
  match get_ann st a with
  | None => None
  | Some av =>
      match a_id av with
      | Some i => Some (JObj [(LIT "id", JStr (into_iri i (c_ann_iri c)));
                              (LIT "type", JStr (LIT "Annotation"))])
      | None => Some (JObj [(LIT "id", JNull)])      (* see Known_C17_anon_target *)
      end
  end.

Fixpoint all_some {X} (l : list (option X)) : option (list X) :=
  match l with
  | [] => Some []
  | Some x :: r => match all_some r with Some y => Some (x :: y) | None => None end
  | None :: _ => None
  end.

(* the annotation a ranged annotation selector stands for at handle a: (resource, textselection) if it carries text *)
Definition ranged_ann_text (st : storev) (with_text : bool) (a : nat) : option (option (nat * nat)) :=
  match get_ann st a with
  | None => None
  | Some av =>
      if with_text then
        match textselection_handle (a_target av), resource_handle (a_target av) with
        | Some t, Some r => Some (Some (r, t))
        | _, _ => Some None
        end
      else Some None
  end.

(* the items a selector contributes to the "items" array of the complex selector around it *)
Fixpoint items_json (st : storev) (c : config) (second : bool) (s : sel) : option (list json) :=
  let one (o : option json) := match o with Some x => Some [x] | None => None end in
  let complex (ty : str) (l : list sel) :=
    match all_some (map (items_json st c second) l) with
    | Some its => Some [JObj [(LIT "type", JStr ty); (LIT "items", JArr (List.concat its))]]
    | None => None
    end in
  match s with
  | STxt r t => one (leaf_json st c second r t)
  | SAnn _ (Some (r, t)) => one (leaf_json st c second r t)
  | SAnn a None => one (annref_json st c a)
  | SRes r =>
      match get_res st r with
      | Some rv => Some [JObj [(LIT "id", JStr (res_iri c rv)); (LIT "type", JStr (LIT "Text"))]]
      | None => None
      end
  | SSet d =>
      match get_set st d with
      | Some i => Some [JObj [(LIT "id", JStr (into_iri i (c_res_iri c))); (LIT "type", JStr (LIT "Dataset"))]]
      | None => None
      end
  | SComp l => complex (LIT "http://www.w3.org/ns/oa#Composite") l
  | SMulti l => complex (LIT "http://www.w3.org/ns/oa#Independents") l
  | SDir l => complex (LIT "http://www.w3.org/ns/oa#List") l
  | SKey | SData => Some []        (* skipped, with a warning: contributes no item *)
  | SRTxt r b e => all_some (map (fun t => leaf_json st c second r t) (seq b (S e - b)))
  | SRAnn b e wt =>
      all_some (map (fun a =>
                       match ranged_ann_text st wt a with
                       | Some (Some (r, t)) => leaf_json st c second r t
                       | Some None => annref_json st c a
                       | None => None
                       end) (seq b (S e - b)))
  end.

(* (resource, text selection) handles a selector addresses directly, in selector order;
   this is AnnotationStore::textselections_by_selector, i.e. annotation.textselections() *)
Fixpoint sel_texts (st : storev) (s : sel) : list (nat * nat) :=
  match s with
  | STxt r t => [(r, t)]
  | SAnn _ (Some (r, t)) => [(r, t)]
  | SMulti l | SComp l | SDir l => flat_map (sel_texts st) l
  | SRTxt r b e => map (fun t => (r, t)) (seq b (S e - b))
  | SRAnn b e true =>
      flat_map (fun a => match ranged_ann_text st true a with
                         | Some (Some rt) => [rt]
                         | _ => []
                         end) (seq b (S e - b))
  | _ => []
  end.

Definition is_complex (s : sel) : bool :=
  match s with SMulti _ | SComp _ | SDir _ => true | _ => false end.

Definition is_text_leaf (s : sel) : bool :=
  match s with STxt _ _ | SAnn _ (Some _) => true | _ => false end.

(* the value of "target" *)
Definition target_json (st : storev) (c : config) (s : sel) : option json :=
  match s with
  | SKey | SData | SRTxt _ _ _ | SRAnn _ _ _ => None
  | _ =>
      match items_json st c false s with
      | Some [first] =>
          if is_some (c_template c) && (is_text_leaf s || negb (is_nil (sel_texts st s))) then
            match items_json st c true s with
            | Some [second] => Some (JArr [first; second])
            | _ => None
            end
          else Some first
      | _ => None
      end
  end.

(* ---------- the annotation ---------- *)

(* the members before "target" *)
Definition pre_members (c : config) (av : annv) : list (str * json) :=
  let iri := match a_id av with Some i => Some (into_iri i (c_ann_iri c)) | None => None end in
  let mains := filter is_main (a_data av) in
  let bodyd := filter (fun d => negb (is_main d)) (a_data av) in
  [(LIT "@context", context_json c)]
  ++ (match iri with Some i => [(LIT "id", JStr i)] | None => [] end)
  ++ [(LIT "type", JStr (LIT "Annotation"))]
  ++ map (member_of c) mains
  ++ (match c_generated c with
      | Some now => if has_anno_key (LIT "generated") (a_data av) then [] else [(LIT "generated", JStr now)]
      | None => []
      end)
  ++ (if c_generator c && negb (has_anno_key (LIT "generator") (a_data av))
      then [(LIT "generator", generator_json)] else [])
  ++ (if is_nil bodyd then []
      else [(LIT "body",
             JObj ((if has_anno_key (LIT "type") bodyd then [] else [(LIT "type", JStr (LIT "Dataset"))])
                   ++ (if has_anno_key (LIT "id") bodyd then []
                       else match iri with
                            | Some i => [(LIT "id", JStr (i ++ LIT "/body"))]
                            | None => []
                            end)
                   ++ map (member_of c) bodyd))]).

Definition export_ast (st : storev) (c : config) (a : nat) : option json :=
  match get_ann st a with
  | None => None
  | Some av =>
      match target_json st c (a_target av) with
      | None => None
      | Some tj => Some (JObj (pre_members c av ++ [(LIT "target", tj)]))
      end
  end.

(* ---------- reading a Web Annotation ---------- *)

(* every source/selector object below a value, in document order: (source, start, end) *)
Fixpoint targets (j : json) : list (str * json * json) :=
  match j with
  | JObj m =>
      match member (LIT "source") m, member (LIT "selector") m with
      | Some (JStr src), Some (JObj sm) =>
          match member (LIT "start") sm, member (LIT "end") sm with
          | Some b, Some e => [(src, b, e)]
          | _, _ => []
          end
      | _, _ => flat_map (fun kv => targets (snd kv)) m
      end
  | JArr l => flat_map targets l
  | _ => []
  end.

Definition targets_of (j : json) : list (str * json * json) :=
  match j with
  | JObj m => match member (LIT "target") m with Some t => targets t | None => [] end
  | _ => []
  end.

(* what the annotation's own text selections are, as the store has them *)
Definition abs_targets (st : storev) (c : config) (s : sel) : option (list (str * json * json)) :=
  all_some (map (fun rt =>
                   match get_res st (fst rt) with
                   | Some rv =>
                       match get_tsel rv (snd rt) with
                       | Some (b, e) => Some (res_iri c rv, JNum (dec_nat b), JNum (dec_nat e))
                       | None => None
                       end
                   | None => None
                   end) (sel_texts st s)).

(* the members carrying data: those of the annotation object and of its body that are not
   structural (@context, id, type, body, target and the automatic generated/generator) *)
Definition data_members (c : config) (av : annv) : list (str * json) :=
  map (member_of c) (filter is_main (a_data av))
  ++ map (member_of c) (filter (fun d => negb (is_main d)) (a_data av)).

(* ---------- domain ---------- *)

(* no character that needs escaping inside a JSON string *)
Definition plain_char (c : N) : bool := negb ((c =? 34) || (c =? 92) || (c <? 32)).
Definition plain (s : str) : bool := forallb plain_char s.

Definition oplain (o : option str) : bool := match o with Some s => plain s | None => true end.

(* class 2: a configuration string that would need escaping (written verbatim between quotes) *)
Definition cfg_plain (c : config) : bool :=
  plain (c_ann_iri c) && plain (c_set_iri c) && plain (c_res_iri c)
  && forallb plain (c_extra_context c) && oplain (c_generated c)
  && forallb (fun up => plain (fst up) && plain (snd up)) (c_namespaces c)
  && oplain (c_template c).

(* the digits of a whole float: at least one, no leading zero *)
Definition fw_ok (mant : str) : bool :=
  match mant with
  | c :: _ => forallb is_digit mant && negb (c =? 48)
  | [] => false
  end.

(* class 1: a value without JSON representation *)
Fixpoint value_finite (v : value) : bool :=
  match v with
  | VFloat (FQ _) => true
  | VFloat (FW _ mant _) => fw_ok mant
  | VFloat _ => false
  | VList l => forallb value_finite l
  | _ => true
  end.

(* timestamps as chrono prints them never need escaping (trusted, checked on every run) *)
Fixpoint value_dates_plain (v : value) : bool :=
  match v with
  | VDate s => plain s
  | VList l => forallb value_dates_plain l
  | _ => true
  end.

(* class 5: a target annotation without public identifier *)
Definition ann_has_id (st : storev) (a : nat) : bool :=
  match get_ann st a with Some av => is_some (a_id av) | None => false end.

Fixpoint targets_named (st : storev) (s : sel) : bool :=
  match s with
  | SAnn a None => ann_has_id st a
  | SMulti l | SComp l | SDir l => forallb (targets_named st) l
  | SRAnn b e wt =>
      forallb (fun a => match ranged_ann_text st wt a with
                        | Some None => ann_has_id st a
                        | _ => true
                        end) (seq b (S e - b))
  | _ => true
  end.

(* the exporter takes the annotation: it does not return the empty string *)
Definition accepted (av : annv) : bool :=
  match a_target av with SKey | SData => false | _ => true end.

Definition value_ok (d : datum) : bool := value_finite (d_val d) && value_dates_plain (d_val d).

(* ---------- classes of known findings (inputs on which the code as it is fails the property) ---------- *)

Definition Known_C17_nonfinite (av : annv) : bool :=
  negb (forallb (fun d => value_finite (d_val d)) (a_data av)).
Definition Known_C17_config_chars (c : config) : bool := negb (cfg_plain c).
Definition Known_C17_anonymous_target (st : storev) (av : annv) : bool :=
  negb (targets_named st (a_target av)).
(* Known_C17_duplicate_names is about the tree as a JSON reader sees it: see has_dup_keys below *)

(* ---------- a JSON tree as a consumer sees it ---------- *)

Fixpoint str_ltb (a b : str) : bool :=
  match a, b with
  | [], [] => false
  | [], _ :: _ => true
  | _ :: _, [] => false
  | x :: a', y :: b' => (x <? y)%N || ((x =? y)%N && str_ltb a' b')
  end.

(* members sorted by name; per name the values in document order *)
Fixpoint ins_member (k : str) (v : json) (m : list (str * list json)) : list (str * list json) :=
  match m with
  | [] => [(k, [v])]
  | (k', vs) :: r =>
      if str_eqb k k' then (k', vs ++ [v]) :: r
      else if str_ltb k k' then (k, [v]) :: m
      else (k', vs) :: ins_member k v r
  end.

Definition group_members (m : list (str * json)) : list (str * list json) :=
  fold_left (fun acc kv => ins_member (fst kv) (snd kv) acc) m [].

(* grouped = false: the last of several members with one name wins (serde_json, and most readers);
   grouped = true: several values of one name are one array (what JSON-LD wants) *)
Fixpoint norm (grouped : bool) (j : json) : json :=
  match j with
  | JArr l => JArr (map (norm grouped) l)
  | JObj m =>
      JObj (map (fun kvs =>
                   (fst kvs,
                    match snd kvs with
                    | [v] => v
                    | vs => if grouped then JArr vs else last vs JNull
                    end))
                (group_members (map (fun kv => (fst kv, norm grouped (snd kv))) m)))
  | _ => j
  end.

Fixpoint has_dup_keys (j : json) : bool :=
  match j with
  | JArr l => existsb has_dup_keys l
  | JObj m =>
      existsb (fun kv => has_dup_keys (snd kv)) m
      || existsb (fun kvs => match snd kvs with [_] => false | _ => true end) (group_members m)
  | _ => false
  end.

Definition Known_C17_duplicate_names (st : storev) (c : config) (a : nat) : bool :=
  match export_ast st c a with Some j => has_dup_keys j | None => false end.
