(* What loading is meant to do, stated without following the control flow of the code.

   - A cursor string is an optional sign followed by at least one decimal digit; the value
     must fit the machine type; '-' selects an end-aligned cursor (value <= 0).
   - A temporary identifier is '!', one ASCII capital letter, then a decimal usize.
   - In an array of annotations / data items, an item with a temporary identifier !Xh is
     stored at handle h exactly, every other item directly after its predecessor; an
     identifier that points before the next free handle is an error; so is a gap that the
     allocator cannot provide.  Loading never panics or aborts.
   - Memory: the slots allocated because of identifiers stay within what the document itself
     could fill (linear in the document). *)
From Coq Require Import List NArith ZArith Bool Arith.
Import ListNotations.
From Stam Require Import Model.Loader.
Local Open Scope N_scope.

Definition is_digit (c : N) : bool := (48 <=? c) && (c <=? 57).

(* value of a digit string, no bound *)
Definition eval_digits (s : str) : N := fold_left (fun a c => a * 10 + (c - 48)) s 0.

Definition spec_digits (max : N) (s : str) : option N :=
  match s with
  | [] => None
  | _ => if forallb is_digit s && (eval_digits s <=? max) then Some (eval_digits s) else None
  end.

Definition spec_usize (s : str) : option N :=
  match s with
  | 43 :: r => spec_digits usize_max r
  | _ => spec_digits usize_max s
  end.

Definition spec_cursor (s : str) : outcome cursor :=
  match s with
  | 45 :: r =>
      match spec_digits isize_min_abs r with
      | Some n => Ok (CEnd (- Z.of_N n))
      | None => Err
      end
  | _ => match spec_usize s with Some n => Ok (CBegin n) | None => Err end
  end.

Definition ascii_upper (c : N) : bool := (65 <=? c) && (c <=? 90).

Definition spec_temp_id (s : str) : option N :=
  match s with
  | 33 :: x :: rest => if ascii_upper x then spec_usize rest else None
  | _ => None
  end.

(* one array, items given as (temporary handle if any, does the item build); [next] is the
   next free handle.  Result: the handles of the items, or None for an error. *)
Fixpoint spec_place (cap pre next : N) (l : list (option N * bool)) : option (list N) :=
  match l with
  | [] => Some []
  | (t, b) :: l' =>
      let at_ := match t with
                 | Some h => if N.min usize_max (h + pre) <? next then None
                             else if next <? h then (if cap <=? h then None else Some h)
                             else Some next
                 | None => Some next
                 end in
      match at_ with
      | None => None
      | Some p => if b then option_map (cons p) (spec_place cap pre (p + 1) l') else None
      end
  end.

Definition next_after (next : N) (ps : list N) : N :=
  match ps with [] => next | _ => last ps 0 + 1 end.

(* several arrays read one after the other into the same store: pre_length of an array is
   the next free handle when it starts *)
Fixpoint spec_doc (cap next : N) (d : list (list (option N * bool))) : option (list N) :=
  match d with
  | [] => Some []
  | l :: d' =>
      match spec_place cap next next l with
      | None => None
      | Some ps => option_map (app ps) (spec_doc cap (next_after next ps) d')
      end
  end.

(* the document can justify at most this many slots *)
Definition justified (pre : N) (n : nat) : N := pre + N.of_nat n.

(* known class: an identifier asks for more slots than the document could fill *)
Definition Known_C19_alloc (pre : N) (d : list (list (option N * bool))) : bool :=
  existsb (fun tb => match fst tb with Some h => justified pre (List.length (concat d)) <? h | None => false end)
          (concat d).

(* what to_csv writes for an annotation with one data item and a simple selector
   (AnnotationCsv::set_selectortype, set_targetresource, ... in src/csv.rs) *)
Definition row_of_simple (id data set : str) (b : sbuild) : csvrow :=
  let blank := {| c_id := id; c_data := data; c_set := set; c_kind := []; c_res := []; c_ann := [];
                  c_dset := []; c_begin := []; c_end := []; c_key := []; c_tdata := [] |} in
  let with_kind k r := {| c_id := c_id r; c_data := c_data r; c_set := c_set r; c_kind := str_of_kind k;
                          c_res := c_res r; c_ann := c_ann r; c_dset := c_dset r; c_begin := c_begin r;
                          c_end := c_end r; c_key := c_key r; c_tdata := c_tdata r |} in
  match b with
  | BText r cb ce => {| c_id := id; c_data := data; c_set := set; c_kind := str_of_kind KText; c_res := r;
                        c_ann := []; c_dset := []; c_begin := str_of_cursor cb; c_end := str_of_cursor ce;
                        c_key := []; c_tdata := [] |}
  | BAnn a None => {| c_id := id; c_data := data; c_set := set; c_kind := str_of_kind KAnnotation; c_res := [];
                      c_ann := a; c_dset := []; c_begin := []; c_end := []; c_key := []; c_tdata := [] |}
  | BAnn a (Some (cb, ce)) =>
      {| c_id := id; c_data := data; c_set := set; c_kind := str_of_kind KAnnotation; c_res := [];
         c_ann := a; c_dset := []; c_begin := str_of_cursor cb; c_end := str_of_cursor ce;
         c_key := []; c_tdata := [] |}
  | BRes r => with_kind KResource {| c_id := id; c_data := data; c_set := set; c_kind := []; c_res := r; c_ann := [];
                  c_dset := []; c_begin := []; c_end := []; c_key := []; c_tdata := [] |}
  | BSet s => with_kind KDataSet {| c_id := id; c_data := data; c_set := set; c_kind := []; c_res := []; c_ann := [];
                  c_dset := s; c_begin := []; c_end := []; c_key := []; c_tdata := [] |}
  | BKey s k => with_kind KDataKey {| c_id := id; c_data := data; c_set := set; c_kind := []; c_res := []; c_ann := [];
                  c_dset := s; c_begin := []; c_end := []; c_key := k; c_tdata := [] |}
  | BDat s d => with_kind KData {| c_id := id; c_data := data; c_set := set; c_kind := []; c_res := []; c_ann := [];
                  c_dset := s; c_begin := []; c_end := []; c_key := []; c_tdata := d |}
  | BComplex _ _ => blank
  end.

(* a set defined twice: every data item of either definition is in the merged set under the
   key it was declared with; where both define an id the first definition counts *)
Definition spec_merged (a b : dsdef) (i k : N) : Prop :=
  In (i, k) (ds_data a) \/ (has_id i (ds_data a) = false /\ In (i, k) (ds_data b)).
