(* C02: what a removal must do, computed on the state BEFORE the removal by scans only. *)
From Coq Require Import List Arith Bool ZArith.
Import ListNotations.
From Stam Require Import Model.Offset Model.Store Spec.StoreSpec.

Record effect := mkeff {
  e_exists : bool;                 (* the request names an existing item: the call must succeed *)
  e_anns : list nat;               (* annotations that must go *)
  e_res : list nat; e_sets : list nat;
  e_keys : list (nat * nat); e_data : list (nat * nat)   (* (set, key) / (set, data) that must go *)
}.
Definition no_effect : effect := mkeff false [] [] [] [] [].

(* the live item a request names, by scan *)
Definition find_live {X} (l : list (option X)) (idof : X -> option nat) (r : iref) : option nat :=
  match r with
  | ById tok => hd_error (s_resolve l idof tok)
  | ByHandle h => match slot l h with Some _ => Some h | None => None end
  end.

Definition data_of_key (ds : dset) (k : nat) : list nat := s_key_data ds k.

Definition spec_effect (s : store) (o : op) : effect :=
  match o with
  | RmAnn r =>
      match find_live (anns s) a_id r with
      | Some h => mkeff true (deps_ann s h) [] [] [] []
      | None => no_effect
      end
  | RmRes r =>
      match find_live (ress s) (fun x => Some (r_id x)) r with
      | Some h => mkeff true (deps_res s h) [h] [] [] []
      | None => no_effect
      end
  | RmSet r =>
      match find_live (sets s) (fun x => Some (d_id x)) r with
      | Some h => mkeff true (deps_set s h) [] [h] [] []
      | None => no_effect
      end
  | RmData dr xr strict =>
      match find_live (sets s) (fun x => Some (d_id x)) dr with
      | Some d =>
          match get_set s d with
          | Some ds =>
              match find_live (d_data ds) x_id xr with
              | Some x => mkeff true (deps_data s d x strict) [] [] [] [(d, x)]
              | None => no_effect
              end
          | None => no_effect
          end
      | None => no_effect
      end
  | RmKey dr kr strict =>
      match find_live (sets s) (fun x => Some (d_id x)) dr with
      | Some d =>
          match get_set s d with
          | Some ds =>
              match find_live (d_keys ds) (fun tok => Some tok) kr with
              | Some k => mkeff true (deps_key s ds d k strict) [] [] [(d, k)]
                                (map (fun x => (d, x)) (data_of_key ds k))
              | None => no_effect
              end
          | None => no_effect
          end
      | None => no_effect
      end
  | _ => no_effect
  end.

Definition mem_pair (p : nat * nat) (l : list (nat * nat)) : bool := existsb (pair_eqb p) l.
Definition memn (x : nat) (l : list nat) : bool := existsb (Nat.eqb x) l.

(* the data list an annotation keeps *)
Definition keep_data (e : effect) (a : ann) : list (nat * nat) :=
  filter (fun dx => negb (mem_pair dx (e_data e))) (a_data a).
