(* What C16 demands of a transposition, written against the texts only (no reference to how
   transpose() works): a transposition links sides whose corresponding fragments have identical
   text; transposing a source over it yields a new transposition with one side per side of the
   old one, whose source side is the source cut into consecutive pieces (in order) and whose other
   sides select, piece by piece, identical text inside the resources of the corresponding old
   side; a source with a codepoint outside every fragment of the source side cannot succeed. *)
From Coq Require Import List Arith Bool NArith.
Import ListNotations.
From Stam Require Import Model.Transpose.

Definition text := list N.

(* the codepoints b..e of a text *)
Definition sub (t : text) (b e : nat) : text := firstn (e - b) (skipn b t).

Fixpoint text_eqb (a b : text) : bool :=
  match a, b with
  | [], [] => true
  | x :: a', y :: b' => N.eqb x y && text_eqb a' b'
  | _, _ => false
  end.

Definition text_of (T : list text) (i : nat) : text := nth i T [].
Definition subf (T : list text) (f : frag) : text := sub (text_of T (fres f)) (fb f) (fe f).

(* a selection the store can hold: the resource exists, begin <= end <= length of the text *)
Definition in_range (T : list text) (f : frag) : bool :=
  (fres f <? length T) && (fb f <=? fe f) && (fe f <=? length (text_of T (fres f))).

Fixpoint forallb2 {X Y} (p : X -> Y -> bool) (l : list X) (m : list Y) : bool :=
  match l, m with
  | [], [] => true
  | x :: l', y :: m' => p x y && forallb2 p l' m'
  | _, _ => false
  end.

Definition same_text (T : list text) (f g : frag) : bool := text_eqb (subf T f) (subf T g).

(* WfTransp: at least one side, all sides have as many fragments as the first, every fragment is a
   selection of its text, corresponding fragments have identical text *)
Definition wf_transp (T : list text) (V : list side) : bool :=
  match V with
  | [] => false
  | v0 :: _ =>
      forallb (fun sd => forallb (in_range T) sd && forallb2 (same_text T) sd v0) V
  end.

Definition wf_src (T : list text) (r : nat) (src : list (nat * nat)) : bool :=
  negb (match src with [] => true | _ => false end)
  && forallb (fun p => in_range T (mkfrag r (fst p) (snd p))) src.

(* the inputs the property speaks about; the sides of a simple transposition are single text selections *)
Definition wf_input (T : list text) (complex : bool) (V : list side) (r : nat) (src : list (nat * nat)) : bool :=
  wf_transp T V && wf_src T r src && (complex || forallb (fun sd => Nat.eqb (length sd) 1) V).

(* every codepoint of the source lies in a fragment (in resource r) of the side *)
Definition covered (sd : side) (r : nat) (src : list (nat * nat)) : bool :=
  forallb (fun p =>
    forallb (fun x => existsb (fun f => Nat.eqb (fres f) r && (fb f <=? x) && (x <? fe f)) sd)
            (seq (fst p) (snd p - fst p))) src.

(* consecutive pieces from x up to b; returns the pieces that are left *)
Fixpoint take_chain (x b : nat) (ps : list (nat * nat)) : option (list (nat * nat)) :=
  match ps with
  | [] => None
  | p :: ps' =>
      if Nat.eqb (fst p) x && (fst p <=? snd p) && (snd p <=? b) then
        if Nat.eqb (snd p) b then Some ps' else take_chain (snd p) b ps'
      else None
  end.

(* ps is src with every range cut into one or more consecutive pieces, order kept *)
Fixpoint is_reseg (src ps : list (nat * nat)) : bool :=
  match src with
  | [] => match ps with [] => true | _ => false end
  | p :: src' =>
      match take_chain (fst p) (snd p) ps with
      | Some rest => is_reseg src' rest
      | None => false
      end
  end.

(* the sides of the new transposition as observed: (flag, selections); flag 0 = a target side,
   1 = the source side is the source annotation itself, 2 = it is a new annotation *)
Definition oside := (nat * list frag)%type.

Fixpoint find_flag (i : nat) (O : list oside) : option nat :=
  match O with
  | [] => None
  | (fl, _) :: O' => if Nat.eqb fl 0 then find_flag (S i) O' else Some i
  end.

Definition count_flags (O : list oside) : nat :=
  length (filter (fun o => negb (Nat.eqb (fst o) 0)) O).

(* a result of the model as such an observation *)
Definition flagged (res : result) : list oside :=
  map (fun i => ((if Nat.eqb i (r_side res) then (if r_newsrc res then 2 else 1) else 0),
                 nth i (r_sides res) []))
      (seq 0 (length (r_sides res))).

(* a target side: as many pieces as the source side; piece k is a selection of a resource the old
   side lies in and has the text of piece k of the source side *)
Definition target_ok (T : list text) (vj : side) (oj os : list frag) : bool :=
  forallb2 (fun g p => in_range T g && existsb (fun f => Nat.eqb (fres f) (fres g)) vj && same_text T g p)
           oj os.

Definition check_forward (T : list text) (V : list side) (r : nat) (src : list (nat * nat))
           (cfg : option nat) (O : list oside) : bool :=
  match find_flag 0 O with
  | None => false
  | Some s =>
      let os := snd (nth s O (0, [])) in
      Nat.eqb (count_flags O) 1
      && Nat.eqb (length O) (length V)
      && (match cfg with Some i => Nat.eqb i s | None => true end)
      && forallb (fun f => Nat.eqb (fres f) r && in_range T f) os
      && is_reseg src (map rng os)
      && covered (nth s V []) r src
      && forallb (fun j => Nat.eqb j s || target_ok T (nth j V []) (snd (nth j O (0, []))) os)
                 (seq 0 (length O))
  end.

(* the new transposition is again one: WfTransp of its sides *)
Definition new_transposition_wf (T : list text) (O : list oside) : bool :=
  wf_transp T (map snd O).

(** transposing back *)

(* ranges that do not touch each other as TextSelection::intersection sees it *)
Definition apart (f g : frag) : bool :=
  negb (Nat.eqb (fres f) (fres g))
  || (if Nat.eqb (fb f) (fe f) || Nat.eqb (fb g) (fe g)
      then (fe f <? fb g) || (fe g <? fb f)
      else (fe f <=? fb g) || (fe g <=? fb f)).

Fixpoint pairwise_apart (l : list frag) : bool :=
  match l with
  | [] => true
  | f :: l' => forallb (apart f) l' && pairwise_apart l'
  end.

Definition single_res (l : list frag) : bool :=
  match l with [] => false | f :: _ => forallb (fun g => Nat.eqb (fres g) (fres f)) l end.

(* no other side has a fragment in the resource of side j *)
Definition only_side_in_res (O : list (list frag)) (j : nat) : bool :=
  match nth j O [] with
  | [] => false
  | f :: _ =>
      forallb (fun i => Nat.eqb i j || forallb (fun g => negb (Nat.eqb (fres g) (fres f))) (nth i O []))
              (seq 0 (length O))
  end.

(* what transposing side j of the new transposition back over it must give: the same offsets on
   every side, side j being the source (the annotation itself) *)
Definition expected_back (O : list (list frag)) (j : nat) : list oside :=
  map (fun i => ((if Nat.eqb i j then 1 else 0), nth i O [])) (seq 0 (length O)).
