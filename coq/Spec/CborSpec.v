(* C11, specification side.

   What "a CBOR round trip preserves the store" means at the level of the wire schema:
   - [reload S t v]: the value a load of the saved [v] must produce: [v] itself except that
     `#[cbor(skip)]` fields hold their Default and fields with a constant codec hold the constant
     (this is [erase]); for a value that already has these defaults ([at_rest]) it is [v];
   - [allowed_erased]: the only state of the crate that may be lost this way, i.e. is not stored
     and must not be observable through the lookup/search/query API: the three `changed` flags
     ("modified since the last save"; a store that was just loaded is unmodified) and
     Config::serialize_mode (transient flag of the JSON serialiser, AllowInclude at rest);
   - [reencode]: file bytes -> tokens -> value under the schema -> tokens -> bytes; the file
     written by the library must be a fixpoint (it is then in the image of the modelled encoder,
     and the round-trip theorem applies to exactly this file);
   - well-formedness of the byte stream as CBOR (Model.Cbor.wellformed_items). *)
From Coq Require Import String.
From Coq Require Import List Arith ZArith NArith Bool.
Import ListNotations.
From Stam Require Import Model.Cbor.
Local Open Scope string_scope.

(* The body of a struct / variant, said without the control flow of the generated code: an array
   with one slot per index up to the highest index of a non-nil field; slot i holds the field
   whose index is i, or null when there is none; [] when every field is nil.
   (Proofs.Cbor.enc_rec_is_spec: the derive's sorted fields + max test + gap filling writes
   exactly this when the indices are unique.) *)
(* highest index of a non-skipped field whose value is not nil *)
Fixpoint max_idx (fs : list field) (nils : list bool) : option nat :=
  match fs, nils with
  | f :: fr, b :: br =>
      let m := max_idx fr br in
      match f_idx f with
      | Some i => if b then m else match m with Some j => Some (Nat.max i j) | None => Some i end
      | None => m
      end
  | _, _ => None
  end.

Definition enc_slot (fs : list field) (encs : list (list tok)) (i : nat) : list tok :=
  match find_fld fs i with
  | Some (p, _) => nth p encs []
  | None => [TNull]
  end.

Definition enc_rec_spec (fs : list field) (encs : list (list tok)) (nils : list bool) : list tok :=
  match max_idx fs nils with
  | None => [TArr 0]
  | Some m => TArr (S m) :: flat_map (enc_slot fs encs) (seq 0 (S m))
  end.


Definition reload (S : schema) (t : ty) (v : value) : value := erase S t v.

Definition allowed_erased : list (ident * ident) := Eval vm_compute in
  [ (i_ "AnnotationStore", i_ "changed"); (i_ "TextResource", i_ "changed");
    (i_ "AnnotationDataSet", i_ "changed"); (i_ "Config", i_ "serialize_mode") ].

Definition pair_eqb (a b : ident * ident) : bool :=
  ident_eqb (fst a) (fst b) && ident_eqb (snd a) (snd b).

Definition only_allowed_erased (S : schema) : bool :=
  forallb (fun e => existsb (pair_eqb e) allowed_erased) (erased_fields S).

(* every custom codec pair used by the schema is in the table of pairs whose wire behaviour was
   read off cbor.rs and proved to round trip *)
Definition codecs_known (S : schema) : bool :=
  forallb (fun p => match lookup_codec (fst p) (snd p) with Some _ => true | None => false end)
          (codecs_used S).

Definition reencode (S : schema) (t : ty) (bs : list N) : option (list N) :=
  match toks_of_bytes (length bs) bs with
  | None => None
  | Some ts =>
      match dec S (Datatypes.S (length ts)) t ts with
      | Some (v, []) => Some (bytes_of_toks (enc S t v))
      | _ => None
      end
  end.

(* a value whose erasable parts already hold what a reload puts there *)
Definition at_rest (S : schema) (t : ty) (v : value) : Prop := erase S t v = v.

(* tokens that can be written at all: arguments fit in 64 bits, text payloads are bytes *)
Definition tok_ok (t : tok) : bool :=
  match t with
  | TUInt n | TNInt n | TF64 n => N.ltb n two64
  | TText s => N.ltb (N.of_nat (length s)) two64 && forallb (fun b => N.ltb b 256) s
  | TArr n | TMap n => N.ltb (N.of_nat n) two64
  | TNull | TBool _ => true
  end.

(* the file of a value, and loading a file: what to_cbor_file / from_cbor_file do, at byte level *)
Definition save_bytes (S : schema) (t : ty) (v : value) : list N := bytes_of_toks (enc S t v).
Definition load_bytes (S : schema) (t : ty) (bs : list N) : option value :=
  match toks_of_bytes (length bs) bs with
  | None => None
  | Some ts =>
      match dec S (Datatypes.S (length ts)) t ts with
      | Some (v, _) => Some v     (* minicbor::decode does not look at trailing bytes *)
      | None => None
      end
  end.
