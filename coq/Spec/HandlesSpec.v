(* What Handles promises: set union without duplicates / set intersection,
   order retained, and membership answers that are correct afterwards. *)
From Coq Require Import List Arith Bool.
Import ListNotations.
From Stam Require Import Model.Handles.

Definition spec_union_list (A B : list nat) : list nat :=
  A ++ filter (fun x => negb (mem x A)) B.

Definition spec_inter_list (A B : list nat) : list nat :=
  filter (fun x => mem x B) A.
