(* Documented meaning of the relation tests (src/textselection.rs, doc comments
   of TextSelectionOperator), written with interval arithmetic and min/max,
   independently of the control flow of the implementation. *)
From Coq Require Import List Arith Bool.
Import ListNotations.
From Stam Require Import Model.Rel.

Section WithText.
  Variable ws : list bool.

  Definition embeds_b (s r : ts) : bool := (tb s <=? tb r) && (te r <=? te s).

  Definition within (x : nat) (lim : option nat) : bool :=
    match lim with Some n => x <=? n | None => true end.

  (* gap between two positions is empty or only whitespace *)
  Definition adjacent (allow_ws : bool) (x y : nat) : bool :=
    if allow_ws then (x <=? y) && (Nat.eqb x y || gap_ws ws x y) else Nat.eqb x y.

  Definition spec_pos_pair (o : op) (s r : ts) : bool :=
    match orel o with
    | Equals | InSet => ts_eqb s r
    | Overlaps => (Nat.max (tb s) (tb r) <? Nat.min (te s) (te r)) || embeds_b s r || embeds_b r s
    | Embeds => embeds_b s r
    | Embedded => embeds_b r s && within (tb s - tb r) (olim o) && within (te r - te s) (olim o)
    | Before => (te s <=? tb r) && within (tb r - te s) (olim o)
    | After => (te r <=? tb s) && within (tb s - te r) (olim o)
    | Precedes => adjacent (ows o) (te s) (tb r)
    | Succeeds => adjacent (ows o) (te r) (tb s)
    | SameBegin => Nat.eqb (tb s) (tb r)
    | SameEnd => Nat.eqb (te s) (te r)
    | SameRange => Nat.eqb (tb s) (tb r) && Nat.eqb (te s) (te r)
    end.

  Definition spec_pair (o : op) (s r : ts) : bool :=
    xorb (oneg o) (spec_pos_pair o s r).

  Definition minl (x : nat) (l : list nat) : nat := fold_right Nat.min x l.
  Definition maxl (x : nat) (l : list nat) : nat := fold_right Nat.max x l.
  Definition min_begin (l : list ts) : option nat :=
    match l with [] => None | x :: l' => Some (minl (tb x) (map tb l')) end.
  Definition max_end (l : list ts) : option nat :=
    match l with [] => None | x :: l' => Some (maxl (te x) (map te l')) end.

  (* a single selection against a set B *)
  Definition spec_pos_ts_set (o : op) (s : ts) (B : list ts) : bool :=
    match orel o, oall o with
    | SameRange, _ =>
        match min_begin B, max_end B with
        | Some lb, Some re => Nat.eqb (tb s) lb && Nat.eqb (te s) re
        | _, _ => false
        end
    | _, false => existsb (spec_pos_pair o s) B
    | (Equals | InSet | Overlaps | Embeds | Embedded | Before | After), true =>
        negb (is_nil B) && forallb (spec_pos_pair o s) B
    | Precedes, true =>
        match min_begin B with Some lb => adjacent (ows o) (te s) lb | None => false end
    | Succeeds, true =>
        match max_end B with Some re => adjacent (ows o) re (tb s) | None => false end
    | SameBegin, true =>
        match min_begin B with Some lb => Nat.eqb (tb s) lb | None => false end
    | SameEnd, true =>
        match max_end B with Some re => Nat.eqb (te s) re | None => false end
    end.

  Definition spec_ts_set (o : op) (s : ts) (B : list ts) : bool :=
    xorb (oneg o) (spec_pos_ts_set o s B).

  (* the selection of A that stands for the whole set under an all-variant:
     any member with the extreme begin / end *)
  Definition spec_pos_set_set (o : op) (A B : list ts) : bool :=
    match orel o, oall o with
    | SameRange, _ =>
        match min_begin A, max_end A, min_begin B, max_end B with
        | Some la, Some ra, Some lb, Some rb => Nat.eqb la lb && Nat.eqb ra rb
        | _, _, _, _ => false
        end
    | Equals, false =>
        Nat.eqb (length A) (length B) && forallb (fun a => spec_pos_ts_set o a B) A
    | _, false => forallb (fun a => spec_pos_ts_set o a B) A
    | (Equals | InSet | Overlaps | Embeds | Embedded), true =>
        forallb (fun a => spec_pos_ts_set o a B) A
    | (Precedes | Before | SameEnd), true =>
        (* decided by the maximal end of A *)
        match max_end A with
        | Some m => spec_pos_ts_set o (mkts None 0 m) B
        | None => false
        end
    | (Succeeds | After | SameBegin), true =>
        match min_begin A with
        | Some m => spec_pos_ts_set o (mkts None m m) B
        | None => false
        end
    end.

  (* the empty left operand never matches, negated or not *)
  Definition spec_set_set (o : op) (A B : list ts) : bool :=
    negb (is_nil A) && xorb (oneg o) (spec_pos_set_set o A B).

  (* a set against one selection: as against the singleton set, except that
     Equals does not compare cardinalities (a set may list a selection twice) *)
  Definition spec_pos_set_ts (o : op) (A : list ts) (r : ts) : bool :=
    match orel o, oall o with
    | Equals, false => forallb (fun a => spec_pos_pair o a r) A
    | _, _ => spec_pos_set_set o A [r]
    end.
  Definition spec_set_ts (o : op) (A : list ts) (r : ts) : bool :=
    negb (is_nil A) && xorb (oneg o) (spec_pos_set_ts o A r).

End WithText.
