(* What the STAM JSON round trip has to preserve, independent of how the serialiser and the
   loader work.

   Two stores are the same model ([same_model]) when they show the same canonical
   observation: the same live resources with their texts (and stand-off file names), the
   same datasets with their keys in order and their data items (name, key, typed value) in
   order, the same annotations in order, each with the same name, the same data references and
   the same target: kind, the referenced items by name, the offsets as the library reports
   them in the alignment the selector was made with, and the absolute ranges selected.
   A name is the public identifier, or the temporary identifier of the handle for an item
   without one.  Handles themselves are not part of the model: removed slots need not
   survive, except where a temporary identifier names them.

   [wf_dstore] is the class of stores the round-trip theorem is stated for.  Every condition
   is a property of stores built through the public API (no dangling references, an
   annotation only refers to earlier annotations, ranges inside their text and inside the
   parent's range, unique identifiers) or a documented reservation (an identifier starting
   with '!' is the syntax of temporary identifiers), or a size bound (handles fit the
   integer width of their handle type). *)
From Coq Require Import String Ascii.
From Coq Require Import List NArith ZArith Bool Arith.
From Stam Require Import Model.Offset Model.Json Model.TempId Model.StamJson.
Import ListNotations.

Definition same_model (s s' : dstore) : Prop :=
  exists c, canon s = Some c /\ canon s' = Some c.

(* the round trip demanded of the pair (writer, loader) *)
Definition roundtrip_ok (s : dstore) : Prop :=
  exists d s', encode s = Some d /\ decode d = Some s' /\ same_model s s' /\ encode s' = Some d.

(** ** well-formed stores *)

Definition reserved (id : str) : bool := match id with c :: _ => N.eqb c 33 | [] => false end.

Fixpoint str_in (x : str) (l : list str) : bool :=
  match l with [] => false | y :: l' => str_eqb y x || str_in x l' end.
Fixpoint str_nodup (l : list str) : bool :=
  match l with [] => true | x :: l' => negb (str_in x l') && str_nodup l' end.

Definition opt_list {X} (o : option X) : list X := match o with Some x => [x] | None => [] end.

Definition ids_ok (l : list str) : bool := str_nodup l && forallb (fun i => negb (reserved i)) l.

Definition is_live {X} (l : list (option X)) (h : nat) : bool :=
  match slot l h with Some _ => true | None => false end.

Definition LIMIT32 : N := 4294967296.
Definition LIMIT16 : N := 65536.
Definition fits (n : nat) (lim : N) : bool := N.leb (N.of_nat n) lim.

Definition wf_set (ds : dset) : bool :=
  ids_ok (flat_map opt_list (js_keys ds))
  && ids_ok (flat_map (fun o => match o with Some it => opt_list (jx_id it) | None => [] end) (js_data ds))
  && forallb (fun o => match o with Some it => is_live (js_keys ds) (jx_key it) | None => true end) (js_data ds)
  && fits (length (js_keys ds)) LIMIT16 && fits (length (js_data ds)) LIMIT32.

Definition data_live (s : dstore) (d x : nat) : bool :=
  match slot (st_sets s) d with Some ds => is_live (js_data ds) x | None => false end.
Definition key_live (s : dstore) (d k : nat) : bool :=
  match slot (st_sets s) d with Some ds => is_live (js_keys ds) k | None => false end.

Definition wf_leaf (s : dstore) (h : nat) (lf : dleaf) : bool :=
  match lf with
  | DText r b e _ =>
      match slot (st_ress s) r with
      | Some rs => (b <=? e) && (e <=? length (jr_text rs))
      | None => false
      end
  | DAnn a => (a <? h) && is_live (st_anns s) a
  | DAnnText a r b e _ =>
      (a <? h) && is_live (st_ress s) r &&
      match ann_range s a with
      | Some (r', pb, pe) => Nat.eqb r r' && (pb <=? b) && (b <=? e) && (e <=? pe)
      | None => false
      end
  | DRes r => is_live (st_ress s) r
  | DSet d => is_live (st_sets s) d
  | DKey d k => key_live s d k
  | DData d x => data_live s d x
  end.

Definition wf_ann (s : dstore) (h : nat) (a : dann) : bool :=
  forallb (fun p => data_live s (fst p) (snd p)) (ja_data a)
  && forallb (wf_leaf s h) (ja_leaves a)
  && match ja_kind a with
     | 0 => match ja_leaves a with [_] => true | _ => false end
     | 1 | 2 | 3 => true
     | _ => false
     end.

Definition file_names (s : dstore) : list str :=
  flat_map (fun o => match o with Some r => opt_list (jr_file r) | None => [] end) (st_ress s)
  ++ flat_map (fun o => match o with Some d => opt_list (js_file d) | None => [] end) (st_sets s).

Definition wf_dstore (s : dstore) : bool :=
  ids_ok (map (fun p => jr_id (snd p)) (live (st_ress s)))
  && ids_ok (map (fun p => js_id (snd p)) (live (st_sets s)))
  && ids_ok (flat_map (fun p => opt_list (ja_id (snd p))) (live (st_anns s)))
  && forallb (fun p => wf_set (snd p)) (live (st_sets s))
  && forallb (fun p => wf_ann s (fst p) (snd p)) (live (st_anns s))
  && str_nodup (file_names s)
  && fits (length (st_anns s)) LIMIT32 && fits (length (st_ress s)) LIMIT32
  && fits (length (st_sets s)) LIMIT16.

(* some public identifier uses the reserved syntax *)
Definition has_reserved_id (s : dstore) : bool :=
  existsb reserved (map (fun p => jr_id (snd p)) (live (st_ress s)))
  || existsb reserved (map (fun p => js_id (snd p)) (live (st_sets s)))
  || existsb reserved (flat_map (fun p => opt_list (ja_id (snd p))) (live (st_anns s)))
  || existsb (fun p => existsb reserved (flat_map opt_list (js_keys (snd p)))
                       || existsb reserved (flat_map (fun o => match o with Some it => opt_list (jx_id it) | None => [] end)
                                                     (js_data (snd p))))
             (live (st_sets s)).
