(* C03, documented meaning of a lookup by string: the live item whose public id is that
   string; a temporary id "!<Letter><number>" names the live item of that kind with that
   handle.  Scans only. *)
From Coq Require Import List NArith Bool Arith.
Import ListNotations.
From Stam Require Import Model.Offset Model.Store Model.TempId Spec.StoreSpec.

(* numeric value of a decimal numeral (optionally signed with '+'), by Horner's rule *)
Definition numeral_value (s : list N) : option N :=
  let body := match s with 43%N :: r => r | _ => s end in
  match body with
  | [] => None
  | _ => if forallb is_digit body
         then Some (fold_left (fun acc c => (acc * 10 + (c - 48))%N) body 0%N)
         else None
  end.

Definition spec_lookup_str {X} (k : kind) (l : list (option X)) (idof : X -> option nat) (s : list N) : list nat :=
  let plain := match plain_token k s with
               | Some tok => s_resolve l idof (N.to_nat tok)
               | None => []
               end in
  match s with
  | c0 :: c :: rest =>
      if N.eqb c0 33 then                       (* '!' *)
        if N.eqb c (letter k) then
          match numeral_value rest with
          | Some n => if N.ltb n (N.of_nat (length l))
                      then (match slot l (N.to_nat n) with Some _ => [N.to_nat n] | None => [] end)
                      else []
          | None => plain        (* not a temporary id after all: an ordinary identifier *)
          end
        else plain
      else plain
  | _ => plain
  end.

Definition spec_lookup_plain {X} (k : kind) (l : list (option X)) (idof : X -> option nat) (s : list N) : list nat :=
  match plain_token k s with
  | Some tok => s_resolve l idof (N.to_nat tok)
  | None => []
  end.
