(* What an offset denotes (STAM specification): a begin-aligned cursor n is
   position n; an end-aligned cursor z <= 0 is position len + z.  An offset is
   acceptable iff 0 <= begin <= end <= len. *)
From Coq Require Import List ZArith Bool Arith.
Import ListNotations.
From Stam Require Import Model.Offset.

Definition denotes (len : nat) (c : cursor) : option Z :=
  match c with
  | CB n => Some (Z.of_nat n)
  | CE z => if (z <=? 0)%Z then Some (Z.of_nat len + z)%Z else None
  end.

Definition spec_accept (len : nat) (o : offset) : option (nat * nat) :=
  match denotes len (o_begin o), denotes len (o_end o) with
  | Some p, Some q =>
      if ((0 <=? p) && (p <=? q) && (q <=? Z.of_nat len))%Z
      then Some (Z.to_nat p, Z.to_nat q) else None
  | _, _ => None
  end.

(* relative to a parent selection [pb,pe): positions are shifted by pb *)
Definition spec_accept_rel (p : nat * nat) (o : offset) : option (nat * nat) :=
  match spec_accept (snd p - fst p) o with
  | Some (b, e) => Some (fst p + b, fst p + e)
  | None => None
  end.

(* canonical report of the range [b,e) of a text of len codepoints in a mode *)
Definition spec_report (len : nat) (b e : nat) (m : omode) : offset :=
  let cb := CB b in let ce := CB e in
  let zb := CE (Z.of_nat b - Z.of_nat len)%Z in
  let ze := CE (Z.of_nat e - Z.of_nat len)%Z in
  match m with
  | BeginBegin => mkoff cb ce
  | BeginEnd => mkoff cb ze
  | EndBegin => mkoff zb ce
  | EndEnd => mkoff zb ze
  end.

Definition cursor_wf (c : cursor) : bool :=
  match c with CB _ => true | CE z => (z <=? 0)%Z end.
