(* C20, what is demanded: a thread that only holds a shared reference to the store
   obtains the result it would obtain running alone.  The result of running alone is
   written down here directly from the documentation of the serialisation entry
   points, without any reference to cells, programs or schedules:

   - serialising the store writes every member that is kept in a stand-off file as
     {"@include": filename} and every other member with its content;
   - ToJson::to_json_string(member, config) produces the content of the stand-off
     file, i.e. the member with its content ("what we're about to write is the
     standoff file", json.rs), whichever Config is passed (the Config only selects
     the JSON layout);
   - the inherent member.to_json_string() writes the member the way it appears
     inside the store;
   - calls made one after the other on one thread return what each returns alone;
   - the serialisation mode is a property of one logical call: no other call - of another reader,
     on another thread, or run by the same pool worker while this call waits - is affected by it;
   - what a call that returned Ok leaves on disk is what it leaves there alone: after a call that wrote
     member i as @include has returned Ok, the stand-off file of member i holds the member's content
     (alone the call writes pending content before it returns); an export of a resource's text to
     another place (to_txt_file) leaves the resource's own stand-off state alone;
   - a store with sub-stores is written with an @include per sub-store, and the call returns only when
     it has written the sub-store files (or reports an error): when it has returned Ok the files are there;
   - a call that is refused (ToJson::to_json_string with a Config whose dataformat is not JSON) returns
     Err and leaves nothing behind: whatever runs next on that thread returns what it returns alone;
     saving a store in the CBOR format writes one file and does not concern the stand-off files;
   - iterating, searching, querying and the parallel adaptors serialise nothing
     (their own result is compared with the solo result directly by the harness). *)
From Coq Require Import List Arith Bool.
Import ListNotations.
From Stam Require Import Model.Conc.

Definition in_store (i : nat) (k : fkind) : tok :=
  match k with NoFile => t_inline i | Txt | Json | JsonBroken | TxtBroken | SubStore => t_include i end.

(* a member serialised on its own, the way it appears inside the store *)
Definition member_form (i : nat) (k : fkind) : tok :=
  match k with SubStore => t_inline i | _ => in_store i k end.

Fixpoint store_form (i : nat) (mem : list fkind) : list tok :=
  match mem with
  | [] => []
  | k :: r => in_store i k :: store_form (S i) r
  end.

Definition spec_out (mem : list fkind) (o : op) : list tok :=
  match o with
  | OpPure => []
  | OpStore => store_form 0 mem
  | OpMemberTrait i => [t_inline i]
  | OpMemberPlain i => [member_form i (kind_of mem i)]
  | OpMemberForeign i => [t_inline i]
  | OpMemberThenStore i => t_inline i :: t_sep :: store_form 0 mem ++ [t_sep]
  | OpStoreTwice => store_form 0 mem ++ t_sep :: store_form 0 mem ++ [t_sep]
  | OpExport _ => []
  | OpSaveTxt _ => []
  | OpSaveCbor => []
  | OpRefused _ => [t_err]
  | OpRefusedThenStore _ => t_err :: t_sep :: store_form 0 mem ++ [t_sep]
  | OpStoreChanged => []
  end.

(* Stores with a stand-off file that cannot be written.  A call that has to rewrite such a file
   (the member is changed and is being written as @include) returns Err, every time it is made:
   a failed call leaves nothing behind that changes what a later call returns. *)
Fixpoint store_fails (i : nat) (mem : list fkind) (chg : list bool) : bool :=
  match mem with
  | [] => false
  | k :: r => (match k with JsonBroken | TxtBroken => flag i chg | _ => false end) || store_fails (S i) r chg
  end.

Definition member_fails (mem : list fkind) (chg : list bool) (i : nat) : bool :=
  match kind_of mem i with JsonBroken | TxtBroken => flag i chg | _ => false end.

Definition call_store (mem : list fkind) (chg : list bool) : list tok :=
  if store_fails 0 mem chg then [t_err] else store_form 0 mem.

Definition spec_result (mem : list fkind) (chg : list bool) (o : op) : list tok :=
  match o with
  | OpStore => call_store mem chg
  | OpMemberPlain i => if member_fails mem chg i then [t_err] else spec_out mem o
  | OpMemberThenStore i => t_inline i :: t_sep :: call_store mem chg ++ [t_sep]
  | OpStoreTwice => call_store mem chg ++ t_sep :: call_store mem chg ++ [t_sep]
  | OpSaveTxt i => match kind_of mem i with TxtBroken => [t_err] | _ => [] end
  | OpRefusedThenStore _ => t_err :: t_sep :: call_store mem chg ++ [t_sep]
  | _ => spec_out mem o
  end.

Definition writable (mem : list fkind) : bool :=
  forallb (fun k => match k with JsonBroken | TxtBroken => false | _ => true end) mem.

(* the property for one run: every thread that has finished holds its solo result *)
Definition solo_results (mem : list fkind) (os : list op) (ts : list thread) : Prop :=
  forall i o t, nth_error os i = Some o -> nth_error ts i = Some t ->
    finished t = true -> out t = spec_out mem o /\ dead t = false.

(* ---- the parallel adaptors: every consumer of iterator.parallel() returns what the same
   consumer returns on the sequential iterator, the order of the items included ---- *)
From Coq Require Import ZArith.

(* position-weighted sum of a sequence, positions counted from i *)
Fixpoint weighted (a b : Z) (i : Z) (l : list Z) : Z :=
  match l with
  | [] => 0%Z
  | h :: r => ((i + a) * (h + b) + weighted a b (i + 1) r)%Z
  end.

Definition seq_consumers (l : list Z) : list Z :=
  [Z.of_nat (length l);
   (weighted 1 1 0 l mod ck_mod)%Z;
   (weighted 2 3 0 l mod ck_mod)%Z;
   match find wanted l with Some h => h | None => (-1)%Z end;
   (weighted 1 1 0 (filter (fun h => Z.eqb (h mod 3) 0) l) mod ck_mod)%Z].
