(* What the STAM CSV round trip has to preserve, stated without reference to rows or columns.

   [content s] describes a store the way a reader of the saved files can see it, free of
   handles: every live item is named by its rank among the live items of its kind (saving
   writes the live items in handle order, so ranks are what survives), resources by id and
   length (= text, see Model/Csv.v), data sets by id with their keys and their data items (id,
   key, the TEXT of the value - value types are outside the claim), annotations by id, data
   references and target: the selector kind and, per leaf selector, the referenced items and the
   ABSOLUTE range of the addressed text.  The offset mode of a leaf is not part of the content
   (it only chooses between equivalent ways of writing the same range).  Leaves of Multi and
   Composite selectors are compared as sorted lists (the library orders them itself),
   Directional selectors keep their order.

   The property:  load (save s) succeeds and has the content of s.

   Also here: the documented shape of a list-valued column (the values joined with ';', the
   complex selector itself taking the first, empty, slot). *)
From Coq Require Import List NArith ZArith Bool Arith.
Import ListNotations.
From Stam Require Import Base.Sx Model.Offset Model.Store Model.Loader Model.Csv Run.StoreRun.

Definition is_some {X} (o : option X) : bool := match o with Some _ => true | None => false end.

(* number of live slots before h *)
Definition rank {X} (l : list (option X)) (h : nat) : nat := length (filter is_some (firstn h l)).

Definition sel_range (s : store) (r t : nat) : nat * nat :=
  match get_res s r with
  | Some rs => nth t (r_sels rs) (0, 0)
  | None => (0, 0)
  end.

Definition set_rank_in (s : store) (d : nat) (f : dset -> nat) : nat :=
  match get_set s d with Some ds => f ds | None => 0 end.

Definition leaf_desc (s : store) (lf : leaf) : list nat :=
  match lf with
  | LText r t _ => let rg := sel_range s r t in [0; rank (ress s) r; fst rg; snd rg; 0]
  | LAnnText a r t _ => let rg := sel_range s r t in [1; rank (ress s) r; fst rg; snd rg; rank (anns s) a]
  | LAnn a => [2; rank (anns s) a; 0; 0; 0]
  | LRes r => [3; rank (ress s) r; 0; 0; 0]
  | LSet d => [4; rank (sets s) d; 0; 0; 0]
  | LKey d k => [5; rank (sets s) d; set_rank_in s d (fun ds => rank (d_keys ds) k); 0; 0]
  | LData d x => [6; rank (sets s) d; set_rank_in s d (fun ds => rank (d_data ds) x); 0; 0]
  end.

Definition of_str (t : str) : sx := L (map of_N t).

Definition content_ann (s : store) (a : ann) : sx :=
  let ks := map (leaf_desc s) (a_leaves a) in
  L [of_onat (a_id a);
     L (map (fun dx => L [of_nat (rank (sets s) (fst dx));
                          of_nat (set_rank_in s (fst dx) (fun ds => rank (d_data ds) (snd dx)))]) (a_data a));
     of_nat (a_kind a);
     L (map of_nats (if Nat.eqb (a_kind a) 3 then ks else sort_leaves ks))].

Definition content_set (d : dset) : sx :=
  L [of_nat (d_id d);
     of_nats (map snd (live_items (d_keys d)));
     L (map (fun hx => L [of_onat (x_id (snd hx)); of_nat (rank (d_keys d) (x_key (snd hx)));
                          of_str (value_text (x_val (snd hx)))]) (live_items (d_data d)))].

Definition content (s : store) : sx :=
  L [L (map (fun hr => L [of_nat (r_id (snd hr)); of_nat (r_len (snd hr))]) (live_items (ress s)));
     L (map (fun hd => content_set (snd hd)) (live_items (sets s)));
     L (map (fun ha => content_ann s (snd ha)) (live_items (anns s)))].

(* outcome of a load as an observation: (1 content) | (0) error | (-1) panic *)
Definition sx_of_loaded (r : loaded) : sx :=
  match r with LOk s => L [A 1; content s] | LErr => L [A 0] | LPanic => L [A (-1)] end.

(* the property, executable: what save-then-load must give *)
Definition roundtrip_spec (s : store) : sx := L [A 1; content s].

(** the documented shape of the columns *)

(* the values joined with ';' *)
Fixpoint join_semi (l : list str) : str :=
  match l with
  | [] => []
  | [x] => x
  | x :: l' => x ++ 59%N :: join_semi l'
  end.

(* a complex selector: its own slot first (the kind in SelectorType, empty elsewhere), then one
   slot per sub-selector *)
Definition column_spec (own : str) (vals : list str) : str := join_semi (own :: vals).

(** known finding: items without a public identifier.  They are written under their temporary
    id ("!A3", "!D1"); the reader takes such an Id column as an ordinary public id and resolves
    references to it by handle in the NEW store, where handles differ as soon as anything was
    removed before *)
Definition Known_C15_tempid (s : store) : bool :=
  existsb (fun ha => negb (is_some (a_id (snd ha)))) (live_items (anns s))
  || existsb (fun hd => existsb (fun hx => negb (is_some (x_id (snd hx)))) (live_items (d_data (snd hd))))
             (live_items (sets s)).

(** well-formedness of the ranges a store holds (what annotate() guarantees, C04): every known
    text selection lies inside its resource, an annotation-relative selection inside the
    selection of the annotation it is relative to, and lengths fit the cursor type *)
Definition fits (n : nat) : bool := (N.of_nat n <=? isize_max)%N.
Definition range_ok (len : nat) (rg : nat * nat) : bool := (fst rg <=? snd rg) && (snd rg <=? len).
Definition res_ok (rs : res) : bool := fits (r_len rs) && forallb (range_ok (r_len rs)) (r_sels rs).
Definition leaf_ok (s : store) (lf : leaf) : bool :=
  match lf with
  | LAnnText a r t _ =>
      match get_ann s a with
      | Some an =>
          match ann_textsel s an with
          | Some (r', _, prg) =>
              let rg := sel_range s r t in
              Nat.eqb r r' && (fst prg <=? fst rg) && (snd rg <=? snd prg)
          | None => false
          end
      | None => false
      end
  | _ => true
  end.
Definition store_ok (s : store) : bool :=
  forallb (fun hr => res_ok (snd hr)) (live_items (ress s))
  && forallb (fun ha => forallb (leaf_ok s) (a_leaves (snd ha))) (live_items (anns s)).

Definition known_class (s : store) : nat := if Known_C15_tempid s then 1 else 0.

(* the selector kinds of the API (0 simple, 1 Multi, 2 Composite, 3 Directional); a simple target
   is one selector *)
Definition shape_b (a : ann) : bool :=
  (a_kind a <=? 3) && (if Nat.eqb (a_kind a) 0 then Nat.eqb (length (a_leaves a)) 1 else true).
(* an annotation targets annotations that exist already: earlier handles *)
Definition back_b (h : nat) (a : ann) : bool :=
  forallb (fun lf => match lf with LAnn a0 | LAnnText a0 _ _ _ => a0 <? h | _ => true end) (a_leaves a).
Definition hyps_ok (s : store) : bool :=
  store_ok s && forallb (fun ha => shape_b (snd ha) && back_b (fst ha) (snd ha)) (live_items (anns s)).
