//! C06: related-text search returns exactly the known selections in the relation, each once.
use crate::c13::{all_ops, mkop, op_sx, OpCode};
use crate::out::{guard, Out};
use crate::rng::Rng;
use crate::sx::{a, b, l, onat, Sx};
use stam::*;

pub struct Ctx {}

fn op_of_code(z: i64) -> TextSelectionOperator {
    let rel = (z % 12) as usize;
    let z = z / 12;
    let all = z % 2 == 1;
    let z = z / 2;
    let neg = z % 2 == 1;
    let z = z / 2;
    let ws = z % 2 == 1;
    let z = z / 2;
    let lim = if z == 0 { None } else { Some((z - 1) as usize) };
    mkop(rel, all, neg, lim, ws)
}

pub fn text_of(textid: i64, len: usize) -> String {
    // textid 0: no whitespace; 1: whitespace at every third position; 2: long whitespace run in the middle
    (0..len)
        .map(|i| match textid {
            0 => 'x',
            1 => {
                if i % 3 == 1 {
                    ' '
                } else {
                    'y'
                }
            }
            _ => {
                if i >= 2 && i + 2 < len {
                    if i % 2 == 0 {
                        ' '
                    } else {
                        '\u{a0}'
                    }
                } else {
                    'z'
                }
            }
        })
        .collect()
}

impl Ctx {
    pub fn new() -> Self {
        Ctx {}
    }
    /// request: (textid len ((b e)...) (sorted (b e)...) opcodes)
    /// model input: (len wsflags ((b e)...) (sorted (hid b e)...) opcodes); one sorted handle list per opcode
    pub fn exec(&self, req: &Sx) -> (Sx, Vec<Sx>, bool) {
        let textid = req.nth(0).int();
        let len = req.nth(1).int() as usize;
        let text = text_of(textid, len);
        let known: Vec<(usize, usize)> = req.nth(2).list().iter().map(|p| (p.nth(0).int() as usize, p.nth(1).int() as usize)).collect();
        let rl = req.nth(3).list();
        let sorted = rl.get(0).map(|v| v.int() != 0).unwrap_or(false);
        let refs: Vec<(usize, usize)> = rl.iter().skip(1).map(|p| (p.nth(0).int() as usize, p.nth(1).int() as usize)).collect();
        let codes: Vec<i64> = req.nth(4).list().iter().map(|c| c.int()).collect();
        let mut store = AnnotationStore::default()
            .with_id("c06")
            .with_resource(TextResourceBuilder::new().with_id("r").with_text(text.clone()))
            .unwrap();
        for (bb, ee) in &known {
            store
                .annotate(
                    AnnotationBuilder::new()
                        .with_target(SelectorBuilder::textselector("r", Offset::simple(*bb, *ee)))
                        .with_data("s", "k", "v"),
                )
                .unwrap();
        }
        // twin request (6th element 1): a second resource with the same text and the same known
        // selections (so their handle numbers coincide); every reference is taken in both resources
        // and the search goes through the iterator adaptor TextSelectionIterator::related_text,
        // which gathers the results of all references; a result of the twin shows as 1000 + handle
        if req.list().len() > 5 && req.nth(5).int() == 1 {
            let mut store = store.with_resource(TextResourceBuilder::new().with_id("r2").with_text(text.clone())).unwrap();
            for (bb, ee) in &known {
                store
                    .annotate(
                        AnnotationBuilder::new()
                            .with_target(SelectorBuilder::textselector("r2", Offset::simple(*bb, *ee)))
                            .with_data("s", "k", "v"),
                    )
                    .unwrap();
            }
            let r1 = store.resource("r").unwrap();
            let r2 = store.resource("r2").unwrap();
            let mut refsx = vec![b(false)];
            let mut all: Vec<ResultTextSelection> = Vec::new();
            for (bb, ee) in &refs {
                let t = r1.textselection(&Offset::simple(*bb, *ee)).unwrap();
                refsx.push(l(vec![onat(t.handle().map(|h| h.as_usize())), a(t.begin() as i64), a(t.end() as i64)]));
                all.push(t);
                all.push(r2.textselection(&Offset::simple(*bb, *ee)).unwrap());
            }
            let mut results = Vec::new();
            for c in &codes {
                let op = op_of_code(*c);
                let refs2 = all.clone();
                let r = guard(|| {
                    let mut v: Vec<usize> = refs2
                        .into_iter()
                        .related_text(op)
                        .map(|x| x.handle().map(|h| h.as_usize()).unwrap_or(9999) + if x.resource().handle() == r2.handle() { 1000 } else { 0 })
                        .collect();
                    v.sort();
                    v
                });
                results.push(match r {
                    Some(v) => l(v.into_iter().map(|x| a(x as i64)).collect()),
                    None => l(vec![a(-1)]),
                });
            }
            let ws = l(text.chars().map(|c| b(c.is_whitespace())).collect());
            let input = l(vec![a(len as i64), ws, req.nth(2).clone(), l(refsx), req.nth(4).clone(), a(1)]);
            let nt = results.iter().any(|r| !r.list().is_empty());
            return (input, results, nt);
        }
        // annotation routes (6th element 2 / 3): the references are known selections and the target of
        // one more annotation REF (Multi / Composite / Directional, or a plain text selector); the
        // search starts from that annotation - 2: ResultItem<Annotation>::related_text, 3: the iterator
        // adaptor AnnotationIterator::related_text over an iterator holding REF.  The model gets
        // the references selection by selection as the annotation reports them.
        if req.list().len() > 5 && req.nth(5).int() >= 2 {
            let route = req.nth(5).int();
            let mut subs: Vec<SelectorBuilder> = refs.iter().map(|(bb, ee)| SelectorBuilder::textselector("r", Offset::simple(*bb, *ee))).collect();
            let target = if subs.len() == 1 {
                subs.pop().unwrap()
            } else {
                match (refs[0].0 + refs.len()) % 3 {
                    0 => SelectorBuilder::MultiSelector(subs),
                    1 => SelectorBuilder::CompositeSelector(subs),
                    _ => SelectorBuilder::DirectionalSelector(subs),
                }
            };
            store.annotate(AnnotationBuilder::new().with_id("REF").with_target(target).with_data("s", "k", "v")).unwrap();
            let ann = store.annotation("REF").unwrap();
            let mut refsx = vec![b(false)];
            for t in ann.textselections() {
                refsx.push(l(vec![onat(t.handle().map(|h| h.as_usize())), a(t.begin() as i64), a(t.end() as i64)]));
            }
            let mut results = Vec::new();
            for c in &codes {
                let op = op_of_code(*c);
                let ann2 = ann.clone();
                let r = guard(|| {
                    let mut v: Vec<usize> = if route == 2 {
                        ann2.related_text(op).map(|x| x.handle().map(|h| h.as_usize()).unwrap_or(9999)).collect()
                    } else {
                        vec![ann2].into_iter().related_text(op).map(|x| x.handle().map(|h| h.as_usize()).unwrap_or(9999)).collect()
                    };
                    v.sort();
                    v
                });
                results.push(match r {
                    Some(v) => l(v.into_iter().map(|x| a(x as i64)).collect()),
                    None => l(vec![a(-1)]),
                });
            }
            let ws = l(text.chars().map(|c| b(c.is_whitespace())).collect());
            let input = l(vec![a(len as i64), ws, req.nth(2).clone(), l(refsx), req.nth(4).clone()]);
            let nt = results.iter().any(|r| !r.list().is_empty());
            return (input, results, nt);
        }
        let res = store.resource("r").unwrap();
        let reftss: Vec<ResultTextSelection> = refs.iter().map(|(bb, ee)| res.textselection(&Offset::simple(*bb, *ee)).unwrap()).collect();
        let mut refsx = vec![b(sorted)];
        let mut results = Vec::new();
        let single = refs.len() == 1 && !sorted;
        if single {
            let t = &reftss[0];
            refsx.push(l(vec![onat(t.handle().map(|h| h.as_usize())), a(t.begin() as i64), a(t.end() as i64)]));
            for c in &codes {
                let op = op_of_code(*c);
                let r = guard(|| {
                    let mut v: Vec<usize> = t.related_text(op).map(|x| x.handle().map(|h| h.as_usize()).unwrap_or(9999)).collect();
                    v.sort();
                    v
                });
                results.push(match r {
                    Some(v) => l(v.into_iter().map(|x| a(x as i64)).collect()),
                    None => l(vec![a(-1)]),
                });
            }
        } else {
            let mut tset: TextSelectionSet = reftss.iter().cloned().collect();
            if sorted {
                tset.sort();
            }
            for t in tset.iter() {
                refsx.push(l(vec![onat(t.handle().map(|h| h.as_usize())), a(t.begin() as i64), a(t.end() as i64)]));
            }
            for c in &codes {
                let op = op_of_code(*c);
                let ts2 = tset.clone();
                let r = guard(|| {
                    let rs = ts2.as_resultset(&store);
                    let mut v: Vec<usize> = rs.related_text(op).map(|x| x.handle().map(|h| h.as_usize()).unwrap_or(9999)).collect();
                    v.sort();
                    v
                });
                results.push(match r {
                    Some(v) => l(v.into_iter().map(|x| a(x as i64)).collect()),
                    None => l(vec![a(-1)]),
                });
            }
        }
        let ws = l(text.chars().map(|c| b(c.is_whitespace())).collect());
        let input = l(vec![a(len as i64), ws, req.nth(2).clone(), l(refsx), req.nth(4).clone()]);
        let nt = results.iter().any(|r| !r.list().is_empty());
        (input, results, nt)
    }
}

fn ranges(n: usize) -> Vec<(usize, usize)> {
    let mut v = Vec::new();
    for bb in 0..=n {
        for ee in bb..=n {
            v.push((bb, ee));
        }
    }
    v
}

fn pairs_sx(v: &[(usize, usize)]) -> Sx {
    l(v.iter().map(|(x, y)| l(vec![a(*x as i64), a(*y as i64)])).collect())
}

fn refs_sx(sorted: bool, v: &[(usize, usize)]) -> Sx {
    let mut o = vec![b(sorted)];
    for (x, y) in v {
        o.push(l(vec![a(*x as i64), a(*y as i64)]));
    }
    l(o)
}

pub fn generate(out: &mut Out, tier: &str, seed: u64) {
    let thorough = tier == "thorough";
    let ctx = Ctx::new();
    let limits: Vec<Option<usize>> = vec![None, Some(0), Some(1), Some(2)];
    let ops: Vec<OpCode> = all_ops(&limits);
    let opsx = l(ops.iter().map(op_sx).collect());
    let emit = |out: &mut Out, req: Sx, key: &str| {
        let (i, o, nt) = ctx.exec(&req);
        out.case(&i, &o, nt, &req);
        out.count(key);
    };
    // exhaustive: every set of <= kmax known selections over a short text, every single reference
    for (len, kmax, textid) in [(5usize, if thorough { 3 } else { 2 }, 1i64), (6, 2, 0), (4, 3, 1)] {
        let rs = ranges(len);
        let mut ksets: Vec<Vec<(usize, usize)>> = Vec::new();
        for i in 0..rs.len() {
            ksets.push(vec![rs[i]]);
            if kmax >= 2 {
                for j in i + 1..rs.len() {
                    ksets.push(vec![rs[i], rs[j]]);
                    // insertion order matters for handles and for the order inside one index position
                    ksets.push(vec![rs[j], rs[i]]);
                    if kmax >= 3 {
                        for k in j + 1..rs.len() {
                            ksets.push(vec![rs[k], rs[i], rs[j]]);
                        }
                    }
                }
            }
        }
        for ks in &ksets {
            for r in &rs {
                emit(out, l(vec![a(textid), a(len as i64), pairs_sx(ks), refs_sx(false, &[*r]), opsx.clone()]), "exhaustive_single_ref");
            }
        }
    }
    // random: more selections, longer texts (whitespace runs longer than the limit), reference sets of 1..3
    let mut rng = Rng::new(seed);
    let nrand = if thorough { 400000 } else { 2500 };
    let rlimits: Vec<Option<usize>> = vec![None, Some(0), Some(2), Some(6)];
    let ropsx = l(all_ops(&rlimits).iter().map(op_sx).collect());
    for _ in 0..nrand {
        let textid = rng.below(3) as i64;
        let len = if textid == 2 { 12 + rng.below(12) } else { 4 + rng.below(12) };
        let nk = 1 + rng.below(8);
        let mut ks: Vec<(usize, usize)> = Vec::new();
        for _ in 0..nk {
            let bb = rng.below(len + 1);
            let w = if rng.chance(1, 4) { 0 } else { rng.below(len - bb + 1) };
            let t = (bb, bb + w);
            if !ks.contains(&t) {
                ks.push(t);
            }
        }
        let nr = 1 + rng.below(3);
        let mut refs: Vec<(usize, usize)> = Vec::new();
        for _ in 0..nr {
            let t = if rng.chance(1, 2) {
                *rng.pick(&ks)
            } else {
                let bb = rng.below(len + 1);
                (bb, bb + rng.below(len - bb + 1))
            };
            if !refs.contains(&t) {
                refs.push(t);
            }
        }
        if rng.chance(1, 4) {
            // references that are known selections, as the target of an annotation
            let mut rk: Vec<(usize, usize)> = Vec::new();
            for _ in 0..1 + rng.below(3) {
                let t = *rng.pick(&ks);
                if !rk.contains(&t) {
                    rk.push(t);
                }
            }
            let route = 2 + rng.below(2) as i64;
            emit(out, l(vec![a(textid), a(len as i64), pairs_sx(&ks), refs_sx(false, &rk), ropsx.clone(), a(route)]), if route == 2 { "annotation_related_text" } else { "annotation_iterator_related_text" });
        }
        if rng.chance(1, 5) {
            // the same references through the iterator adaptor, over two resources with coinciding handles
            emit(out, l(vec![a(textid), a(len as i64), pairs_sx(&ks), refs_sx(false, &refs), ropsx.clone(), a(1)]), "adaptor_two_resources");
        }
        let sorted = refs.len() > 1 && rng.chance(1, 2);
        emit(out, l(vec![a(textid), a(len as i64), pairs_sx(&ks), refs_sx(sorted, &refs), ropsx.clone()]), if refs.len() > 1 { "random_ref_set" } else { "random_single_ref" });
    }
}

pub const RULE: &str = "exhaustive: every set of <=2 (thorough <=3) known selections over positions 0..=5 of a 5-codepoint text, <=2 over 0..=6, <=3 over 0..=4 (nested, crossing, adjacent, zero-width, touching the end, both halves), every single reference range (bound when it coincides with a known selection), every operator x all x negate x limit {None,0,1,2} x allow_whitespace, through ResultTextSelection::related_text; random: up to 8 known selections on texts of 4..24 codepoints (one family with whitespace runs longer than the limit), reference sets of 1..3 members sorted/unsorted through ResultTextSelectionSet::related_text; a fifth of the random requests once more through the iterator adaptor TextSelectionIterator::related_text over two resources with the same text and the same known selections under the same handle numbers (each reference taken in both); a quarter once more with 1..3 known selections as the target of an annotation (plain, Multi, Composite, Directional), searched from through ResultItem<Annotation>::related_text and through AnnotationIterator::related_text. One evaluation = one search; results compared as sorted handle lists (duplicates visible). Non-trivial = some operator returned a non-empty result; distinct = distinct request lines.";

pub const EXHAUSTIVE: bool = true;
