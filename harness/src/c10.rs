//! C10: the data vocabulary (keys once, id-less data shared) and data search against a scan.
use crate::out::{guard, Out};
use crate::rng::Rng;
use crate::storegen::{apply, fix_to_f64, gen_history, gen_value, kid, new_store, value, value_sx, GenCfg, NEAR_ONE};
use crate::sx::{a, b, l, nats, Sx};
use stam::*;

pub struct Ctx {}
const DEAD: Sx = Sx::A(-2);

fn string_of(x: &Sx) -> String {
    x.list()[1..].iter().filter_map(|c| char::from_u32(c.int() as u32)).collect()
}

pub fn dop<'a>(x: &Sx) -> DataOperator<'a> {
    let z = x.nth(1).int();
    match x.nth(0).int() {
        0 => DataOperator::Null,
        1 => DataOperator::Any,
        2 => DataOperator::True,
        3 => DataOperator::False,
        4 => DataOperator::Equals(string_of(x).into()),
        5 => DataOperator::EqualsInt(z as isize),
        6 => DataOperator::GreaterThan(z as isize),
        7 => DataOperator::GreaterThanOrEqual(z as isize),
        8 => DataOperator::LessThan(z as isize),
        9 => DataOperator::LessThanOrEqual(z as isize),
        10 => DataOperator::EqualsFloat(fix_to_f64(z)),
        11 => DataOperator::GreaterThanFloat(fix_to_f64(z)),
        12 => DataOperator::GreaterThanOrEqualFloat(fix_to_f64(z)),
        13 => DataOperator::LessThanFloat(fix_to_f64(z)),
        14 => DataOperator::LessThanOrEqualFloat(fix_to_f64(z)),
        15 => DataOperator::HasElement(string_of(x).into()),
        16 => DataOperator::HasElementInt(z as isize),
        17 => DataOperator::HasElementFloat(fix_to_f64(z)),
        18 => DataOperator::Not(Box::new(dop(x.nth(1)))),
        19 => DataOperator::And(x.list()[1..].iter().map(dop).collect()),
        _ => DataOperator::Or(x.list()[1..].iter().map(dop).collect()),
    }
}

fn opt(o: Option<usize>) -> Sx {
    match o {
        Some(h) => nats(vec![h]),
        None => nats(Vec::<usize>::new()),
    }
}

fn observe_set(store: &AnnotationStore, h: usize, probes: &[Sx], values: &[Sx]) -> Vec<Sx> {
    let set = match store.dataset(AnnotationDataSetHandle::new(h)) {
        Some(x) => x,
        None => return vec![DEAD],
    };
    // vocabulary predicates by a plain scan
    let inv = guard(|| {
        let keys: Vec<String> = set.keys().filter_map(|k| k.id().map(|s| s.to_string())).collect();
        let mut uniq = true;
        for i in 0..keys.len() {
            for j in 0..i {
                if keys[i] == keys[j] {
                    uniq = false;
                }
            }
        }
        let data: Vec<_> = set.data().collect();
        let mut vocab = true;
        for (i, d2) in data.iter().enumerate() {
            if d2.id().is_none() {
                for d1 in data[..i].iter() {
                    if d1.key().handle() == d2.key().handle() && d1.value() == d2.value() {
                        vocab = false;
                    }
                }
            }
        }
        l(vec![b(uniq), b(vocab)])
    })
    .unwrap_or_else(|| l(vec![a(-1)]));
    let pr = guard(|| {
        let finds = probes
            .iter()
            .map(|p| {
                let op = dop(p.nth(1));
                let found: Vec<usize> = match p.nth(0) {
                    Sx::A(_) => set.find_data(false, op.clone()).map(|d| d.handle().as_usize()).collect(),
                    k => {
                        if k.nth(0).int() == 0 {
                            set.find_data(kid(k.nth(1).int()).as_str(), op.clone()).map(|d| d.handle().as_usize()).collect()
                        } else {
                            set.find_data(DataKeyHandle::new(k.nth(1).int() as usize), op.clone()).map(|d| d.handle().as_usize()).collect()
                        }
                    }
                };
                let tested = match p.nth(0) {
                    Sx::A(_) => set.test_data(false, op),
                    k => {
                        if k.nth(0).int() == 0 {
                            set.test_data(kid(k.nth(1).int()).as_str(), op)
                        } else {
                            set.test_data(DataKeyHandle::new(k.nth(1).int() as usize), op)
                        }
                    }
                };
                // the same search through the store-level routes, which walk data of ALL sets:
                // AnnotationStore::find_data(set, key, op) and store.data().filter_key_handle_value(set, key, op);
                // an item of another set shows as 10000 + handle
                let key_item = match p.nth(0) {
                    Sx::A(_) => None,
                    k => {
                        if k.nth(0).int() == 0 {
                            set.key(kid(k.nth(1).int()).as_str())
                        } else {
                            set.key(DataKeyHandle::new(k.nth(1).int() as usize))
                        }
                    }
                };
                let (via_store, via_filter, tested_store) = match &key_item {
                    None => (found.clone(), found.clone(), tested),
                    Some(key) => {
                        let enc = |d: ResultItem<AnnotationData>| if d.set().handle() == set.handle() { d.handle().as_usize() } else { 10000 + d.handle().as_usize() };
                        let op2 = dop(p.nth(1));
                        let mut v1: Vec<usize> = store.find_data(set.handle(), key.handle(), op2.clone()).map(enc).collect();
                        let mut v2: Vec<usize> = store.data().filter_key_handle_value(set.handle(), key.handle(), op2).map(enc).collect();
                        v1.sort();
                        v2.sort();
                        // AnnotationStore::test_data: the same question as a boolean
                        let t = store.test_data(set.handle(), key.handle(), dop(p.nth(1)));
                        (v1, v2, t)
                    }
                };
                // the per-item test of the API (ResultItem<AnnotationData>::test, which names the key
                // through ResultItem<DataKey>::test) over a scan of the set's data: key given as "any",
                // by public id, by handle and as the key item itself; only for keys that exist
                let via_test: Vec<usize> = {
                    let op3 = dop(p.nth(1));
                    let scan = |f: &dyn Fn(&ResultItem<AnnotationData>) -> bool| -> Vec<usize> { set.data().filter(|d| f(d)).map(|d| d.handle().as_usize()).collect() };
                    match (p.nth(0), &key_item) {
                        (Sx::A(_), _) => scan(&|d| d.test(false, &op3)),
                        (k, Some(key)) => {
                            let by_req = if k.nth(0).int() == 0 {
                                let id = kid(k.nth(1).int());
                                scan(&|d| d.test(id.as_str(), &op3))
                            } else {
                                scan(&|d| d.test(key.handle(), &op3))
                            };
                            let by_item = scan(&|d| d.test(key, &op3));
                            if by_item == by_req { by_req } else { vec![99999] }
                        }
                        (_, None) => found.clone(),
                    }
                };
                l(vec![nats(found), b(tested), nats(via_store), nats(via_filter), b(tested_store), nats(via_test)])
            })
            .collect();
        let byval = values
            .iter()
            .map(|v| {
                let val = value(v);
                l((0..3).map(|k| opt(set.as_ref().data_by_value(kid(k).as_str(), &val).and_then(|d| d.handle()).map(|h| h.as_usize()))).collect())
            })
            .collect();
        l(vec![l(finds), l(byval)])
    })
    .unwrap_or_else(|| l(vec![a(-1)]));
    vec![inv, pr]
}

impl Ctx {
    pub fn new() -> Self {
        crate::storegen::BARE_KEYS.store(true, std::sync::atomic::Ordering::Relaxed);
        NEAR_ONE.store(true, std::sync::atomic::Ordering::Relaxed);
        Ctx {}
    }
    pub fn exec(&self, req: &Sx) -> (Sx, Vec<Sx>, bool) {
        // variant 1: the configuration switch generate_ids is on (items without a public id get a
        // generated one): the vocabulary rules and every search must be the same
        let mut store = if req.list().len() > 3 && req.nth(3).int() == 1 {
            AnnotationStore::new(Config::default().with_generate_ids(true).with_debug(false))
        } else {
            new_store()
        };
        for op in req.nth(0).list() {
            let _ = apply(&mut store, op);
        }
        let mut outs = Vec::new();
        let mut nt = false;
        for h in 0..store.datasets_len() {
            let o = observe_set(&store, h, req.nth(1).list(), req.nth(2).list());
            if o.len() > 1 {
                nt = true;
            }
            outs.extend(o);
        }
        // the same questions after shrink_to_fit (a performance-only call; the end of every load calls it too)
        if guard(|| store.shrink_to_fit(true)).is_none() {
            outs.push(l(vec![a(-1)]));
        }
        for h in 0..store.datasets_len() {
            outs.extend(observe_set(&store, h, req.nth(1).list(), req.nth(2).list()));
        }
        let _ = value_sx;
        (req.clone(), outs, nt)
    }
}

fn gen_str(rng: &mut Rng) -> Vec<Sx> {
    let pool: [&[i64]; 9] = [&[], &[97], &[98], &[49], &[233, 128512], &[50], &[45, 49], &[116, 114, 117, 101], &[79, 78]];
    pool[rng.below(pool.len())].iter().map(|c| a(*c)).collect()
}

pub fn gen_dop(rng: &mut Rng, depth: usize) -> Sx {
    let n = if depth >= 2 { 18 } else { 21 };
    let tag = rng.below(n) as i64;
    match tag {
        0..=3 => l(vec![a(tag)]),
        4 | 15 => {
            let mut v = vec![a(tag)];
            v.extend(gen_str(rng));
            l(v)
        }
        5..=9 | 16 => l(vec![a(tag), a(rng.range(-3, 3))]),
        10..=14 | 17 => l(vec![a(tag), a(if rng.chance(1, 6) { if rng.chance(1, 2) { 999 } else { -999 } } else { rng.range(-3, 3) * 500 })]),
        18 => l(vec![a(18), gen_dop(rng, depth + 1)]),
        _ => {
            let mut v = vec![a(tag)];
            for _ in 0..rng.below(3) {
                v.push(gen_dop(rng, depth + 1));
            }
            l(v)
        }
    }
}

pub fn generate(out: &mut Out, tier: &str, seed: u64) {
    let thorough = tier == "thorough";
    let ctx = Ctx::new();
    let mut rng = Rng::new(seed ^ 0xC10);
    let n = if thorough { 250000 } else { 1500 };
    for i in 0..n {
        let cfg = GenCfg { max_ops: if i % 4 == 0 { 40 } else { 16 }, removals: 4, invalid: 25, values: true };
        let mut ops = gen_history(&mut rng, &cfg);
        // a dataset built in one go from a builder that carries data items (with_dataset / add_dataset),
        // some of them the same id-less key and value twice: inserted at a random place of the history
        if rng.chance(1, 3) {
            let nitems = 1 + rng.below(4);
            let mut items: Vec<Sx> = Vec::new();
            for _ in 0..nitems {
                if !items.is_empty() && rng.chance(1, 3) {
                    let again = items[rng.below(items.len())].clone();
                    items.push(again);
                } else {
                    let id = if rng.chance(1, 4) { l(vec![a(0), a(rng.below(6) as i64)]) } else { a(-1) };
                    items.push(l(vec![l(vec![a(0), a(0)]), id, l(vec![a(0), a(rng.below(3) as i64)]), gen_value(&mut rng, true, 0)]));
                }
            }
            let at = rng.below(ops.len() + 1);
            ops.insert(at, l(vec![a(13), a(rng.below(5) as i64), l(items)]));
        }
        let mut probes = Vec::new();
        for _ in 0..24 {
            let key = match rng.below(5) {
                0 => a(-1),
                1 => l(vec![a(1), a(rng.below(3) as i64)]),
                _ => l(vec![a(0), a(rng.below(4) as i64)]),
            };
            let op = gen_dop(&mut rng, 0);
            out.count(&format!("operator_{}", op.nth(0).int()));
            probes.push(l(vec![key, op]));
        }
        let values: Vec<Sx> = (0..6).map(|_| gen_value(&mut rng, true, 0)).collect();
        let req = l(vec![l(ops), l(probes), l(values), a(if i % 3 == 2 { 1 } else { 0 })]);
        let (i2, o, nt) = ctx.exec(&req);
        out.case(&i2, &o, nt, &req);
    }
}

pub const RULE: &str = "seeded random histories as in C01 with typed values (null, bool, int -3..3, float on a 0.5 grid plus the doubles next to 1.0 and -1.0 (which an epsilon comparison would confuse with them), strings incl. empty / non-BMP / numerals / 'true' / 'ON', nested lists), data with and without ids through datasets and through annotations, a third of the histories with a dataset built in one go from a builder carrying 1..4 data items (the same id-less key and value twice among them), removals of data and keys (strict and not); after the history, per dataset: keys unique and id-less data never a second copy of an existing (key,value) (scan through the API), 24 probes (any key / key by id / key by handle, incl. unknown and removed keys) x random operator (all 21 variants incl. Not/And/Or nested to depth 2, Equals against bool/int/float/string, HasElement*) through find_data and test_data of the dataset and, for probes with a key, through AnnotationStore::find_data, AnnotationStore::test_data, store.data().filter_key_handle_value and a scan with the per-item ResultItem<AnnotationData>::test (key as any / id / handle / item) (which walk the data of all sets), and data_by_value for 3 keys x 6 values; then AnnotationStore::shrink_to_fit(true) and all of it again; a third of the histories run on a store configured with generate_ids. One evaluation = one dataset record.";
pub const EXHAUSTIVE: bool = false;
