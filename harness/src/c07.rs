//! C07: text search and partition operations (find_text, find_text_nocase, find_text_sequence,
//! find_text_regex, split_text, trim_text(_with), segmentation) on a resource and inside
//! sub-selections, through the public API of the real library.
//!
//! Requests (first atom = kind), texts as lists of scalar values:
//!   (0 text ((mode b e)...) (needle...))                       find_text + find_text_nocase
//!   (1 text ((mode b e)...) (delim...))                        split_text
//!   (2 text ((mode b e)...) (set...))                          trim_text + trim_text_with
//!   (3 text (mode b e) allow_overlap (pattern...))             find_text_regex
//!   (4 interval text ((b e)...) ((mode b e)...))               segmentation
//!   (5 text ((mode b e)...) ((frag...)...) skipset nocase)     find_text_sequence
//!   (6 (text...) (needle...))                                  AnnotationStore::find_text
//! mode 0 = the resource, 1 = unbound text selection, 2 = known (bound) text selection,
//! 3 = the same through ResultItem<TextSelection>.
//! Kinds 0, 1, 2, 3 and 5 take an optional trailing `setup` = (milestone_interval ((b e)...) useprev prevtext):
//! the resource is built under that milestone interval (0 = no milestones), first holds `prevtext` and
//! then gets the text through TextResource::with_string() when useprev != 0, and carries annotations on
//! the listed ranges before anything is searched.  None of it may change any answer (the model does not
//! see it).
//! The model input additionally carries what the external engines say: the char::to_lowercase
//! table (kinds 0 and 5) and the regex crate's matches on a plain copy of the slice (kind 3).
use crate::out::{guard, Out};
use crate::rng::Rng;
use crate::sx::{a, l, text as text_sx, Sx};
use regex::Regex;
use stam::*;
use std::collections::BTreeSet;

pub struct Ctx {}

fn panic_sx() -> Sx {
    l(vec![a(-1)])
}
fn hang_sx() -> Sx {
    l(vec![a(-4)])
}

fn sel_obs(b: usize, e: usize, s: &str) -> Sx {
    l(vec![a(b as i64), a(e as i64), text_sx(s)])
}

/// collect at most `limit` selections of an iterator; more = the iterator does not end
fn collect_sels<'a>(it: impl Iterator<Item = ResultTextSelection<'a>>, limit: usize) -> Sx {
    let mut v = Vec::new();
    for (n, ts) in it.enumerate() {
        if n >= limit {
            return hang_sx();
        }
        v.push(sel_obs(ts.begin(), ts.end(), ts.text()));
    }
    l(v)
}

fn sels_of(x: &Sx) -> Vec<(i64, usize, usize)> {
    x.list().iter().map(|s| (s.nth(0).int(), s.nth(1).int() as usize, s.nth(2).int() as usize)).collect()
}

/// how the resource came about (never visible in the answers)
#[derive(Clone, Default)]
struct Setup {
    interval: Option<usize>,
    anns: Vec<(usize, usize)>,
    prev: Option<String>,
}

fn setup_of(x: &Sx) -> Setup {
    if x.list().is_empty() {
        return Setup::default();
    }
    Setup {
        interval: Some(x.nth(0).int() as usize),
        anns: x.nth(1).list().iter().map(|p| (p.nth(0).int() as usize, p.nth(1).int() as usize)).collect(),
        prev: if x.nth(2).int() != 0 { Some(x.nth(3).string()) } else { None },
    }
}

fn build(text: &str, known: &[(usize, usize)], interval: Option<usize>) -> AnnotationStore {
    build_with(text, known, &Setup { interval, anns: vec![], prev: None })
}

fn build_with(text: &str, known: &[(usize, usize)], setup: &Setup) -> AnnotationStore {
    let cfg = match setup.interval {
        Some(i) => Config::default().with_milestone_interval(i),
        None => Config::default(),
    };
    let mut store = AnnotationStore::new(cfg.clone()).with_id("c07");
    match &setup.prev {
        Some(prev) => {
            // the resource held another text first
            let res = TextResource::from_string("r", prev.as_str(), cfg.clone()).with_string(text.to_string());
            store.insert(res).unwrap();
        }
        None => {
            store = store.with_resource(TextResourceBuilder::new().with_id("r").with_text(text.to_string())).unwrap();
        }
    }
    for (b, e) in setup.anns.iter().chain(known.iter()) {
        let _ = guard(|| {
            store.annotate(
                AnnotationBuilder::new()
                    .with_target(SelectorBuilder::textselector("r", Offset::simple(*b, *e)))
                    .with_data("s", "k", "v"),
            )
        });
    }
    store
}

/// run `$body` with `$x` bound to the resource / the text selection in the requested flavour
macro_rules! with_target {
    ($res:expr, $mode:expr, $b:expr, $e:expr, |$x:ident| $body:expr) => {{
        match $mode {
            0 => {
                let $x = &$res;
                $body
            }
            3 => {
                let ts = $res.textselection(&Offset::simple($b, $e)).expect("selection");
                let $x = ts.as_resultitem().expect("bound selection");
                $body
            }
            _ => {
                let ts = $res.textselection(&Offset::simple($b, $e)).expect("selection");
                let $x = &ts;
                $body
            }
        }
    }};
}

fn lc_table(chars: &BTreeSet<char>) -> Sx {
    l(chars
        .iter()
        .map(|c| {
            let mut v = vec![a(*c as u32 as i64)];
            v.extend(c.to_lowercase().map(|x| a(x as u32 as i64)));
            l(v)
        })
        .collect())
}

fn known_of(sels: &[(i64, usize, usize)]) -> Vec<(usize, usize)> {
    sels.iter().filter(|s| s.0 >= 2).map(|s| (s.1, s.2)).collect()
}

impl Ctx {
    pub fn new() -> Self {
        Ctx {}
    }

    pub fn exec(&self, req: &Sx) -> (Sx, Vec<Sx>, bool) {
        let kind = req.nth(0).int();
        match kind {
            0 => {
                let text = req.nth(1).string();
                let sels = sels_of(req.nth(2));
                let needles: Vec<String> = req.nth(3).list().iter().map(|n| n.string()).collect();
                let store = build_with(&text, &known_of(&sels), &setup_of(req.nth(4)));
                let res = store.resource("r").unwrap();
                let limit = text.chars().count() + 5;
                let mut outs = Vec::new();
                let mut nt = false;
                for (mode, b, e) in &sels {
                    for n in &needles {
                        let o1 = guard(|| with_target!(res, *mode, *b, *e, |x| collect_sels(x.find_text(n.as_str()), limit)))
                            .unwrap_or_else(panic_sx);
                        let o2 = guard(|| with_target!(res, *mode, *b, *e, |x| collect_sels(x.find_text_nocase(n.as_str()), limit)))
                            .unwrap_or_else(panic_sx);
                        nt = nt || (!n.is_empty() && !o1.list().is_empty());
                        outs.push(o1);
                        outs.push(o2);
                    }
                }
                let mut chars: BTreeSet<char> = text.chars().collect();
                for n in &needles {
                    chars.extend(n.chars());
                }
                let input = l(vec![a(0), req.nth(1).clone(), lc_table(&chars), req.nth(2).clone(), req.nth(3).clone()]);
                (input, outs, nt)
            }
            1 => {
                let text = req.nth(1).string();
                let sels = sels_of(req.nth(2));
                let delims: Vec<String> = req.nth(3).list().iter().map(|n| n.string()).collect();
                let store = build_with(&text, &known_of(&sels), &setup_of(req.nth(4)));
                let res = store.resource("r").unwrap();
                let limit = text.chars().count() + 5;
                let mut outs = Vec::new();
                let mut nt = false;
                for (mode, b, e) in &sels {
                    for d in &delims {
                        let o = guard(|| with_target!(res, *mode, *b, *e, |x| collect_sels(x.split_text(d.as_str()), limit)))
                            .unwrap_or_else(panic_sx);
                        nt = nt || o.list().len() > 1;
                        outs.push(o);
                    }
                }
                (l(vec![a(1), req.nth(1).clone(), req.nth(2).clone(), req.nth(3).clone()]), outs, nt)
            }
            2 => {
                let text = req.nth(1).string();
                let sels = sels_of(req.nth(2));
                let sets: Vec<Vec<char>> = req.nth(3).list().iter().map(|n| n.string().chars().collect()).collect();
                let store = build_with(&text, &known_of(&sels), &setup_of(req.nth(4)));
                let res = store.resource("r").unwrap();
                let mut outs = Vec::new();
                let mut nt = false;
                let obs = |r: Option<Result<(usize, usize, String), ()>>| match r {
                    None => panic_sx(),
                    Some(Err(())) => l(vec![a(0)]),
                    Some(Ok((b, e, s))) => l(vec![a(1), sel_obs(b, e, &s)]),
                };
                for (mode, b, e) in &sels {
                    for set in &sets {
                        let o1 = guard(|| {
                            with_target!(res, *mode, *b, *e, |x| x
                                .trim_text(set.as_slice())
                                .map(|t| (t.begin(), t.end(), t.text().to_string()))
                                .map_err(|_| ()))
                        });
                        let o2 = guard(|| {
                            with_target!(res, *mode, *b, *e, |x| x
                                .trim_text_with(|c| set.contains(&c))
                                .map(|t| (t.begin(), t.end(), t.text().to_string()))
                                .map_err(|_| ()))
                        });
                        if let Some(Ok((tb, te, _))) = &o1 {
                            nt = nt || (*tb > *b || *te < *e);
                        }
                        outs.push(obs(o1));
                        outs.push(obs(o2));
                    }
                }
                (l(vec![a(2), req.nth(1).clone(), req.nth(2).clone(), req.nth(3).clone()]), outs, nt)
            }
            3 => {
                let text = req.nth(1).string();
                let s = req.nth(2);
                let (mode, b, e) = (s.nth(0).int(), s.nth(1).int() as usize, s.nth(2).int() as usize);
                let allow = req.nth(3).int() != 0;
                let patterns: Vec<String> = req.nth(4).list().iter().map(|n| n.string()).collect();
                let exprs: Vec<Regex> = patterns.iter().filter_map(|p| Regex::new(p).ok()).collect();
                let known = if mode >= 2 { vec![(b, e)] } else { vec![] };
                let store = build_with(&text, &known, &setup_of(req.nth(5)));
                let res = store.resource("r").unwrap();
                let limit = 4 * (text.len() + 2) * (exprs.len() + 1);
                // more than two expressions: every other case hands over a precompiled RegexSet
                let preset = if exprs.len() > 2 && text.len() % 2 == 0 {
                    regex::RegexSet::new(exprs.iter().map(|r| r.as_str())).ok()
                } else {
                    None
                };
                let o = guard(|| {
                    with_target!(res, mode, b, e, |x| {
                        match x.find_text_regex(&exprs, preset.as_ref(), allow) {
                            Err(_) => l(vec![a(-5)]),
                            Ok(iter) => {
                                let mut v = Vec::new();
                                let mut hang = false;
                                for (n, m) in iter.enumerate() {
                                    if n >= limit {
                                        hang = true;
                                        break;
                                    }
                                    v.push(l(vec![
                                        a(m.expression_index() as i64),
                                        l(m.capturegroups().iter().map(|g| a(*g as i64)).collect()),
                                        l(m.textselections().iter().map(|t| sel_obs(t.begin(), t.end(), t.text())).collect()),
                                    ]));
                                }
                                if hang {
                                    hang_sx()
                                } else {
                                    l(v)
                                }
                            }
                        }
                    })
                })
                .unwrap_or_else(panic_sx);
                // oracle: the regex crate on a plain copy of the searched slice
                let plain: String = text.chars().skip(b).take(e - b).collect();
                let mut oracle = Vec::new();
                for re in &exprs {
                    let caps = re.captures_len() > 1;
                    let mut ms = Vec::new();
                    if caps {
                        for c in re.captures_iter(&plain) {
                            ms.push(l((0..c.len())
                                .map(|i| match c.get(i) {
                                    Some(g) => l(vec![a(g.start() as i64), a(g.end() as i64)]),
                                    None => l(vec![]),
                                })
                                .collect()));
                        }
                    } else {
                        for m in re.find_iter(&plain) {
                            ms.push(l(vec![l(vec![a(m.start() as i64), a(m.end() as i64)])]));
                        }
                    }
                    oracle.push(l(vec![a(if caps { 1 } else { 0 }), l(ms)]));
                }
                let nt = o.list().len() > 0 && o.list()[0].list().len() == 3;
                let input = l(vec![a(3), req.nth(1).clone(), req.nth(2).clone(), req.nth(3).clone(), l(oracle)]);
                (input, vec![o], nt)
            }
            4 => {
                let interval = req.nth(1).int() as usize;
                let text = req.nth(2).string();
                let known: Vec<(usize, usize)> = req.nth(3).list().iter().map(|p| (p.nth(0).int() as usize, p.nth(1).int() as usize)).collect();
                let sels = sels_of(req.nth(4));
                let store = build(&text, &known, Some(interval));
                let res = store.resource("r").unwrap();
                let limit = text.chars().count() + 5;
                let mut outs = Vec::new();
                let mut nt = false;
                for (mode, b, e) in &sels {
                    let o = guard(|| match *mode {
                        0 => collect_sels(res.segmentation(), limit),
                        1 => collect_sels(res.segmentation_in_range(*b, *e), limit),
                        _ => {
                            let ts = res.textselection(&Offset::simple(*b, *e)).expect("selection");
                            collect_sels(ts.segmentation(), limit)
                        }
                    })
                    .unwrap_or_else(panic_sx);
                    nt = nt || o.list().len() > 1;
                    outs.push(o);
                }
                (req.clone(), outs, nt)
            }
            5 => {
                let text = req.nth(1).string();
                let sels = sels_of(req.nth(2));
                let seqs: Vec<Vec<String>> = req.nth(3).list().iter().map(|fs| fs.list().iter().map(|f| f.string()).collect()).collect();
                let skipset: Vec<char> = req.nth(4).string().chars().collect();
                let nocase = req.nth(5).int() != 0;
                let store = build_with(&text, &known_of(&sels), &setup_of(req.nth(6)));
                let res = store.resource("r").unwrap();
                let mut outs = Vec::new();
                let mut nt = false;
                let mut chars: BTreeSet<char> = text.chars().collect();
                for (mode, b, e) in &sels {
                    for fs in &seqs {
                        let frags: Vec<&str> = fs.iter().map(|x| x.as_str()).collect();
                        for f in fs {
                            chars.extend(f.chars());
                        }
                        let o = guard(|| {
                            with_target!(res, *mode, *b, *e, |x| x
                                .find_text_sequence(&frags, |c| skipset.contains(&c), !nocase)
                                .map(|v| v.iter().map(|t| sel_obs(t.begin(), t.end(), t.text())).collect::<Vec<Sx>>()))
                        });
                        let o = match o {
                            None => panic_sx(),
                            Some(None) => l(vec![a(0)]),
                            Some(Some(v)) => {
                                nt = nt || v.len() > 1;
                                l(vec![a(1), l(v)])
                            }
                        };
                        outs.push(o);
                    }
                }
                let input = l(vec![a(5), req.nth(1).clone(), lc_table(&chars), req.nth(2).clone(), req.nth(3).clone(), req.nth(4).clone(), req.nth(5).clone()]);
                (input, outs, nt)
            }
            _ => {
                let texts: Vec<String> = req.nth(1).list().iter().map(|t| t.string()).collect();
                let needles: Vec<String> = req.nth(2).list().iter().map(|n| n.string()).collect();
                let mut store = AnnotationStore::default().with_id("c07");
                for (i, t) in texts.iter().enumerate() {
                    store = store.with_resource(TextResourceBuilder::new().with_id(format!("r{}", i)).with_text(t.clone())).unwrap();
                }
                let limit: usize = texts.iter().map(|t| t.chars().count() + 2).sum::<usize>() + 5;
                let mut outs = Vec::new();
                let mut nt = false;
                for n in &needles {
                    let o = guard(|| {
                        let mut v = Vec::new();
                        for (k, ts) in store.find_text(n.as_str()).enumerate() {
                            if k >= limit {
                                return hang_sx();
                            }
                            v.push(l(vec![a(ts.resource().handle().as_usize() as i64), a(ts.begin() as i64), a(ts.end() as i64), text_sx(ts.text())]));
                        }
                        l(v)
                    })
                    .unwrap_or_else(panic_sx);
                    nt = nt || o.list().len() > 1;
                    outs.push(o);
                }
                (req.clone(), outs, nt)
            }
        }
    }
}

// ---------------------------------------------------------------- generators

fn txt(s: &[char]) -> Sx {
    l(s.iter().map(|c| a(*c as u32 as i64)).collect())
}

/// all strings over `alpha` of length <= maxlen
fn all_strings(alpha: &[char], maxlen: usize) -> Vec<Vec<char>> {
    let mut out: Vec<Vec<char>> = vec![vec![]];
    let mut frontier: Vec<Vec<char>> = vec![vec![]];
    for _ in 0..maxlen {
        let mut next = Vec::new();
        for p in &frontier {
            for c in alpha {
                let mut q = p.clone();
                q.push(*c);
                next.push(q);
            }
        }
        out.extend(next.iter().cloned());
        frontier = next;
    }
    out
}

/// every sub-selection of a text of n characters, in rotating flavours; plus the resource itself
fn all_sels(n: usize, salt: usize) -> Vec<Sx> {
    let mut v = vec![l(vec![a(0), a(0), a(n as i64)])];
    let mut k = salt;
    for b in 0..=n {
        for e in b..=n {
            k += 1;
            v.push(l(vec![a(1 + (k % 3) as i64), a(b as i64), a(e as i64)]));
        }
    }
    v
}

fn rand_text(rng: &mut Rng, alpha: &[char], maxlen: usize) -> Vec<char> {
    let n = rng.below(maxlen + 1);
    (0..n).map(|_| *rng.pick(alpha)).collect()
}

fn rand_sels(rng: &mut Rng, n: usize, k: usize) -> Vec<Sx> {
    let mut v = vec![l(vec![a(0), a(0), a(n as i64)])];
    for _ in 0..k {
        let b = rng.below(n + 1);
        let e = b + rng.below(n - b + 1);
        v.push(l(vec![a(1 + rng.below(3) as i64), a(b as i64), a(e as i64)]));
    }
    v
}

/// a needle: mostly a substring of the text (possibly with changed case), sometimes random
fn rand_needle(rng: &mut Rng, text: &[char], alpha: &[char], maxlen: usize) -> Vec<char> {
    if !text.is_empty() && rng.chance(3, 4) {
        let b = rng.below(text.len());
        let e = (b + 1 + rng.below(maxlen)).min(text.len());
        let mut v: Vec<char> = text[b..e].to_vec();
        if rng.chance(1, 3) {
            v = v
                .iter()
                .map(|c| {
                    let up: Vec<char> = c.to_uppercase().collect();
                    let lo: Vec<char> = c.to_lowercase().collect();
                    if rng.chance(1, 2) && up.len() == 1 {
                        up[0]
                    } else if lo.len() == 1 {
                        lo[0]
                    } else {
                        *c
                    }
                })
                .collect();
        }
        v
    } else {
        let n = rng.below(maxlen + 1);
        (0..n).map(|_| *rng.pick(alpha)).collect()
    }
}

const PATTERNS: &[&str] = &[
    "a", "ab", "[a-z]+", "a|b", "a*", "", "\\w+", "\\s+", "(a)(b)?", "(a+)|(b+)", "a(b)", "([a-z])([a-z])", ".", "..", "[^a]+", "(?i)a+", "\\b", "(é)|a", "b*?", "(a|b)+",
];

pub fn generate(out: &mut Out, tier: &str, seed: u64) {
    let thorough = tier == "thorough";
    let ctx = Ctx::new();
    let emit = |out: &mut Out, req: Sx, key: &str| {
        let (i, o, nt) = ctx.exec(&req);
        out.count_n(key, o.len() as u64);
        out.case(&i, &o, nt, &req);
    };
    let mut rng = Rng::new(seed);

    // --- exhaustive small scopes: 1-, 2- and 4-byte characters with an upper/lower pair
    let small: Vec<char> = vec!['a', 'A', '\u{e9}', '\u{1f600}'];
    let (tl, nl) = if thorough { (5, 2) } else { (4, 2) };
    let texts = all_strings(&small, tl);
    let needles = all_strings(&small, nl);
    let needles_sx = l(needles.iter().map(|n| txt(n)).collect());
    let delims_sx = l(all_strings(&small, 2).iter().map(|n| txt(n)).collect());
    let sets_sx = l(vec![txt(&[]), txt(&['a']), txt(&['A', '\u{e9}']), txt(&['a', '\u{1f600}']), txt(&small)]);
    for (ti, t) in texts.iter().enumerate() {
        let sels = l(all_sels(t.len(), ti));
        emit(out, l(vec![a(0), txt(t), sels.clone(), needles_sx.clone()]), "find_text+nocase (exhaustive)");
        emit(out, l(vec![a(1), txt(t), sels.clone(), delims_sx.clone()]), "split_text (exhaustive)");
        emit(out, l(vec![a(2), txt(t), sels.clone(), sets_sx.clone()]), "trim_text+with (exhaustive)");
    }
    // trim_text / trim_text_with with multi-byte characters in the trim set (2-, 3- and 4-byte:
    // guillemets, no-break space, ellipsis, typographic quote, emoji): texts that begin / end with
    // runs of them, texts consisting only of them, on the resource and on every sub-selection
    {
        let wide_trim: Vec<char> = vec!['\u{ab}', '\u{bb}', '\u{a0}', '\u{2026}', '\u{201c}', '\u{1f600}'];
        let sets = l(vec![
            txt(&['\u{ab}', '\u{bb}']),
            txt(&['\u{2026}']),
            txt(&['\u{a0}', ' ']),
            txt(&['\u{1f600}', '\u{201c}']),
            txt(&wide_trim),
            txt(&['a']),
        ]);
        let cores: Vec<Vec<char>> = vec![vec![], vec!['a'], "Hall\u{e5} v\u{e4}rlden".chars().collect(), vec!['\u{2026}', 'a', '\u{ab}'], vec!['b', '\u{1f600}', 'c']];
        let maxrun = if thorough { 3 } else { 2 };
        for core in &cores {
            for pre in 0..=maxrun {
                for post in 0..=maxrun {
                    for (ci, c) in wide_trim.iter().enumerate() {
                        let d = wide_trim[(ci + 1) % wide_trim.len()];
                        // runs of one character, and runs mixing two widths
                        for mixed in [false, true] {
                            let mut t: Vec<char> = Vec::new();
                            for k in 0..pre {
                                t.push(if mixed && k % 2 == 1 { d } else { *c });
                            }
                            t.extend(core.iter());
                            for k in 0..post {
                                t.push(if mixed && k % 2 == 0 { d } else { *c });
                            }
                            if t.len() > 9 && core.len() > 3 && (pre + post + ci) % 2 == 1 && !thorough {
                                continue;
                            }
                            let sels = if t.len() <= 6 { l(all_sels(t.len(), ci)) } else { l(rand_sels(&mut rng, t.len(), 5)) };
                            emit(out, l(vec![a(2), txt(&t), sels, sets.clone()]), "trim_text+with (multi-byte trim sets, targeted)");
                        }
                    }
                }
            }
        }
    }
    // segmentation: every set of <= 2 known selections over texts of 4 and 5 characters, every range
    for (n, interval) in [(4usize, 2usize), (5, 3), (5, 0)] {
        if n == 5 && interval == 0 && !thorough {
            continue;
        }
        let t: Vec<char> = "a\u{e9}b\u{1f600}c".chars().take(n).collect();
        let mut ranges = Vec::new();
        for b in 0..=n {
            for e in b..=n {
                ranges.push((b, e));
            }
        }
        let mut sels = vec![l(vec![a(0), a(0), a(n as i64)])];
        for (k, (b, e)) in ranges.iter().enumerate() {
            sels.push(l(vec![a(1 + (k % 2) as i64), a(*b as i64), a(*e as i64)]));
        }
        let sels = l(sels);
        let pr = |p: &(usize, usize)| l(vec![a(p.0 as i64), a(p.1 as i64)]);
        emit(out, l(vec![a(4), a(interval as i64), txt(&t), l(vec![]), sels.clone()]), "segmentation (exhaustive)");
        for i in 0..ranges.len() {
            emit(out, l(vec![a(4), a(interval as i64), txt(&t), l(vec![pr(&ranges[i])]), sels.clone()]), "segmentation (exhaustive)");
            for j in i + 1..ranges.len() {
                emit(out, l(vec![a(4), a(interval as i64), txt(&t), l(vec![pr(&ranges[i]), pr(&ranges[j])]), sels.clone()]), "segmentation (exhaustive)");
            }
        }
    }

    // --- seeded random: wider alphabet incl. characters whose lower-casing changes length
    let wide: Vec<char> = vec![
        'a', 'b', 'A', 'B', ' ', ',', '\u{e9}', '\u{c9}', '\u{df}', '\u{1e9e}', '\u{130}', '\u{212a}', '\u{23a}', '\u{1c5}', '\u{4e2d}', '\u{1f600}', 'k', 'i',
    ];
    let plain: Vec<char> = vec!['a', 'b', 'A', 'B', ' ', ',', '\u{e9}', '\u{c9}', '\u{4e2d}', '\u{1f600}', 'k'];
    let nrand = if thorough { 40000 } else { 1500 };
    for it in 0..nrand {
        let alpha = if it % 3 == 0 { &wide } else { &plain };
        let t = rand_text(&mut rng, alpha, if thorough { 14 } else { 10 });
        let n = t.len();
        let sels = l(rand_sels(&mut rng, n, 4));
        let needles: Vec<Sx> = (0..4).map(|_| txt(&rand_needle(&mut rng, &t, alpha, 3))).collect();
        emit(out, l(vec![a(0), txt(&t), sels.clone(), l(needles.clone())]), "find_text+nocase (random)");
        emit(out, l(vec![a(1), txt(&t), sels.clone(), l(needles.clone())]), "split_text (random)");
        let sets: Vec<Sx> = (0..3).map(|_| txt(&rand_text(&mut rng, alpha, 3))).collect();
        emit(out, l(vec![a(2), txt(&t), sels.clone(), l(sets)]), "trim_text+with (random)");
        // sequences: consecutive pieces of the text as fragments, or random ones
        let mut seqs = Vec::new();
        for _ in 0..3 {
            let k = 1 + rng.below(3);
            let frs: Vec<Sx> = (0..k).map(|_| txt(&rand_needle(&mut rng, &t, alpha, 2))).collect();
            seqs.push(l(frs));
        }
        let nocase = rng.chance(1, 3);
        let skipset = if rng.chance(1, 2) { txt(&[' ', ',']) } else { txt(&rand_text(&mut rng, alpha, 4)) };
        emit(out, l(vec![a(5), txt(&t), sels.clone(), l(seqs), skipset, a(if nocase { 1 } else { 0 })]), "find_text_sequence (random)");
        // regex: 1-4 patterns of the family
        let np = 1 + rng.below(4);
        let pats: Vec<Sx> = (0..np).map(|_| text_sx(*rng.pick(PATTERNS))).collect();
        let s = rand_sels(&mut rng, n, 1);
        let which = s[rng.below(s.len())].clone();
        emit(out, l(vec![a(3), txt(&t), which, a(rng.below(2) as i64), l(pats)]), "find_text_regex (random)");
        // segmentation on random known selections
        let known: Vec<Sx> = (0..rng.below(5))
            .map(|_| {
                let b = rng.below(n + 1);
                let e = b + rng.below(n - b + 1);
                l(vec![a(b as i64), a(e as i64)])
            })
            .collect();
        let mut ss = vec![l(vec![a(0), a(0), a(n as i64)])];
        for _ in 0..3 {
            let b = rng.below(n + 1);
            let e = b + rng.below(n - b + 1);
            ss.push(l(vec![a(1 + rng.below(2) as i64), a(b as i64), a(e as i64)]));
        }
        emit(out, l(vec![a(4), a(*rng.pick(&[0usize, 1, 2, 3, 100]) as i64), txt(&t), l(known), l(ss)]), "segmentation (random)");
        if it % 4 == 0 {
            let texts: Vec<Sx> = (0..1 + rng.below(3)).map(|_| txt(&rand_text(&mut rng, alpha, 6))).collect();
            emit(out, l(vec![a(6), l(texts), l(needles)]), "store find_text (random)");
        }
    }
    // --- index setups: the same operations on resources built under milestone intervals 0 (none),
    // 1, 2, 3, 5, 100, carrying annotations (mostly in front of the matches) and / or holding another
    // text first (with_string on a resource that has a text): answers depend on the text only
    {
        let setup_sx = |interval: usize, anns: &[(usize, usize)], prev: Option<&[char]>| -> Sx {
            l(vec![
                a(interval as i64),
                l(anns.iter().map(|p| l(vec![a(p.0 as i64), a(p.1 as i64)])).collect()),
                a(if prev.is_some() { 1 } else { 0 }),
                txt(prev.unwrap_or(&[])),
            ])
        };
        let all_kinds = |out: &mut Out, rng: &mut Rng, t: &[char], sels: Sx, needles: Vec<Sx>, setup: Sx, key: &str| {
            let n = t.len();
            emit(out, l(vec![a(0), txt(t), sels.clone(), l(needles.clone()), setup.clone()]), key);
            emit(out, l(vec![a(1), txt(t), sels.clone(), l(needles.clone()), setup.clone()]), key);
            emit(out, l(vec![a(2), txt(t), sels.clone(), l(vec![txt(&[' ', ';']), txt(&['\u{e9}', 'a'])]), setup.clone()]), key);
            let pats: Vec<Sx> = vec![text_sx(*rng.pick(PATTERNS)), text_sx("[a-z]+")];
            let which = if n > 0 && rng.chance(1, 2) { l(vec![a(1), a(rng.below(n) as i64), a(n as i64)]) } else { l(vec![a(0), a(0), a(n as i64)]) };
            emit(out, l(vec![a(3), txt(t), which, a(rng.below(2) as i64), l(pats), setup.clone()]), key);
            let seqs = l(vec![l(needles.iter().take(2).cloned().collect())]);
            emit(out, l(vec![a(5), txt(t), sels.clone(), seqs, txt(&[' ', ';', 'a', '\u{e9}', '\u{4e2d}']), a(0), setup]), key);
        };
        // fixed: every interval x annotation set x previous text on a few mixed-width texts
        let ftexts = ["ab;cd;ef", "\u{e9}\u{e9};a\u{e9};b needle", "a\u{1f600};\u{4e2d}b;needle \u{e9}", "needle;needle"];
        let fanns: Vec<Vec<(usize, usize)>> = vec![vec![], vec![(0, 1)], vec![(0, 0), (1, 2)], vec![(1, 3), (0, 2)], vec![(2, 2)]];
        let fprev: Vec<Option<Vec<char>>> = vec![
            None,
            Some("abcdefghijkl".chars().collect()),
            Some("\u{e9}\u{e9}\u{1f600}a\u{4e2d}\u{4e2d}bc".chars().collect()),
            Some("a".chars().collect()),
        ];
        for ft in ftexts.iter() {
            let t: Vec<char> = ft.chars().collect();
            let needles = vec![txt(&[';']), txt(&"needle".chars().collect::<Vec<char>>()), txt(&['\u{e9}']), txt(&['b'])];
            for interval in [0usize, 1, 2, 3, 5, 100] {
                for anns in &fanns {
                    for prev in &fprev {
                        if !thorough && anns.is_empty() && prev.is_none() {
                            continue;
                        }
                        let sels = l(rand_sels(&mut rng, t.len(), 2));
                        let setup = setup_sx(interval, anns, prev.as_deref());
                        all_kinds(out, &mut rng, &t, sels, needles.clone(), setup, "operations under index setups (fixed)");
                    }
                }
            }
        }
        // random
        let nsetup = if thorough { 12000 } else { 700 };
        for it in 0..nsetup {
            let alpha = if it % 4 == 0 { &wide } else { &plain };
            let t = rand_text(&mut rng, alpha, 12);
            let n = t.len();
            let interval = *rng.pick(&[0usize, 0, 1, 2, 3, 5, 100]);
            let mut anns = Vec::new();
            for _ in 0..rng.below(4) {
                // mostly in the first half: in front of what is found
                let b = rng.below(n / 2 + 1);
                let e = b + rng.below((n - b).min(3) + 1);
                anns.push((b, e));
            }
            let prev: Option<Vec<char>> = if rng.chance(1, 2) {
                let pa = if rng.chance(1, 2) { &plain } else { &wide };
                let len = (interval.min(12)) + rng.below(6);
                Some((0..len).map(|_| *rng.pick(pa)).collect())
            } else {
                None
            };
            let sels = l(rand_sels(&mut rng, n, 3));
            let needles: Vec<Sx> = (0..3).map(|_| txt(&rand_needle(&mut rng, &t, alpha, 3))).collect();
            let setup = setup_sx(interval, &anns, prev.as_deref());
            all_kinds(out, &mut rng, &t, sels, needles, setup, "operations under index setups (random)");
        }
    }
    // regex: every pattern alone and every ordered pair on a few fixed texts, whole and sub-selection
    let rtexts = ["ab ab,aab", "a\u{e9}b \u{1f600}ba", "aaaa", ""];
    for t in rtexts.iter() {
        let tc: Vec<char> = t.chars().collect();
        let n = tc.len();
        let mut targets = vec![l(vec![a(0), a(0), a(n as i64)])];
        if n >= 3 {
            targets.push(l(vec![a(1), a(1), a(n as i64 - 1)]));
            targets.push(l(vec![a(2), a(2), a(n as i64)]));
        }
        for tg in &targets {
            for (i, p) in PATTERNS.iter().enumerate() {
                emit(out, l(vec![a(3), txt(&tc), tg.clone(), a(1), l(vec![text_sx(p)])]), "find_text_regex (family)");
                for (j, q) in PATTERNS.iter().enumerate() {
                    if thorough || (i + j) % 2 == 0 {
                        for allow in [0, 1] {
                            emit(out, l(vec![a(3), txt(&tc), tg.clone(), a(allow), l(vec![text_sx(p), text_sx(q)])]), "find_text_regex (family)");
                        }
                    }
                    // three expressions, the middle one never matches: pre-selection by a RegexSet
                    if (i + 2 * j) % 5 == 0 {
                        emit(out, l(vec![a(3), txt(&tc), tg.clone(), a(((i + j) % 2) as i64), l(vec![text_sx(p), text_sx("zz"), text_sx(q)])]), "find_text_regex (family, 3 expressions)");
                    }
                }
            }
        }
    }
}

pub const RULE: &str = "Exhaustive: every text of length <=4 (thorough 5) over {a, A, e-acute (2 bytes), U+1F600 (4 bytes)} x the resource and every sub-selection (unbound, bound, bound through ResultItem<TextSelection>) x every needle / delimiter of length <=2 over the same alphabet (empty included) for find_text, find_text_nocase and split_text, x 5 trim sets for trim_text and trim_text_with; targeted trim cases: trim sets of 2-, 3- and 4-byte characters (guillemets, NBSP, ellipsis, typographic quote, emoji) on texts with leading/trailing runs (0-2, thorough 0-3, single and mixed widths) around 5 cores incl. the empty one (text = only trimmed characters), on the resource and all / random sub-selections; segmentation of every range of a 4- and a 5-character mixed-width text under every set of <=2 known selections (zero-width and end-of-text ones included) with milestones. Seeded random: texts up to 10 (thorough 14) characters over an 18-character alphabet with 1-4 byte characters incl. characters whose lower-casing changes the UTF-8 length or the number of characters (U+0130, U+1E9E, U+212A, U+023A), needles drawn from the text (case flipped) or at random, random trim sets, fragment sequences with a skip set (exact and case-insensitive), 1-4 regular expressions from a family of 20 (literals, classes, alternation, empty matches, word boundary, lazy, 0-2 capture groups incl. optional ones) with and without allow_overlap on the resource or a sub-selection, the regex crate's own matches on a plain copy of the slice being the oracle; every pattern and (half of / thorough: all) ordered pattern pairs, and a fifth of the triples with a never-matching middle expression (RegexSet pre-selection, with and without a precompiled set), on 4 fixed texts (whole and two sub-selections); store-wide find_text over 1-3 resources. Index setups: find_text, find_text_nocase, split_text, trim_text, find_text_regex and find_text_sequence on resources built under milestone_interval 0 (no milestones), 1, 2, 3, 5, 100, carrying 0-3 annotations mostly in front of the matches, and / or that held another text first (TextResource::from_string(prev).with_string(text), prev at least one interval long, other byte layout): 4 fixed mixed-width texts x 6 intervals x 5 annotation sets x 4 previous texts, plus 700 (thorough 12000) random rounds; the answers must be those of the plain text alone. One evaluation = one operation call with its complete result list (begin, end and text of every returned selection). Non-trivial = the result has more than one selection (find/split/segmentation/sequence), something was trimmed, or a regex result exists. distinct = distinct model inputs.";

pub const EXHAUSTIVE: bool = true;
