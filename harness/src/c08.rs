//! C08: layer 1 (LimitIter and Handles through the public API) and layers 2/3 (queries, see
//! c08_query.rs).  Request codes: coq/Run/C08.v.
use crate::out::{guard, Out};
use crate::rng::Rng;
use crate::storegen::{gen_history, new_store, GenCfg};
use crate::sx::{a, b, l, nats, Sx};
use stam::*;

pub use crate::c10::dop as c10_dop;
#[path = "c08_query.rs"]
pub mod query;
use query::*;

pub struct Ctx {
    store: AnnotationStore,
}

fn mk<'a>(store: &'a AnnotationStore, v: &[usize]) -> Handles<'a, Annotation> {
    Handles::from_iter(v.iter().map(|n| AnnotationHandle::new(*n)), store)
}

fn obs(h: &Handles<Annotation>, canon: bool, k: usize) -> Sx {
    let mut arr: Vec<usize> = h.iter().map(|x| x.as_usize()).collect();
    if canon {
        arr.sort();
    }
    l(vec![nats(arr), l((0..k).map(|x| b(h.contains(&AnnotationHandle::new(x)))).collect())])
}

fn panic_sx() -> Sx {
    l(vec![a(-1)])
}

impl Ctx {
    pub fn new() -> Self {
        Ctx { store: AnnotationStore::default() }
    }
    pub fn exec(&self, req: &Sx) -> (Sx, Vec<Sx>, bool) {
        let kind = req.nth(0).int();
        let list = |x: &Sx| -> Vec<usize> { x.list().iter().map(|v| v.int() as usize).collect() };
        match kind {
            0 => {
                let bg = req.nth(1).int() as isize;
                let en = req.nth(2).int() as isize;
                let n = req.nth(3).int() as usize;
                let r = guard(|| (0..n).limit(bg, en).collect::<Vec<usize>>());
                let nt = r.as_ref().map(|v| !v.is_empty() && v.len() < n).unwrap_or(true);
                (req.clone(), vec![r.map(nats).unwrap_or_else(panic_sx)], nt)
            }
            1 | 2 => {
                let av = list(req.nth(1));
                let bv = list(req.nth(2));
                let k = req.nth(3).int() as usize;
                let r = guard(|| {
                    let mut ha = mk(&self.store, &av);
                    let hb = mk(&self.store, &bv);
                    if kind == 1 {
                        ha.union(&hb);
                    } else {
                        ha.intersection(&hb);
                    }
                    obs(&ha, kind == 2, k)
                });
                (req.clone(), vec![r.unwrap_or_else(panic_sx)], av.len() > 1 && bv.len() > 1)
            }
            3 => {
                let av = list(req.nth(1));
                let k = req.nth(2).int() as usize;
                let r = guard(|| obs(&mk(&self.store, &av), false, k));
                (req.clone(), vec![r.unwrap_or_else(panic_sx)], av.len() > 1)
            }
            4 => {
                let av = list(req.nth(1));
                let r = guard(|| {
                    let mut h = mk(&self.store, &av);
                    h.sort();
                    nats(h.iter().map(|x| x.as_usize()))
                });
                (req.clone(), vec![r.unwrap_or_else(panic_sx)], av.len() > 1)
            }
            5 => {
                let mut store = new_store();
                for op in req.nth(1).list() {
                    apply_c08(&mut store, op);
                }
                let mut outs = Vec::new();
                let mut nt = false;
                for qe in req.nth(2).list() {
                    let q = q_of(qe.nth(0));
                    let t = eval_text(&store, &q);
                    if t.list().iter().any(|r| !r.list().is_empty()) {
                        nt = true;
                    }
                    outs.push(t);
                    outs.push(eval_prog(&store, &q));
                    if qe.nth(1).int() != 0 {
                        outs.push(eval_chain(&store, &q));
                    }
                }
                (req.clone(), outs, nt)
            }
            6 => {
                let mut sa = new_store();
                let mut sb = new_store();
                for op in req.nth(1).list() {
                    apply_c08(&mut sa, op);
                    apply_c08(&mut sb, op);
                }
                let n0 = sa.annotations_len();
                let outs = exec_add(&mut sa, &mut sb, req.nth(2));
                let nt = sa.annotations_len() > n0;
                (req.clone(), outs, nt)
            }
            8 => {
                let mut store = new_store();
                for op in req.nth(1).list() {
                    apply_c08(&mut store, op);
                }
                let q = q_of(req.nth(2));
                let outs = exec_collection(&mut store, &q, req.nth(3));
                let nt = outs.iter().all(|o| o.list().iter().any(|r| !r.list().is_empty()));
                (req.clone(), outs, nt)
            }
            _ => {
                let mut sa = new_store();
                let mut sb = new_store();
                for op in req.nth(1).list() {
                    apply_c08(&mut sa, op);
                    apply_c08(&mut sb, op);
                }
                let n0 = sb.annotations().count();
                let sub = q_of(req.nth(3));
                let outs = exec_delete(&mut sa, &mut sb, req.nth(2).int(), &sub, req.nth(4).int() != 0);
                let nt = sb.annotations().count() < n0;
                (req.clone(), outs, nt)
            }
        }
    }
}

/// the texts of the annotations of the store a history builds (one selection, or joined by a space)
fn text_pool(ops: &[Sx]) -> Vec<Vec<i64>> {
    let mut store = new_store();
    for op in ops {
        apply_c08(&mut store, op);
    }
    let mut pool = Vec::new();
    let _ = guard(|| {
        for ann in store.annotations() {
            let parts: Vec<Vec<i64>> = ann.textselections().map(|t| text_cps(t.begin(), t.end())).collect();
            if !parts.is_empty() {
                // as text_join(" ") does it: no delimiter while nothing has been written yet
                let mut joined = Vec::new();
                for p in parts.iter() {
                    if !joined.is_empty() {
                        joined.push(32);
                    }
                    joined.extend(p.iter());
                }
                pool.push(joined);
                if parts.len() > 1 {
                    pool.push(parts[0].clone());
                }
            }
        }
    });
    pool
}

/// operations that add an annotation over two text selections of one resource (a Multi, Composite or
/// Directional selector) and simple annotations on and around those ranges
fn discontinuous_ops(ops: &[Sx], rng: &mut Rng) -> Vec<Sx> {
    let mut store = new_store();
    for op in ops {
        apply_c08(&mut store, op);
    }
    let cand: Vec<(usize, usize)> = store.resources().filter(|r| r.textlen() >= 4).map(|r| (r.handle().as_usize(), r.textlen())).collect();
    if cand.is_empty() {
        return vec![];
    }
    let (h, len) = *rng.pick(&cand);
    let b = rng.below(len - 3);
    let gap = 1 + rng.below((len - b - 2).min(3));
    let rr = l(vec![a(1), a(h as i64)]);
    let text = |x: usize, y: usize| l(vec![a(0), rr.clone(), l(vec![a(0), a(x as i64)]), l(vec![a(0), a(y as i64)])]);
    let (b2, e2) = (b + gap, (b + gap + 1 + rng.below(2)).min(len));
    let mut parts = vec![text(b, b + 1), text(b2, e2)];
    if rng.chance(1, 3) {
        parts.reverse();
    }
    let mut sel = vec![a(7), a(1 + rng.below(3) as i64)];
    sel.extend(parts);
    let mut out = vec![l(vec![a(3), a(-1), l(sel), l(vec![])])];
    for (x, y) in [(b, b + 1), (b + 1, b2), (b2, e2), (b, e2), (b, b), (e2, e2), (b + 1, b + 1)] {
        if x <= y && y <= len && rng.chance(2, 3) {
            out.push(l(vec![a(3), a(-1), text(x, y), l(vec![])]));
        }
    }
    out
}

/// annotations on text with upper-case letters, ASCII and not (positions 4 'B' and 7 'É' of the C08
/// alphabet), and TEXT AS NOCASE queries for them with the literal in another case, as first and
/// (through the orderings) as later constraint of TEXT and ANNOTATION queries
fn nocase_shapes(ops: &[Sx], rng: &mut Rng) -> (Vec<Sx>, Vec<Q>) {
    let mut store = new_store();
    for op in ops {
        apply_c08(&mut store, op);
    }
    let mut more = Vec::new();
    let mut cand: Vec<(usize, i64, usize)> = store
        .resources()
        .filter(|r| r.textlen() >= 8 && r.id().map(|i| i.starts_with('r')).unwrap_or(false))
        .map(|r| (r.handle().as_usize(), r.id().unwrap()[1..].parse::<i64>().unwrap_or(0), r.textlen()))
        .collect();
    if cand.is_empty() {
        // a fresh resource, long enough (token 6 is not used by the history generator)
        let len = 9 + rng.below(8);
        more.push(l(vec![a(0), a(6), a(len as i64)]));
        cand.push((store.resources_len(), 6, len));
    }
    let (h, tok, len) = *rng.pick(&cand);
    let rr = l(vec![a(1), a(h as i64)]);
    let mut ranges = Vec::new();
    for _ in 0..3 {
        let b = 3 + rng.below(5);
        let e = (b.max(7) + 1 + rng.below(2)).min(len);
        let b = b.min(e);
        ranges.push((b, e));
        more.push(l(vec![a(3), a(-1), l(vec![a(0), rr.clone(), l(vec![a(0), a(b as i64)]), l(vec![a(0), a(e as i64)])]), l(vec![])]));
    }
    let flip = |c: i64, up: bool| -> i64 {
        match (c, up) {
            (97..=122, true) => c - 32,
            (65..=90, false) => c + 32,
            (233, true) => 201,
            (201, false) => 233,
            _ => c,
        }
    };
    let mut qs = Vec::new();
    for (b, e) in ranges {
        let up = rng.chance(1, 2);
        let lit: Vec<i64> = text_cps(b, e).into_iter().map(|c| flip(c, up)).collect();
        let rt = if rng.chance(2, 3) { 5 } else { 0 };
        let cs = vec![Cst::Res(VRef::Id(tok), false), Cst::Text(lit, true)];
        qs.push(Q { name: 0, rt, cs, lim: None, opt: false, sub: None });
    }
    (more, qs)
}

/// annotations over text of TWO resources made in step (Multi, Composite or Directional selector over
/// the n-th text selection of each, so the text selection handles coincide across the resources),
/// and TEXT queries that start from such an annotation: ANNOTATION "id" and ANNOTATION ?a first
fn aligned_shapes(ops: &[Sx], rng: &mut Rng) -> (Vec<Sx>, Vec<Q>) {
    let mut store = new_store();
    for op in ops {
        apply_c08(&mut store, op);
    }
    let mut more = Vec::new();
    let cand: Vec<(usize, i64, usize)> = store
        .resources()
        .filter(|r| r.textlen() >= 6 && r.id().map(|i| i.starts_with('r')).unwrap_or(false))
        .filter_map(|r| r.id().unwrap()[1..].parse::<i64>().ok().map(|t| (r.handle().as_usize(), t, r.textlen())))
        .collect();
    let pair: Vec<(usize, i64, usize)> = if cand.len() >= 2 && rng.chance(1, 3) {
        // two resources of the history (their text selections so far may or may not be in step)
        let x = rng.below(cand.len());
        let y = (x + 1 + rng.below(cand.len() - 1)) % cand.len();
        vec![cand[x], cand[y]]
    } else {
        // two fresh resources (tokens 6 and 7 are not used by the history generator)
        let n = store.resources_len();
        let (la, lb) = (6 + rng.below(6), 6 + rng.below(6));
        more.push(l(vec![a(0), a(6), a(la as i64)]));
        more.push(l(vec![a(0), a(7), a(lb as i64)]));
        vec![(n, 6, la), (n + 1, 7, lb)]
    };
    let text = |h: usize, x: usize, y: usize| l(vec![a(0), l(vec![a(1), a(h as i64)]), l(vec![a(0), a(x as i64)]), l(vec![a(0), a(y as i64)])]);
    let mut qs = Vec::new();
    let steps = 2 + rng.below(2);
    for k in 0..steps {
        let mut parts = Vec::new();
        for &(h, _, len) in &pair {
            let b = (2 * k + rng.below(2)).min(len - 1);
            let e = (b + 1 + rng.below(2)).min(len);
            parts.push(text(h, b, e));
        }
        if rng.chance(1, 4) {
            // the same text once more: still to be returned once
            parts.push(parts[0].clone());
        }
        if rng.chance(1, 3) {
            parts.reverse();
        }
        let mut sel = vec![a(7), a(1 + rng.below(3) as i64)];
        sel.extend(parts);
        let tokn = 10 + k as i64;
        more.push(l(vec![a(3), a(tokn), l(sel), l(vec![])]));
        let meta = rng.chance(1, 4);
        let mut cs = vec![Cst::Ann(VRef::Id(tokn), meta)];
        if rng.chance(1, 3) {
            cs.push(Cst::Res(VRef::Id(pair[rng.below(2)].1), false));
        }
        qs.push(Q { name: 0, rt: 5, cs, lim: None, opt: false, sub: None });
    }
    for _ in 0..2 {
        let outer_cs = if rng.chance(1, 2) { vec![] } else { vec![Cst::Res(VRef::Id(pair[rng.below(2)].1), false)] };
        let sub = Q { name: 1, rt: 5, cs: vec![Cst::Ann(VRef::Var(0), rng.chance(1, 4))], lim: None, opt: rng.chance(1, 4), sub: None };
        qs.push(Q { name: 0, rt: 0, cs: outer_cs, lim: None, opt: false, sub: Some(Box::new(sub)) });
    }
    (more, qs)
}

/// several data items with the same key and the same string value under different public ids (a set
/// does not merge those), on annotations of their own, and exact matches DATA set key = "value" as
/// first and (through the orderings) as later constraint of ANNOTATION, DATA and RESOURCE queries
fn same_value_shapes(ops: &[Sx], rng: &mut Rng) -> (Vec<Sx>, Vec<Q>) {
    let mut store = new_store();
    for op in ops {
        apply_c08(&mut store, op);
    }
    let mut more = Vec::new();
    let cand: Vec<(usize, i64, usize)> = store
        .resources()
        .filter(|r| r.textlen() >= 2 && r.id().map(|i| i.starts_with('r')).unwrap_or(false))
        .filter_map(|r| r.id().unwrap()[1..].parse::<i64>().ok().map(|t| (r.handle().as_usize(), t, r.textlen())))
        .collect();
    let (h, rtok, len) = if cand.is_empty() {
        let n = store.resources_len();
        more.push(l(vec![a(0), a(8), a(6)]));
        (n, 8, 6)
    } else {
        *rng.pick(&cand)
    };
    let (st, kt) = (rng.below(3) as i64, rng.below(3) as i64);
    let value: Vec<i64> = match rng.below(3) {
        0 => vec![97],
        1 => vec![98, 233],
        _ => vec![110, 111, 117, 110],
    };
    let mut v = vec![a(4)];
    v.extend(value.iter().map(|c| a(*c)));
    let val = l(v);
    let n = 2 + rng.below(2);
    for i in 0..n {
        let b = rng.below(len - 1);
        let target = if rng.chance(1, 4) {
            l(vec![a(3), l(vec![a(1), a(h as i64)])])
        } else {
            l(vec![a(0), l(vec![a(1), a(h as i64)]), l(vec![a(0), a(b as i64)]), l(vec![a(0), a((b + 1 + rng.below(2)).min(len) as i64)])])
        };
        // the last one sometimes without an id of its own (found again by key and value)
        let did = if i + 1 == n && rng.chance(1, 3) { a(-1) } else { l(vec![a(0), a(20 + i as i64)]) };
        let mut data = vec![l(vec![l(vec![a(0), a(st)]), did, l(vec![a(0), a(kt)]), val.clone()])];
        if rng.chance(1, 3) {
            data.push(l(vec![l(vec![a(0), a(st)]), a(-1), l(vec![a(0), a((kt + 1) % 3)]), l(vec![a(2), a(1)])]));
        }
        more.push(l(vec![a(3), a(-1), target, l(data)]));
    }
    let kv = |meta: bool| Cst::KeyVal(st, kt, val.clone(), meta);
    let mut qs = Vec::new();
    let extra = |rng: &mut Rng| -> Vec<Cst> {
        match rng.below(3) {
            0 => vec![],
            1 => vec![Cst::Res(VRef::Id(rtok), false)],
            _ => vec![Cst::Set(VRef::Id(st), false)],
        }
    };
    let mut cs = vec![kv(false)];
    cs.extend(extra(rng));
    qs.push(Q { name: 0, rt: 0, cs, lim: None, opt: false, sub: None });
    let mut cs = vec![kv(false)];
    if rng.chance(1, 2) {
        cs.push(Cst::Set(VRef::Id(st), false));
    }
    qs.push(Q { name: 0, rt: 1, cs, lim: None, opt: false, sub: None });
    qs.push(Q { name: 0, rt: 3, cs: vec![kv(rng.chance(1, 3))], lim: None, opt: false, sub: None });
    let sub = Q { name: 1, rt: 1, cs: vec![kv(false), Cst::Ann(VRef::Var(0), false)], lim: None, opt: false, sub: None };
    qs.push(Q { name: 0, rt: 0, cs: vec![], lim: None, opt: false, sub: Some(Box::new(sub)) });
    let sub = Q { name: 1, rt: 0, cs: vec![kv(false), Cst::Res(VRef::Var(0), false)], lim: None, opt: false, sub: None };
    qs.push(Q { name: 0, rt: 3, cs: vec![], lim: None, opt: false, sub: Some(Box::new(sub)) });
    (more, qs)
}

/// RELATION ?outer OP first (and, through the orderings, later) in a sub-query, ?outer bound to the
/// annotations of the store - among them the discontinuous ones: every operator
fn relation_queries(rng: &mut Rng) -> Vec<Q> {
    let mut out = Vec::new();
    for k in 0..10 {
        let extra = match rng.below(3) {
            0 => vec![],
            1 => vec![Cst::Res(VRef::Id(rng.below(6) as i64), false)],
            _ => vec![Cst::Ann(VRef::Var(0), rng.chance(1, 2))],
        };
        let mut cs = vec![Cst::Rel(0, k)];
        cs.extend(extra);
        let rt = if rng.chance(1, 4) { 5 } else { 0 };
        let cs = if rt == 5 { vec![Cst::Rel(0, k)] } else { cs };
        let sub = Q { name: 1, rt, cs, lim: None, opt: false, sub: None };
        out.push(Q { name: 0, rt: 0, cs: vec![], lim: None, opt: false, sub: Some(Box::new(sub)) });
    }
    out
}

fn qentry(q: &Q) -> Sx {
    l(vec![q_sx(q), a(chain_available(q) as i64)])
}

/// all orderings of the constraints of the outer query (and, separately, of its sub-query)
fn orderings(q: &Q) -> Vec<Q> {
    let mut out = Vec::new();
    if q.cs.len() <= 4 {
        for p in permutations(&q.cs) {
            let mut q2 = q.clone();
            q2.cs = p;
            out.push(q2);
        }
    } else {
        out.push(q.clone());
    }
    if let Some(sub) = &q.sub {
        if sub.cs.len() >= 2 && sub.cs.len() <= 3 {
            for p in permutations(&sub.cs).into_iter().skip(1) {
                let mut q2 = q.clone();
                let mut s2 = (**sub).clone();
                s2.cs = p;
                q2.sub = Some(Box::new(s2));
                out.push(q2);
            }
        }
    }
    out
}

pub fn generate_queries(out: &mut Out, ctx: &Ctx, tier: &str, seed: u64) {
    let thorough = tier == "thorough";
    let mut rng = Rng::new(seed ^ 0xC08_2);
    let nhist = if thorough { 60000 } else { 4000 };
    let mut cfg = QCfg { pool: vec![], facts: vec![], rts: vec![0, 0, 0, 1, 1, 2, 3, 3, 4, 5, 5], texts: true, unions: true, limits: true, max_depth: 2 };
    for i in 0..nhist {
        let hcfg = GenCfg { max_ops: if i % 3 == 0 { 24 } else { 12 }, removals: if i % 2 == 0 { 2 } else { 0 }, invalid: 0, values: true };
        let mut ops = gen_history(&mut rng, &hcfg);
        let discontinuous = i % 3 == 1;
        if discontinuous {
            let more = discontinuous_ops(&ops, &mut rng);
            ops.extend(more);
        }
        let mut shaped: Vec<Q> = Vec::new();
        if i % 3 == 2 {
            let (more, qs) = nocase_shapes(&ops, &mut rng);
            ops.extend(more);
            shaped = qs;
        }
        let mut aligned: Vec<Q> = Vec::new();
        if i % 3 == 0 {
            let (more, qs) = aligned_shapes(&ops, &mut rng);
            ops.extend(more);
            out.count_n("select_text_of_annotation_over_two_resources", qs.len() as u64);
            aligned = qs;
        }
        if i % 5 == 3 {
            let (more, qs) = same_value_shapes(&ops, &mut rng);
            ops.extend(more);
            for q in qs {
                out.count("select_same_key_and_value");
                aligned.push(q);
            }
        }
        cfg.pool = text_pool(&ops);
        {
            let mut store = new_store();
            for op in &ops {
                apply_c08(&mut store, op);
            }
            cfg.facts = store_facts(&store, &mut rng);
        }
        let mut entries = Vec::new();
        for _ in 0..3 {
            let mut outer = Vec::new();
            let q = gen_query(&mut rng, &cfg, &mut outer, 0);
            out.count(&format!("select_rt{}", q.rt));
            if q.sub.is_some() {
                out.count("select_with_subquery");
            }
            if has_limit(&q) {
                out.count("select_with_limit");
            }
            // which constraint forms occur in queries that return something (coverage of sem)
            {
                let mut store = new_store();
                for op in &ops {
                    apply_c08(&mut store, op);
                }
                let rows = eval_prog(&store, &q);
                let nonempty = rows.list().iter().any(|r| !r.list().is_empty());
                let full = rows.list().iter().any(|r| r.list().len() >= 8);
                fn kinds(q: &Q, out: &mut Vec<String>) {
                    fn k(c: &Cst, rt: i64, out: &mut Vec<String>) {
                        match c {
                            Cst::Union(cs) => {
                                out.push(format!("rt{}_union", rt));
                                for c in cs {
                                    k(c, rt, out);
                                }
                            }
                            c => out.push(format!("rt{}_c{}", rt, cst_sx(c).nth(0).int())),
                        }
                    }
                    for c in &q.cs {
                        k(c, q.rt, out);
                    }
                    if let Some(s) = &q.sub {
                        kinds(s, out);
                    }
                }
                let mut ks = Vec::new();
                kinds(&q, &mut ks);
                for k in ks {
                    out.count(&format!("gen_{}", k));
                    if nonempty {
                        out.count(&format!("hit_{}", k));
                    }
                }
                if q.sub.is_some() && full {
                    out.count("subquery_with_inner_rows");
                }
            }
            for o in orderings(&q) {
                entries.push(qentry(&o));
            }
        }
        for q in &shaped {
            out.count("select_nocase_capitals");
            for o in orderings(q) {
                entries.push(qentry(&o));
            }
        }
        for q in &aligned {
            out.count("select_shaped");
            for o in orderings(q) {
                entries.push(qentry(&o));
            }
        }
        if discontinuous {
            for q in relation_queries(&mut rng) {
                out.count("select_relation_to_annotation");
                for o in orderings(&q) {
                    entries.push(qentry(&o));
                }
            }
        }
        out.count_n("select_entries", entries.len() as u64);
        let req = l(vec![a(5), l(ops.clone()), l(entries)]);
        let (i2, o, nt) = ctx.exec(&req);
        out.case(&i2, &o, nt, &req);
        if i % 400 == 7 {
            // DELETE without sub-query: an error, the store stays as it is
            let sub = Q { name: 0, rt: 0, cs: vec![], lim: None, opt: false, sub: None };
            let req = l(vec![a(7), l(ops.clone()), a(0), q_sx(&sub), a(1)]);
            let (i2, o, nt) = ctx.exec(&req);
            out.case(&i2, &o, nt, &req);
            out.count("delete_without_subquery");
        }
        if i % 4 == 0 {
            // DELETE ANNOTATION ?x { SELECT ANNOTATION ?x WHERE ... }
            // ... also over nested selects, the deleted variable bound by the outer or by the inner one
            // (DELETE <type of the variable>: annotations mostly, also data, keys, resources, data sets;
            //  a TEXT variable is an error)
            let drts = if rng.chance(1, 2) { vec![0] } else { vec![0, 1, 1, 2, 2, 3, 3, 4, 4, 5] };
            let dcfg = QCfg { pool: cfg.pool.clone(), facts: cfg.facts.clone(), rts: drts, texts: true, unions: true, limits: true, max_depth: 1 };
            let mut outer = Vec::new();
            let sub = gen_query(&mut rng, &dcfg, &mut outer, 0);
            let var = if sub.sub.is_some() && rng.chance(2, 3) { 1 } else { 0 };
            if var == 1 {
                out.count("delete_inner_variable");
            }
            let req = l(vec![a(7), l(ops.clone()), a(var), q_sx(&sub), a(0)]);
            let (i2, o, nt) = ctx.exec(&req);
            out.case(&i2, &o, nt, &req);
            out.count("delete");
            out.count(&format!("delete_rt{}", var_rt(var, &sub)));
        }
        if i % 4 == 2 || i % 4 == 3 {
            // a collection kept from a query, one member (mostly not the last one) removed, the
            // collection used again
            let ccfg = QCfg { pool: cfg.pool.clone(), facts: cfg.facts.clone(), rts: vec![0, 0, 0, 1, 1, 2, 3, 3], texts: true, unions: true, limits: true, max_depth: 1 };
            let mut outer = Vec::new();
            let mut q = gen_query(&mut rng, &ccfg, &mut outer, 0);
            let mut store = new_store();
            for op in &ops {
                apply_c08(&mut store, op);
            }
            let mut coll = collection_of(&eval_prog(&store, &q)).unwrap_or_default();
            if coll.len() < 2 {
                // rather all items of the type
                q.cs.clear();
                q.lim = None;
                q.sub = None;
                coll = collection_of(&eval_prog(&store, &q)).unwrap_or_default();
            }
            let victim = if coll.is_empty() {
                l(vec![])
            } else if coll.len() >= 2 && rng.chance(4, 5) {
                nats(coll[rng.below(coll.len() - 1)].clone())
            } else if rng.chance(1, 2) {
                nats(coll[rng.below(coll.len())].clone())
            } else {
                // something else of the store: what its removal takes along may be in the collection
                match rng.below(3) {
                    0 => nats(vec![0, rng.below(6), 0, 0]),
                    1 => nats(vec![3, rng.below(3), 0, 0]),
                    _ => nats(vec![4, rng.below(3), 0, 0]),
                }
            };
            let req = l(vec![a(8), l(ops.clone()), q_sx(&q), victim]);
            let (i2, o, nt) = ctx.exec(&req);
            out.case(&i2, &o, nt, &req);
            out.count("collection_after_removal");
            out.count(&format!("collection_rt{}", q.rt));
            if coll.len() >= 3 {
                out.count("collection_of_three_or_more");
            }
        }
        if i % 4 == 1 {
            // with an OFFSET the target is mostly a text selection or an annotation
            let with_off = rng.chance(1, 2);
            let acfg = QCfg { pool: cfg.pool.clone(), facts: cfg.facts.clone(), rts: if with_off { vec![5, 5, 5, 0, 0, 3] } else { vec![0, 0, 5, 5, 1, 2, 3, 4] }, texts: false, unions: false, limits: true, max_depth: 1 };
            // the new annotations get their handles in the order of the rows: TEXT levels that start
            // with RELATION are left out (the order of related_text() results is not modelled)
            fn rel_first(q: &Q) -> bool {
                (q.rt == 5 && matches!(q.cs.first(), Some(Cst::Rel(..)))) || q.sub.as_ref().map(|s| rel_first(s)).unwrap_or(false)
            }
            let mut outer = Vec::new();
            let mut sub = gen_query(&mut rng, &acfg, &mut outer, 0);
            for _ in 0..20 {
                if !rel_first(&sub) {
                    break;
                }
                outer.clear();
                sub = gen_query(&mut rng, &acfg, &mut outer, 0);
            }
            if rel_first(&sub) {
                sub.sub = None;
                sub.cs.clear();
            }
            let target = if sub.sub.is_some() && rng.chance(1, 2) { 1 } else { 0 };
            let id = if rng.chance(1, 3) { a(rng.below(9) as i64) } else { a(-1) };
            let nd = rng.below(3);
            let mut data = Vec::new();
            for _ in 0..nd {
                // (no floats: STAMQL text cannot denote one, C09 Known_C09_float)
                let v = match rng.below(5) {
                    0 => l(vec![a(0)]),
                    1 => l(vec![a(1), a(rng.below(2) as i64)]),
                    2 | 3 => l(vec![a(2), a(rng.range(-3, 3))]),
                    _ => l(vec![a(4), a(97 + rng.below(3) as i64)]),
                };
                data.push(l(vec![a(rng.below(4) as i64), a(rng.below(3) as i64), v]));
            }
            // TARGET ?x OFFSET b e: small begin-aligned cursors, sometimes end-aligned, sometimes beyond the item
            let off = if with_off {
                let b = rng.below(3) as i64;
                let cb = l(vec![a(0), a(b)]);
                let ce = match rng.below(4) {
                    0 => l(vec![a(1), a(0)]),
                    1 => l(vec![a(1), a(-(rng.below(3) as i64))]),
                    _ => l(vec![a(0), a(b + rng.below(3) as i64)]),
                };
                out.count("add_with_offset");
                l(vec![cb, ce])
            } else {
                l(vec![])
            };
            let req = l(vec![a(6), l(ops.clone()), l(vec![id, l(data), a(target), q_sx(&sub), off])]);
            let (i2, o, nt) = ctx.exec(&req);
            out.case(&i2, &o, nt, &req);
            out.count("add");
        }
    }
}

/// all duplicate-free lists over 0..universe of length <= maxlen (every order)
fn nodup_lists(universe: usize, maxlen: usize) -> Vec<Vec<usize>> {
    let mut out: Vec<Vec<usize>> = vec![vec![]];
    let mut frontier: Vec<Vec<usize>> = vec![vec![]];
    for _ in 0..maxlen {
        let mut next = Vec::new();
        for p in &frontier {
            for x in 0..universe {
                if !p.contains(&x) {
                    let mut q = p.clone();
                    q.push(x);
                    next.push(q);
                }
            }
        }
        out.extend(next.iter().cloned());
        frontier = next;
    }
    out
}

pub fn generate(out: &mut Out, tier: &str, seed: u64) {
    let thorough = tier == "thorough";
    let ctx = Ctx::new();
    generate_queries(out, &ctx, tier, seed);
    let emit = |out: &mut Out, req: Sx, key: &str| {
        let (i, o, nt) = ctx.exec(&req);
        out.case(&i, &o, nt, &req);
        out.count(key);
    };
    // LimitIter: every list length 0..=N and bounds -B..=B
    let (nmax, bmax) = if thorough { (12, 15) } else { (7, 9) };
    for n in 0..=nmax {
        for bg in -(bmax as i64)..=(bmax as i64) {
            for en in -(bmax as i64)..=(bmax as i64) {
                emit(out, l(vec![a(0), a(bg), a(en), a(n as i64)]), "limit");
            }
        }
    }
    // Handles: all ordered pairs of duplicate-free lists over a small universe
    let (u, ml) = if thorough { (6, 4) } else { (5, 3) };
    let lists = nodup_lists(u, ml);
    for av in &lists {
        emit(out, l(vec![a(3), nats(av.clone()), a(u as i64 + 1)]), "from_iter_contains");
        emit(out, l(vec![a(4), nats(av.clone())]), "sort");
        for bv in &lists {
            emit(out, l(vec![a(1), nats(av.clone()), nats(bv.clone()), a(u as i64 + 1)]), "union");
            emit(out, l(vec![a(2), nats(av.clone()), nats(bv.clone()), a(u as i64 + 1)]), "intersection");
        }
    }
    // random larger duplicate-free lists, sorted and unsorted
    let mut rng = Rng::new(seed);
    let nrand = if thorough { 200000 } else { 20000 };
    for _ in 0..nrand {
        let uni = 4 + rng.below(20);
        let mut gen = |rng: &mut Rng| -> Vec<usize> {
            let mut v: Vec<usize> = (0..uni).filter(|_| rng.chance(1, 2)).collect();
            if rng.chance(1, 2) {
                // shuffle
                for i in (1..v.len()).rev() {
                    let j = rng.below(i + 1);
                    v.swap(i, j);
                }
            }
            v
        };
        let av = gen(&mut rng);
        let bv = gen(&mut rng);
        let kind = 1 + rng.below(2) as i64;
        emit(out, l(vec![a(kind), nats(av), nats(bv), a(uni as i64 + 1)]), if kind == 1 { "union_random" } else { "intersection_random" });
        if rng.chance(1, 10) {
            let n = rng.below(40);
            let bg = rng.range(-45, 45);
            let en = rng.range(-45, 45);
            emit(out, l(vec![a(0), a(bg), a(en), a(n as i64)]), "limit_random");
        }
    }
}

pub const RULE: &str = "Layer 1 - LimitIter: exhaustive over item counts 0..=7 (thorough 12) and all (begin,end) in -9..=9 (thorough -15..=15), plus random larger ones; Handles: union and intersection of every ordered pair of duplicate-free handle lists of length <=3 over 5 handles (thorough <=4 over 6), in every order, followed by contains() probes, plus seeded random lists over up to 24 handles; from_iter/contains/sort on every list. Layers 2/3 - 4000 (thorough 60000) seeded random store histories of the C01 generator (<=12 or <=24 operations, typed values, half of them with removals); per history 3 random SELECT queries from the grammar of the fragment (result types ANNOTATION DATA KEY RESOURCE DATASET TEXT; 0-4 constraints per level out of ID, ANNOTATION, RESOURCE, DATASET, DATA set key, DATA set key op value, VALUE, DATA ?x, KEY ?x, TEXT ?x, RELATION ?x OP, TEXT literal incl. NOCASE with capitals, by id and by variable, normal and AS METADATA/TARGET; UNION of 2-3 branches; LIMIT with bounds -3..4; up to two nested (OPTIONAL) sub-queries referring to the outer variables; text literals drawn from the texts of the store), each in every order of the constraints of the outer level (<=4) and of the sub-query (<=3); every third history gets an annotation over two text selections of one resource (Multi/Composite/Directional) with simple annotations on and around its ranges, and ten queries SELECT ANNOTATION ?p { SELECT ANNOTATION|TEXT ?w WHERE RELATION ?p OP [; RESOURCE r | ANNOTATION ?p] } - one per relation operator, RELATION first and (through the orderings) later; per ordering: rows through STAMQL text, through the constructors and (queries without variables) through the iterator API, compared as sorted rows; every third history gets annotations over text of two resources made in step (Multi/Composite/Directional over the n-th text selection of each, so that the text selection handles coincide across resources; sometimes the same text twice) and TEXT queries starting from them (SELECT TEXT WHERE ANNOTATION id [AS TARGET] [; RESOURCE r], SELECT ANNOTATION ?a { SELECT [OPTIONAL] TEXT WHERE ANNOTATION ?a }); every third history gets annotations on text with capitals (ASCII and non-ASCII) and TEXT AS NOCASE queries with the literal in another case, first and later; every 4th history a DELETE query (also over nested selects, the deleted variable bound by the outer or the inner one; half of them over annotations as STAMQL text, the rest over data, keys, resources and data sets through the constructors - an item in several rows is removed once - or over a TEXT variable: an error) and every 4th an ADD ANNOTATION query (half of them TARGET ?x OFFSET b e on TEXT / ANNOTATION variables, begin- and end-aligned, also out of range) through query_mut, next to the direct calls, compared through the store observation of C01; DELETE without sub-query; every fifth history gets two or three annotations whose data items have the same key and the same string value under different public ids, and exact matches DATA set key = value first and later in ANNOTATION / DATA / RESOURCE queries and sub-queries; every second history a collection request: the distinct outer items of a random query (ANNOTATION, DATA, KEY or RESOURCE) are kept as handles, one member (4 of 5 times not the last one; sometimes another item whose removal takes members along) is removed by the direct call, then the collection is read back through Handles::items(), as the constraint Annotations/Data/Keys/Resources of a query, and through filter_any. Non-trivial: some row is returned / an annotation is added / removed. distinct = distinct request lines.";

pub const EXHAUSTIVE: bool = true;
