//! C08 layer 1: LimitIter and Handles through the public API.
use crate::out::{guard, Out};
use crate::rng::Rng;
use crate::sx::{a, b, l, nats, Sx};
use stam::*;

pub struct Ctx {
    store: AnnotationStore,
}

fn mk<'a>(store: &'a AnnotationStore, v: &[usize]) -> Handles<'a, Annotation> {
    Handles::from_iter(v.iter().map(|n| AnnotationHandle::new(*n)), store)
}

fn obs(h: &Handles<Annotation>, canon: bool, k: usize) -> Sx {
    let mut arr: Vec<usize> = h.iter().map(|x| x.as_usize()).collect();
    if canon {
        arr.sort();
    }
    l(vec![nats(arr), l((0..k).map(|x| b(h.contains(&AnnotationHandle::new(x)))).collect())])
}

fn panic_sx() -> Sx {
    l(vec![a(-1)])
}

impl Ctx {
    pub fn new() -> Self {
        Ctx { store: AnnotationStore::default() }
    }
    pub fn exec(&self, req: &Sx) -> (Sx, Vec<Sx>, bool) {
        let kind = req.nth(0).int();
        let list = |x: &Sx| -> Vec<usize> { x.list().iter().map(|v| v.int() as usize).collect() };
        match kind {
            0 => {
                let bg = req.nth(1).int() as isize;
                let en = req.nth(2).int() as isize;
                let n = req.nth(3).int() as usize;
                let r = guard(|| (0..n).limit(bg, en).collect::<Vec<usize>>());
                let nt = r.as_ref().map(|v| !v.is_empty() && v.len() < n).unwrap_or(true);
                (req.clone(), vec![r.map(nats).unwrap_or_else(panic_sx)], nt)
            }
            1 | 2 => {
                let av = list(req.nth(1));
                let bv = list(req.nth(2));
                let k = req.nth(3).int() as usize;
                let r = guard(|| {
                    let mut ha = mk(&self.store, &av);
                    let hb = mk(&self.store, &bv);
                    if kind == 1 {
                        ha.union(&hb);
                    } else {
                        ha.intersection(&hb);
                    }
                    obs(&ha, kind == 2, k)
                });
                (req.clone(), vec![r.unwrap_or_else(panic_sx)], av.len() > 1 && bv.len() > 1)
            }
            3 => {
                let av = list(req.nth(1));
                let k = req.nth(2).int() as usize;
                let r = guard(|| obs(&mk(&self.store, &av), false, k));
                (req.clone(), vec![r.unwrap_or_else(panic_sx)], av.len() > 1)
            }
            _ => {
                let av = list(req.nth(1));
                let r = guard(|| {
                    let mut h = mk(&self.store, &av);
                    h.sort();
                    nats(h.iter().map(|x| x.as_usize()))
                });
                (req.clone(), vec![r.unwrap_or_else(panic_sx)], av.len() > 1)
            }
        }
    }
}

/// all duplicate-free lists over 0..universe of length <= maxlen (every order)
fn nodup_lists(universe: usize, maxlen: usize) -> Vec<Vec<usize>> {
    let mut out: Vec<Vec<usize>> = vec![vec![]];
    let mut frontier: Vec<Vec<usize>> = vec![vec![]];
    for _ in 0..maxlen {
        let mut next = Vec::new();
        for p in &frontier {
            for x in 0..universe {
                if !p.contains(&x) {
                    let mut q = p.clone();
                    q.push(x);
                    next.push(q);
                }
            }
        }
        out.extend(next.iter().cloned());
        frontier = next;
    }
    out
}

pub fn generate(out: &mut Out, tier: &str, seed: u64) {
    let thorough = tier == "thorough";
    let ctx = Ctx::new();
    let emit = |out: &mut Out, req: Sx, key: &str| {
        let (i, o, nt) = ctx.exec(&req);
        out.case(&i, &o, nt, &req);
        out.count(key);
    };
    // LimitIter: every list length 0..=N and bounds -B..=B
    let (nmax, bmax) = if thorough { (12, 15) } else { (7, 9) };
    for n in 0..=nmax {
        for bg in -(bmax as i64)..=(bmax as i64) {
            for en in -(bmax as i64)..=(bmax as i64) {
                emit(out, l(vec![a(0), a(bg), a(en), a(n as i64)]), "limit");
            }
        }
    }
    // Handles: all ordered pairs of duplicate-free lists over a small universe
    let (u, ml) = if thorough { (6, 4) } else { (5, 3) };
    let lists = nodup_lists(u, ml);
    for av in &lists {
        emit(out, l(vec![a(3), nats(av.clone()), a(u as i64 + 1)]), "from_iter_contains");
        emit(out, l(vec![a(4), nats(av.clone())]), "sort");
        for bv in &lists {
            emit(out, l(vec![a(1), nats(av.clone()), nats(bv.clone()), a(u as i64 + 1)]), "union");
            emit(out, l(vec![a(2), nats(av.clone()), nats(bv.clone()), a(u as i64 + 1)]), "intersection");
        }
    }
    // random larger duplicate-free lists, sorted and unsorted
    let mut rng = Rng::new(seed);
    let nrand = if thorough { 200000 } else { 20000 };
    for _ in 0..nrand {
        let uni = 4 + rng.below(20);
        let mut gen = |rng: &mut Rng| -> Vec<usize> {
            let mut v: Vec<usize> = (0..uni).filter(|_| rng.chance(1, 2)).collect();
            if rng.chance(1, 2) {
                // shuffle
                for i in (1..v.len()).rev() {
                    let j = rng.below(i + 1);
                    v.swap(i, j);
                }
            }
            v
        };
        let av = gen(&mut rng);
        let bv = gen(&mut rng);
        let kind = 1 + rng.below(2) as i64;
        emit(out, l(vec![a(kind), nats(av), nats(bv), a(uni as i64 + 1)]), if kind == 1 { "union_random" } else { "intersection_random" });
        if rng.chance(1, 10) {
            let n = rng.below(40);
            let bg = rng.range(-45, 45);
            let en = rng.range(-45, 45);
            emit(out, l(vec![a(0), a(bg), a(en), a(n as i64)]), "limit_random");
        }
    }
}

pub const RULE: &str = "LimitIter: exhaustive over item counts 0..=7 (thorough 12) and all (begin,end) in -9..=9 (thorough -15..=15), plus random larger ones; Handles: union and intersection of every ordered pair of duplicate-free handle lists of length <=3 over 5 handles (thorough <=4 over 6), in every order (so sorted and unsorted flags both occur), followed by contains() probes of every handle, plus seeded random lists over up to 24 handles; from_iter/contains/sort on every list. Non-trivial: limit result non-empty and shorter than the input; both operands with more than one element. distinct = distinct request lines.";

pub const EXHAUSTIVE: bool = true;
