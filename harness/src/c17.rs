//! C17: Web Annotation export is well-formed JSON faithful to the annotation.
//!
//! request: (script config)
//!   script = list of operations on an empty store
//!     (0 id textlen)                 add a resource with that public id and a text of textlen characters
//!     (1 id)                         add an (empty) data set
//!     (2 id|-1 target ((set key value) ...))   annotate
//!     (3 a)                          remove annotation a
//!   target = (0 r b e) TextSelector on resource handle r, Offset::simple(b,e)
//!          | (1 a) AnnotationSelector without offset | (2 a b e) AnnotationSelector with Offset::simple(b,e)
//!          | (3 r) ResourceSelector | (4 d) DataSetSelector
//!          | (5 (t ...)) Multi | (6 (t ...)) Composite | (7 (t ...)) Directional
//!          | (8 d key) DataKeySelector | (9 d h) AnnotationDataSelector (data handle h)
//!   value  = (0) null | (1 text) | (2 bool) | (3 int) | (4 quarters) float q/4 | (5 k) NaN, inf, -inf
//!          | (6 (values)) list | (7 rfc3339) datetime | (9 neg digits zeros) the float that digits followed by zeros (decimal) parses to
//!   config = (ann_iri set_iri res_iri (extra_context ...) auto_generated auto_generator ((uri prefix) ...) template|-1)
//! Every live annotation of the resulting store is exported under the configuration.
//! The model input is a dump of the store as the exporter reads it (see coq/Run/C17.v).
use crate::out::{guard, Out};
use crate::rng::Rng;
use crate::sx::{a, b, l, text, Sx};
use stam::*;

pub struct Ctx {}

fn none() -> Sx {
    Sx::A(-1)
}

fn value_of(x: &Sx) -> Option<DataValue> {
    let k = x.nth(0).int();
    Some(match k {
        0 => DataValue::Null,
        1 => DataValue::String(x.nth(1).string()),
        2 => DataValue::Bool(x.nth(1).int() != 0),
        3 => DataValue::Int(x.nth(1).int() as isize),
        4 => DataValue::Float(x.nth(1).int() as f64 / 4.0),
        5 => DataValue::Float(match x.nth(1).int() {
            0 => f64::NAN,
            1 => f64::INFINITY,
            _ => f64::NEG_INFINITY,
        }),
        6 => DataValue::List(x.nth(1).list().iter().filter_map(value_of).collect()),
        7 => DataValue::Datetime(DateTime::parse_from_rfc3339(&x.nth(1).string()).ok()?),
        9 => {
            let mut t = x.nth(2).string();
            for _ in 0..x.nth(3).int() {
                t.push('0');
            }
            let f: f64 = t.parse().ok()?;
            DataValue::Float(if x.nth(1).int() != 0 { -f } else { f })
        }
        _ => return None,
    })
}

/// the value as the model sees it (what the store holds)
fn value_sx(v: &DataValue) -> Sx {
    match v {
        DataValue::Null => l(vec![a(0)]),
        DataValue::String(s) => l(vec![a(1), text(s)]),
        DataValue::Bool(x) => l(vec![a(2), b(*x)]),
        DataValue::Int(z) => l(vec![a(3), a(*z as i64)]),
        DataValue::Float(f) => {
            if f.is_nan() {
                l(vec![a(5), a(0)])
            } else if f.is_infinite() {
                l(vec![a(5), a(if *f > 0.0 { 1 } else { 2 })])
            } else if f.abs() < 1.0e15 && (*f * 4.0).fract() == 0.0 {
                l(vec![a(4), a((*f * 4.0) as i64)])
            } else {
                // a whole float of any magnitude: the digits of its shortest representation and the zeros
                // that follow them, taken from the exponent format (not from the Display under test)
                let (mant, zeros) = whole_digits(f.abs());
                l(vec![a(9), b(*f < 0.0), text(&mant), a(zeros as i64)])
            }
        }
        DataValue::List(v) => l(vec![a(6), l(v.iter().map(value_sx).collect())]),
        DataValue::Datetime(d) => l(vec![a(7), text(&d.to_rfc3339())]),
    }
}

/// 1.8446744073709552e19 -> ("18446744073709552", 3); only meaningful for whole floats (the
/// generator produces no others beyond the grid of quarters)
fn whole_digits(f: f64) -> (String, usize) {
    let e = format!("{:e}", f);
    let (m, ex) = e.split_once('e').unwrap_or((&e, "0"));
    let mant: String = m.chars().filter(|c| c.is_ascii_digit()).collect();
    let ex: i64 = ex.parse().unwrap_or(0);
    let zeros = ex + 1 - mant.len() as i64;
    (mant, if zeros > 0 { zeros as usize } else { 0 })
}

/// a number beyond 2^62: sign, number of digits, first 15 digits (see tree_sx in coq/Run/C17.v)
fn big_number(neg: bool, digits: &str) -> Sx {
    let first: String = digits.chars().take(15).collect();
    l(vec![a(8), b(neg), a(digits.len() as i64), text(&first)])
}

fn selector_of<'a>(x: &Sx) -> SelectorBuilder<'a> {
    let u = |i: usize| x.nth(i).int() as usize;
    match x.nth(0).int() {
        0 => SelectorBuilder::textselector(BuildItem::from(u(1)), Offset::simple(u(2), u(3))),
        1 => SelectorBuilder::annotationselector(BuildItem::from(u(1)), None),
        2 => SelectorBuilder::annotationselector(BuildItem::from(u(1)), Some(Offset::simple(u(2), u(3)))),
        3 => SelectorBuilder::resourceselector(BuildItem::from(u(1))),
        4 => SelectorBuilder::datasetselector(BuildItem::from(u(1))),
        5 => SelectorBuilder::MultiSelector(x.nth(1).list().iter().map(selector_of).collect()),
        6 => SelectorBuilder::CompositeSelector(x.nth(1).list().iter().map(selector_of).collect()),
        7 => SelectorBuilder::DirectionalSelector(x.nth(1).list().iter().map(selector_of).collect()),
        8 => SelectorBuilder::datakeyselector(BuildItem::from(u(1)), BuildItem::from(x.nth(2).string())),
        _ => SelectorBuilder::annotationdataselector(BuildItem::from(u(1)), BuildItem::from(u(2))),
    }
}

fn selector_sx(s: &Selector) -> Sx {
    match s {
        Selector::TextSelector(r, t, _) => l(vec![a(0), a(r.as_usize() as i64), a(t.as_usize() as i64)]),
        Selector::AnnotationSelector(an, None) => l(vec![a(1), a(an.as_usize() as i64)]),
        Selector::AnnotationSelector(an, Some((r, t, _))) => {
            l(vec![a(2), a(an.as_usize() as i64), a(r.as_usize() as i64), a(t.as_usize() as i64)])
        }
        Selector::ResourceSelector(r) => l(vec![a(3), a(r.as_usize() as i64)]),
        Selector::DataSetSelector(d) => l(vec![a(4), a(d.as_usize() as i64)]),
        Selector::MultiSelector(v) => l(vec![a(5), l(v.iter().map(selector_sx).collect())]),
        Selector::CompositeSelector(v) => l(vec![a(6), l(v.iter().map(selector_sx).collect())]),
        Selector::DirectionalSelector(v) => l(vec![a(7), l(v.iter().map(selector_sx).collect())]),
        Selector::DataKeySelector(..) => l(vec![a(8)]),
        Selector::AnnotationDataSelector(..) => l(vec![a(9)]),
        Selector::RangedTextSelector { resource, begin, end } => {
            l(vec![a(10), a(resource.as_usize() as i64), a(begin.as_usize() as i64), a(end.as_usize() as i64)])
        }
        Selector::RangedAnnotationSelector { begin, end, with_text } => {
            l(vec![a(11), a(begin.as_usize() as i64), a(end.as_usize() as i64), b(*with_text)])
        }
    }
}

fn config_of(x: &Sx) -> WebAnnoConfig {
    WebAnnoConfig {
        default_annotation_iri: x.nth(0).string(),
        generate_annotation_iri: false,
        default_set_iri: x.nth(1).string(),
        default_resource_iri: x.nth(2).string(),
        extra_context: x.nth(3).list().iter().map(|s| s.string()).collect(),
        auto_generated: x.nth(4).int() != 0,
        auto_generator: x.nth(5).int() != 0,
        context_namespaces: x.nth(6).list().iter().map(|p| (p.nth(0).string(), p.nth(1).string())).collect(),
        extra_target_template: match x.nth(7) {
            Sx::A(_) => None,
            t => Some(t.string()),
        },
    }
}

/// serde_json's view of a text: the tree, members sorted by name, last duplicate wins
fn tree_sx(v: &serde_json::Value) -> Sx {
    use serde_json::Value as V;
    match v {
        V::Null => l(vec![a(0)]),
        V::Bool(x) => l(vec![a(1), b(*x)]),
        V::Number(n) => {
            // numbers are compared as numbers: integers exactly (beyond 2^62 as sign and decimal digits),
            // an integer literal too long for 64 bits through the float serde_json read it as
            const LIM: i64 = 4611686018427387904;
            if let Some(z) = n.as_i64() {
                if z > -LIM && z < LIM {
                    l(vec![a(2), a(z)])
                } else {
                    big_number(z < 0, &z.unsigned_abs().to_string())
                }
            } else if let Some(u) = n.as_u64() {
                big_number(false, &u.to_string())
            } else {
                let f = n.as_f64().unwrap_or(f64::NAN);
                let q4 = f * 4.0;
                if f.is_finite() && f.fract() == 0.0 && f.abs() >= 4.0e18 {
                    let (mant, zeros) = whole_digits(f.abs());
                    big_number(f < 0.0, &format!("{}{}", mant, "0".repeat(zeros)))
                } else if q4.is_finite() && q4.fract() == 0.0 && q4.abs() < 1e15 {
                    l(vec![a(3), a(q4 as i64)])
                } else {
                    l(vec![a(4)])
                }
            }
        }
        V::String(s) => l(vec![a(5), text(s)]),
        V::Array(v) => l(vec![a(6), l(v.iter().map(tree_sx).collect())]),
        V::Object(m) => {
            // codepoint order of the names (= byte order of their UTF-8)
            let mut items: Vec<(&String, &V)> = m.iter().collect();
            items.sort_by(|x, y| x.0.as_bytes().cmp(y.0.as_bytes()));
            l(vec![a(7), l(items.into_iter().map(|(k, v)| l(vec![text(k), tree_sx(v)])).collect())])
        }
    }
}

/// the source/selector objects below a value, as (source, start, end)
fn json_targets(v: &serde_json::Value, out: &mut Vec<Sx>) {
    use serde_json::Value as V;
    match v {
        V::Object(m) => {
            if let (Some(V::String(src)), Some(V::Object(sm))) = (m.get("source"), m.get("selector")) {
                if let (Some(st), Some(en)) = (sm.get("start"), sm.get("end")) {
                    out.push(l(vec![text(src), tree_sx(st), tree_sx(en)]));
                }
                return;
            }
            // at most one member of an exported object holds targets, so the order of members does not matter
            for (_, x) in m.iter() {
                json_targets(x, out);
            }
        }
        V::Array(a) => {
            for x in a {
                json_targets(x, out);
            }
        }
        _ => {}
    }
}

fn obs_targets(o: &Option<String>) -> Sx {
    match o {
        None => none(),
        Some(s) if s.is_empty() => Sx::A(-3),
        Some(s) => match serde_json::from_str::<serde_json::Value>(s) {
            Ok(serde_json::Value::Object(m)) => {
                let mut v = Vec::new();
                if let Some(t) = m.get("target") {
                    json_targets(t, &mut v);
                }
                l(v)
            }
            Ok(_) => l(vec![]),
            Err(_) => Sx::A(-2),
        },
    }
}

/// member names of the annotation object and of its body, compact names expanded through the
/// prefix declarations of the exported @context; sorted, without duplicates
fn obs_names(o: &Option<String>) -> Sx {
    use serde_json::Value as V;
    match o {
        None => none(),
        Some(s) if s.is_empty() => Sx::A(-3),
        Some(s) => match serde_json::from_str::<V>(s) {
            Ok(V::Object(m)) => {
                let mut ctx: Vec<(String, String)> = Vec::new();
                if let Some(V::Array(items)) = m.get("@context") {
                    for it in items {
                        if let V::Object(nm) = it {
                            for (k, v) in nm.iter() {
                                if let V::String(u) = v {
                                    ctx.push((k.clone(), u.clone()));
                                }
                            }
                        }
                    }
                }
                let expand = |name: &str| -> String {
                    if let Some((pre, rest)) = name.split_once(':') {
                        if let Some((_, uri)) = ctx.iter().find(|(k, _)| k == pre) {
                            return format!("{}{}", uri, rest);
                        }
                    }
                    name.to_string()
                };
                let names = |mm: &serde_json::Map<String, V>| -> Sx {
                    let mut v: Vec<String> = mm.keys().map(|k| expand(k)).collect();
                    v.sort_by(|x, y| x.as_bytes().cmp(y.as_bytes()));
                    v.dedup();
                    l(v.iter().map(|x| text(x)).collect())
                };
                let body = match m.get("body") {
                    Some(V::Object(bm)) => names(bm),
                    _ => l(vec![]),
                };
                l(vec![names(&m), body])
            }
            Ok(_) => l(vec![]),
            Err(_) => Sx::A(-2),
        },
    }
}

fn obs_string(o: &Option<String>) -> Sx {
    match o {
        None => none(),
        Some(s) if s.is_empty() => Sx::A(-3),
        Some(s) => match serde_json::from_str::<serde_json::Value>(s) {
            Ok(v) => tree_sx(&v),
            Err(_) => Sx::A(-2),
        },
    }
}

fn u64len<T>(v: &Vec<Option<T>>) -> usize {
    v.len()
}

pub struct Built {
    pub store: AnnotationStore,
    pub failed_ops: usize,
}

pub fn build(script: &Sx) -> Built {
    let mut store = AnnotationStore::default().with_id("c17");
    let mut failed = 0usize;
    for op in script.list() {
        let ok = guard(|| match op.nth(0).int() {
            0 => {
                let n = op.nth(2).int() as usize;
                let txt: String = (0..n).map(|i| ['a', 'b', 'ç', ' ', '😀', 'd'][i % 6]).collect();
                store.add_resource(TextResourceBuilder::new().with_id(op.nth(1).string()).with_text(txt)).is_ok()
            }
            1 => store.add_dataset(AnnotationDataSetBuilder::new().with_id(op.nth(1).string())).is_ok(),
            2 => {
                let mut bld = AnnotationBuilder::new().with_target(selector_of(op.nth(2)));
                if let Sx::L(_) = op.nth(1) {
                    bld = bld.with_id(op.nth(1).string());
                }
                for d in op.nth(3).list() {
                    if let Some(v) = value_of(d.nth(2)) {
                        bld = bld.with_data(d.nth(0).string(), d.nth(1).string(), v);
                    }
                }
                store.annotate(bld).is_ok()
            }
            _ => store.remove_annotation(AnnotationHandle::new(op.nth(1).int() as usize)).is_ok(),
        });
        if ok != Some(true) {
            failed += 1;
        }
    }
    Built { store, failed_ops: failed }
}

/// the store as the exporter reads it
pub fn dump(store: &AnnotationStore) -> Sx {
    let nres = u64len(<AnnotationStore as StoreFor<TextResource>>::store(store));
    let nset = u64len(<AnnotationStore as StoreFor<AnnotationDataSet>>::store(store));
    let nann = u64len(<AnnotationStore as StoreFor<Annotation>>::store(store));
    let mut res = Vec::new();
    for r in 0..nres {
        match store.resource(TextResourceHandle::new(r)) {
            Some(rr) => {
                let tr: &TextResource = rr.as_ref();
                let n = u64len(<TextResource as StoreFor<TextSelection>>::store(tr));
                let sels: Vec<Sx> = (0..n)
                    .map(|t| {
                        let got: Result<&TextSelection, _> = tr.get(TextSelectionHandle::new(t));
                        match got {
                            Ok(ts) => l(vec![a(ts.begin() as i64), a(ts.end() as i64)]),
                            Err(_) => none(),
                        }
                    })
                    .collect();
                res.push(l(vec![text(rr.id().unwrap_or("")), l(sels)]));
            }
            None => res.push(none()),
        }
    }
    let mut sets = Vec::new();
    for d in 0..nset {
        match store.dataset(AnnotationDataSetHandle::new(d)) {
            Some(ds) => sets.push(text(ds.id().unwrap_or(""))),
            None => sets.push(none()),
        }
    }
    let mut anns = Vec::new();
    for an in 0..nann {
        match store.annotation(AnnotationHandle::new(an)) {
            Some(ann) => {
                let data: Vec<Sx> = ann
                    .data()
                    .map(|d| l(vec![text(d.set().id().unwrap_or("")), text(d.key().id().unwrap_or("")), value_sx(d.value())]))
                    .collect();
                anns.push(l(vec![
                    match ann.id() {
                        Some(i) => text(i),
                        None => none(),
                    },
                    selector_sx(ann.as_ref().target()),
                    l(data),
                ]));
            }
            None => anns.push(none()),
        }
    }
    l(vec![l(res), l(sets), l(anns)])
}

/// the timestamp this call wrote as automatic "generated" value (the member of the annotation
/// object if the output parses, else the first "generated": "..." in the text)
fn find_generated(s: &str) -> Option<String> {
    if let Ok(serde_json::Value::Object(m)) = serde_json::from_str::<serde_json::Value>(s) {
        return m.get("generated").and_then(|v| v.as_str()).map(|x| x.to_string());
    }
    let re = Regex::new("\"generated\"\\s*:\\s*\"([^\"]*)\"").ok()?;
    re.captures(s).and_then(|c| c.get(1)).map(|m| m.as_str().to_string())
}

impl Ctx {
    pub fn new() -> Self {
        Ctx {}
    }
    pub fn exec(&self, req: &Sx) -> (Sx, Vec<Sx>, bool) {
        let built = build(req.nth(0));
        let store = &built.store;
        let cfgx = req.nth(1);
        let cfg = config_of(cfgx);
        let view = dump(store);
        let mut cases = Vec::new();
        let mut obs = Vec::new();
        let mut nontrivial = false;
        let nann = view.nth(2).list().len();
        for an in 0..nann {
            let ann = match store.annotation(AnnotationHandle::new(an)) {
                Some(x) => x,
                None => continue,
            };
            let out = guard(|| ann.to_webannotation(&cfg));
            let now: Option<String> = match &out {
                Some(s) if cfg.auto_generated => find_generated(s),
                _ => None,
            };
            let tree = obs_string(&out);
            if let Sx::L(_) = tree {
                nontrivial = true;
            }
            // the annotation's own text selections through the high-level API
            let api = guard(|| {
                ann.textselections()
                    .map(|t| {
                        let iri = t.resource().iri(&cfg.default_resource_iri).map(|c| c.to_string()).unwrap_or_default();
                        l(vec![text(&iri), l(vec![a(2), a(t.begin() as i64)]), l(vec![a(2), a(t.end() as i64)])])
                    })
                    .collect::<Vec<Sx>>()
            });
            cases.push(l(vec![
                a(an as i64),
                match &out {
                    Some(s) => text(s),
                    None => none(),
                },
                text(now.as_deref().unwrap_or("")),
            ]));
            obs.push(tree.clone());
            obs.push(tree);
            obs.push(a(1));
            obs.push(match api {
                Some(v) => l(v),
                None => none(),
            });
            obs.push(obs_targets(&out));
            obs.push(obs_names(&out));
        }
        (l(vec![view, cfgx.clone(), l(cases)]), obs, nontrivial)
    }
}

// ---------------------------------------------------------------- generators

fn s(x: &str) -> Sx {
    text(x)
}

const ANNO_NS: &str = "http://www.w3.org/ns/anno/";
const ANNO_CTX: &str = "http://www.w3.org/ns/anno.jsonld";

/// every scheme is_iri() knows (and near misses) followed by text with a character that is not
/// allowed in an IRI: such a string must never be taken for an IRI, whatever its scheme
fn iri_like_pool(thorough: bool) -> Vec<&'static str> {
    let schemes: &[&str] = if thorough {
        &["_", "http", "https", "urn", "file", "_x", "_ ", "x_", "HTTP", "mailto", ""]
    } else {
        &["_", "http", "https", "urn", "file", "_x", "_ "]
    };
    let bad: &[&str] = if thorough {
        &["\"", "\\", "\t", "\n", "\u{1}", " ", "\u{7f}", "\u{85}", "\\\"", "é😀"]
    } else {
        &["\"", "\\", "\u{1}", " ", "é"]
    };
    let mut v: Vec<&'static str> = Vec::new();
    for sch in schemes {
        for b in bad {
            v.push(Box::leak(format!("{}:a{}b", sch, b).into_boxed_str()));
        }
        // the offending character right after the colon / at the very end
        v.push(Box::leak(format!("{}:\"", sch).into_boxed_str()));
        v.push(Box::leak(format!("{}:x\\", sch).into_boxed_str()));
    }
    v
}

fn string_pool() -> Vec<&'static str> {
    vec![
        "v", "", "two words", "say \"hi\"", "back\\slash", "a\\tb", "tab\there", "nl\nnl", "cr\rlf\n", "ctl\u{1}\u{1f}x",
        "bell\u{7}\u{8}\u{c}", "del\u{7f}c1\u{85}", "é😀𝄞", "trailing\\", "\"", "\\\"", "http://example.org/x", "https://example.org/a b",
        "urn:x:1", "_:blank", "file:///tmp/x", "http://ex.org/back\\slash", "mailto:x@y", "{\"a\": 1}", "[1, 2]", "\u{2028}line",
        "\u{0}", "a:b", "/", "http://ex.org/ns/thing",
    ]
}

fn value_pool(thorough: bool) -> Vec<Sx> {
    let mut v = vec![l(vec![a(0)]), l(vec![a(2), a(0)]), l(vec![a(2), a(1)])];
    for z in [0i64, 1, -1, 42, -17, 1000000007, -4611686018427387903, 4611686018427387903] {
        v.push(l(vec![a(3), a(z)]));
    }
    for q4 in [0i64, 1, 2, 3, 4, -1, -2, -6, 10, 401, -1000003, 4000000] {
        v.push(l(vec![a(4), a(q4)]));
    }
    // whole floats around and beyond the range of 64-bit integers, both signs (digits, zeros)
    for (neg, digits, zeros) in [
        (0, "9007199254740992", 0),      // 2^53
        (0, "4611686018427387904", 0),   // 2^62
        (0, "9223372036854774784", 0),   // the largest float below 2^63
        (0, "9223372036854775808", 0),   // 2^63
        (1, "9223372036854775808", 0),   // -2^63
        (1, "9223372036854777856", 0),   // the next float below -2^63
        (0, "1", 19),                    // 1e19
        (1, "1", 19),
        (0, "18446744073709551616", 0),  // 2^64
        (0, "602214076", 15),            // 6.02214076e23
        (1, "602214076", 15),
        (0, "1", 22),
        (0, "1", 300),
        (1, "1", 300),
        (0, "123456789012345678", 2),
    ] {
        v.push(l(vec![a(9), a(neg), s(digits), a(zeros)]));
    }
    v.push(l(vec![a(6), l(vec![l(vec![a(4), a(8)]), l(vec![a(9), a(0), s("1"), a(20)]), l(vec![a(9), a(1), s("1"), a(20)])])]));
    for t in string_pool().into_iter().chain(iri_like_pool(thorough)) {
        v.push(l(vec![a(1), s(t)]));
    }
    for t in ["2024-01-02T03:04:05+01:00", "1999-12-31T23:59:59.5Z", "2000-02-29T00:00:00-11:30"] {
        v.push(l(vec![a(7), s(t)]));
    }
    // lists, nested
    v.push(l(vec![a(6), l(vec![])]));
    v.push(l(vec![a(6), l(vec![l(vec![a(3), a(1)])])]));
    v.push(l(vec![a(6), l(vec![l(vec![a(3), a(1)]), l(vec![a(1), s("b\"c\\")]), l(vec![a(4), a(6)]), l(vec![a(0)]), l(vec![a(2), a(1)])])]));
    v.push(l(vec![a(6), l(vec![l(vec![a(6), l(vec![l(vec![a(1), s("http://example.org/x")]), l(vec![a(6), l(vec![])])])]), l(vec![a(7), s("2024-01-02T03:04:05+01:00")])])]));
    v
}

fn nonfinite_pool() -> Vec<Sx> {
    vec![l(vec![a(5), a(0)]), l(vec![a(5), a(1)]), l(vec![a(5), a(2)]), l(vec![a(6), l(vec![l(vec![a(3), a(1)]), l(vec![a(5), a(0)])])])]
}

fn id_pool() -> Vec<&'static str> {
    vec![
        "r", "my id", "q\"uote", "back\\slash", "end\\", "t\tab", "n\nl", "c\u{1}tl", "é😀", "http://example.org/res1", "https://example.org/with space",
        "urn:uuid:1234", "_:b0", "x:y", "a/b#c", "{begin}", "d\u{7f}\u{9f}",
    ]
}

fn key_pool() -> Vec<&'static str> {
    vec!["k", "pos", "key two", "say \"x\"", "a\\b", "t\tk", "é😀", "type", "id", "value", "purpose", "http://ex.org/ns/pred", "body", "target", "c\u{2}"]
}

fn set_pool() -> Vec<&'static str> {
    vec![
        "myset", ANNO_NS, ANNO_CTX, "http://ex.org/ns/", "http://ex.org/ns#", "urn:set", "s \"q\"", "b\\s", "é😀", "http://example.org/vocab",
        "http://example.org/vocab/", "http://example.org/terms#", "http://example.org/terms",
    ]
}

fn cfg(ann: &str, set: &str, res: &str, extra: &[&str], generated: bool, generator: bool, ns: &[(&str, &str)], tpl: Option<&str>) -> Sx {
    l(vec![
        s(ann),
        s(set),
        s(res),
        l(extra.iter().map(|x| s(x)).collect()),
        b(generated),
        b(generator),
        l(ns.iter().map(|(u, p)| l(vec![s(u), s(p)])).collect()),
        match tpl {
            Some(t) => s(t),
            None => none(),
        },
    ])
}

fn config_pool() -> Vec<Sx> {
    vec![
        cfg("_:", "_:", "_:", &[], false, false, &[], None),
        cfg("_:", "_:", "_:", &[], false, true, &[], None),
        cfg("http://example.org/annotations/", "http://example.org/sets", "http://example.org/res#", &[], false, false, &[], None),
        cfg("", "", "", &["http://example.org/ctx.jsonld"], false, false, &[], None),
        cfg("_:", "_:", "_:", &["http://example.org/ctx.jsonld", "https://example.org/two.jsonld"], false, false, &[("http://ex.org/ns/", "ex")], None),
        cfg("_:", "http://ex.org", "_:", &[], false, false, &[("http://ex.org/ns/", "ex"), ("http://ex.org/", "exo"), ("_:", "blank")], None),
        cfg("_:", "_:", "_:", &[], false, false, &[], Some("{resource}/{begin}/{end}")),
        cfg("urn:a:", "_:", "http://example.org/r", &["http://example.org/ctx.jsonld"], false, true, &[("http://ex.org/ns/", "ex")], Some("https://textsurf/{resource}?b={begin}&e={end}&again={begin}")),
        cfg("_:", "_:", "_:", &[], true, true, &[], None),
        cfg("_:", "_:", "_:", &[], false, false, &[], Some("fixed")),
        // namespaces whose IRI does not end in a separator: the separator into_iri() puts between the
        // data set and the key is then the first character of the compact name ("ex:/pos")
        cfg("_:", "_:", "_:", &[], false, false, &[("http://example.org/vocab", "ex"), ("http://example.org/terms", "t")], None),
        cfg("_:", "http://example.org", "_:", &[], false, false, &[("http://example.org", "root")], None),
        cfg("_:", "_:", "_:", &["http://example.org/ctx.jsonld"], false, true, &[("http://example.org/vocab/", "exs"), ("http://example.org/vocab", "ex"), ("http://example.org/terms#", "ts"), ("urn:set", "u")], Some("{resource}/{begin}/{end}")),
        // the W3C context itself among the extra contexts: alone, next to others (first, last), twice; with and without namespaces
        cfg("_:", "_:", "_:", &[ANNO_CTX], false, false, &[], None),
        cfg("_:", "_:", "_:", &[ANNO_CTX], false, false, &[("http://ex.org/ns/", "ex")], None),
        cfg("_:", "_:", "_:", &[ANNO_CTX, "http://example.org/ctx.jsonld"], false, false, &[], None),
        cfg("_:", "_:", "_:", &["http://example.org/ctx.jsonld", ANNO_CTX], false, true, &[("http://ex.org/ns/", "ex")], None),
        cfg("_:", "_:", "_:", &[ANNO_CTX, ANNO_CTX], false, false, &[], Some("{resource}/{begin}/{end}")),
        cfg("_:", "_:", "_:", &[ANNO_CTX, "http://example.org/ctx.jsonld", ANNO_CTX], false, false, &[("http://ex.org/ns/", "ex"), ("_:", "blank")], None),
    ]
}

/// configurations with characters that would need escaping (known class)
fn bad_config_pool() -> Vec<Sx> {
    vec![
        cfg("pre\"fix:", "_:", "_:", &[], false, false, &[], None),
        cfg("_:", "back\\", "_:", &[], false, false, &[], None),
        cfg("_:", "_:", "tab\t:", &[], false, false, &[], None),
        cfg("_:", "_:", "_:", &["http://example.org/\"ctx\""], false, false, &[], None),
        cfg("_:", "_:", "_:", &[], false, false, &[("http://ex.org/ns/", "e\"x")], None),
        cfg("_:", "_:", "_:", &[], false, false, &[("http://ex.org/\\ns/", "ex")], None),
        cfg("_:", "_:", "_:", &[], false, false, &[], Some("{resource}\\n{begin}")),
        cfg("_:", "_:", "_:", &[], false, false, &[], Some("\"{resource}\"")),
    ]
}

fn res_op(id: &str, n: usize) -> Sx {
    l(vec![a(0), s(id), a(n as i64)])
}
fn set_op(id: &str) -> Sx {
    l(vec![a(1), s(id)])
}
fn ann_op(id: Option<&str>, target: Sx, data: Vec<(String, String, Sx)>) -> Sx {
    l(vec![
        a(2),
        match id {
            Some(i) => s(i),
            None => none(),
        },
        target,
        l(data.into_iter().map(|(st, k, v)| l(vec![s(&st), s(&k), v])).collect()),
    ])
}
fn tsel(r: usize, bb: usize, ee: usize) -> Sx {
    l(vec![a(0), a(r as i64), a(bb as i64), a(ee as i64)])
}
fn d(st: &str, k: &str, v: Sx) -> (String, String, Sx) {
    (st.to_string(), k.to_string(), v)
}

fn emit(out: &mut Out, ctx: &Ctx, req: Sx, key: &str) {
    let (i, o, nt) = ctx.exec(&req);
    out.count_n(key, (o.len() / 6) as u64);
    out.case(&i, &o, nt, &req);
}

/// a store that contains every selector kind (ranged ones included) over the given ids
fn selector_zoo(rid0: &str, rid1: &str, setid: &str, aid: &[Option<&str>], data: Vec<(String, String, Sx)>) -> Vec<Sx> {
    let id = |i: usize| aid[i % aid.len()];
    vec![
        res_op(rid0, 30),
        res_op(rid1, 12),
        set_op(setid),
        // 0..2: plain text annotations (also targets of the annotation selectors below)
        ann_op(id(0), tsel(0, 0, 5), data.clone()),
        ann_op(id(1), tsel(0, 6, 11), data.clone()),
        ann_op(id(2), tsel(1, 2, 2), data.clone()),
        // 3: resource, 4: data set
        ann_op(id(3), l(vec![a(3), a(1)]), data.clone()),
        ann_op(id(4), l(vec![a(4), a(0)]), data.clone()),
        // 5: annotation without offset, 6: annotation with offset
        ann_op(id(5), l(vec![a(1), a(0)]), data.clone()),
        ann_op(id(6), l(vec![a(2), a(1), a(1), a(3)]), data.clone()),
        // 7: directional over consecutive new text selections -> RangedTextSelector
        ann_op(id(7), l(vec![a(7), l(vec![tsel(0, 12, 14), tsel(0, 15, 16), tsel(0, 20, 30)])]), data.clone()),
        // 8: composite of everything
        ann_op(
            id(8),
            l(vec![a(6), l(vec![l(vec![a(2), a(0), a(0), a(2)]), l(vec![a(1), a(1)]), l(vec![a(3), a(0)]), l(vec![a(4), a(0)]), tsel(1, 0, 12)])]),
            data.clone(),
        ),
        // 9: multi over annotations 0,1,2 (consecutive handles -> RangedAnnotationSelector)
        ann_op(id(9), l(vec![a(5), l(vec![l(vec![a(1), a(0)]), l(vec![a(1), a(1)]), l(vec![a(1), a(2)])])]), data.clone()),
        // 10: multi over annotations with whole offsets
        ann_op(id(10), l(vec![a(5), l(vec![l(vec![a(2), a(0), a(0), a(5)]), l(vec![a(2), a(1), a(0), a(5)])])]), data.clone()),
        // 11: directional, not in text order, two resources, a nested composite
        ann_op(id(11), l(vec![a(7), l(vec![tsel(1, 5, 7), tsel(0, 1, 2), l(vec![a(6), l(vec![tsel(0, 3, 4), tsel(1, 0, 1)])])])]), data.clone()),
        // 12: data key selector at top level (refused), 13: nested in a composite (skipped, no separator)
        ann_op(id(12), l(vec![a(8), a(0), s("k")]), data.clone()),
        ann_op(id(13), l(vec![a(6), l(vec![tsel(0, 0, 1), l(vec![a(8), a(0), s("k")])])]), data.clone()),
        // 14: annotation data selector
        ann_op(id(14), l(vec![a(9), a(0), a(0)]), data),
    ]
}

pub fn generate(out: &mut Out, tier: &str, seed: u64) {
    let thorough = tier == "thorough";
    let ctx = Ctx::new();
    let cfgs = config_pool();
    let values = value_pool(thorough);
    let mut ids = id_pool();
    ids.extend(iri_like_pool(thorough));
    let keys = key_pool();
    let sets = set_pool();

    // 1. every value x every configuration, under a plain key, a namespaced key and the anno namespace
    for (ci, c) in cfgs.iter().enumerate() {
        for v in values.iter() {
            let script = vec![
                res_op("r", 20),
                ann_op(Some("a0"), tsel(0, 1, 4), vec![d("myset", "k", v.clone())]),
                ann_op(Some("a1"), tsel(0, 0, 20), vec![d("http://ex.org/ns/", "pred", v.clone()), d(ANNO_NS, "value", v.clone())]),
                ann_op(None, tsel(0, 2, 2), vec![d(ANNO_NS, "motivation", v.clone())]),
            ];
            emit(out, &ctx, l(vec![l(script), c.clone()]), "value_x_config");
        }
        if ci >= 3 && !thorough {
            // the remaining configurations get every value in one store per configuration below
        }
    }
    // 2. main-level predicates in every combination of presence (the comma logic), with and without body, auto generated/generator
    let mains = ["motivation", "created", "creator", "generated", "generator"];
    for mask in 0..(1u32 << mains.len()) {
        for body in 0..3 {
            let mut data = Vec::new();
            if body == 2 {
                data.push(d("myset", "first", l(vec![a(3), a(1)])));
            }
            for (i, m) in mains.iter().enumerate() {
                if mask & (1 << i) != 0 {
                    data.push(d(if i % 2 == 0 { ANNO_NS } else { ANNO_CTX }, m, l(vec![a(1), s(if i == 1 { "2024-01-01" } else { "tagging" })])));
                }
            }
            if body >= 1 {
                data.push(d(ANNO_NS, "purpose", l(vec![a(1), s("http://www.w3.org/ns/oa#tagging")])));
                data.push(d("myset", "k", l(vec![a(2), a(1)])));
            }
            for c in [&cfgs[0], &cfgs[1], &cfgs[8]] {
                let script = vec![res_op("r", 9), ann_op(Some("a"), tsel(0, 0, 3), data.clone()), ann_op(None, tsel(0, 0, 3), data.clone())];
                emit(out, &ctx, l(vec![l(script), c.clone()]), "main_predicates");
            }
        }
    }
    // 3. identifiers: every id as resource / annotation / data set / key / set id, under every configuration
    for c in cfgs.iter() {
        for (i, idv) in ids.iter().enumerate() {
            let other = ids[(i + 5) % ids.len()];
            let script = selector_zoo(idv, other, idv, &[Some(idv), Some(other), None], vec![d(idv, "k", l(vec![a(3), a(7)]))]);
            emit(out, &ctx, l(vec![l(script), c.clone()]), "identifiers_x_selector_kinds");
        }
        for k in keys.iter() {
            for st in sets.iter() {
                let script = vec![
                    res_op("r", 9),
                    ann_op(Some("a"), tsel(0, 0, 3), vec![d(st, k, l(vec![a(1), s("v")])), d("myset", "other", l(vec![a(0)]))]),
                ];
                emit(out, &ctx, l(vec![l(script), c.clone()]), "keys_x_sets");
            }
        }
    }
    // 4. known classes: non-finite floats, configuration strings that need escaping, duplicate names
    for v in nonfinite_pool() {
        let script = vec![res_op("r", 9), ann_op(Some("a"), tsel(0, 0, 3), vec![d("myset", "k", v.clone())])];
        emit(out, &ctx, l(vec![l(script), cfgs[0].clone()]), "nonfinite");
    }
    for c in bad_config_pool() {
        let script = selector_zoo("r", "r2", "myset", &[Some("a"), Some("b"), Some("c")], vec![d("http://ex.org/ns/", "k", l(vec![a(3), a(7)]))]);
        emit(out, &ctx, l(vec![l(script), c]), "config_chars");
    }
    {
        let data = vec![d("myset", "k", l(vec![a(3), a(1)])), d("myset", "k", l(vec![a(3), a(2)])), d(ANNO_NS, "motivation", l(vec![a(1), s("a")])), d(ANNO_NS, "motivation", l(vec![a(1), s("b")]))];
        let script = vec![res_op("r", 9), ann_op(Some("a"), tsel(0, 0, 3), data)];
        emit(out, &ctx, l(vec![l(script), cfgs[0].clone()]), "duplicate_names");
    }
    // nested data key / data selectors at every position of a complex selector
    for kind in 5..8i64 {
        for pos in 0..3usize {
            let mut subs = vec![tsel(0, 0, 1), tsel(0, 2, 5)];
            subs.insert(pos, if kind == 6 { l(vec![a(9), a(0), a(0)]) } else { l(vec![a(8), a(0), s("k")]) });
            let script = vec![
                res_op("r", 9),
                ann_op(Some("first"), tsel(0, 0, 3), vec![d("myset", "k", l(vec![a(3), a(1)]))]),
                ann_op(Some("a"), l(vec![a(kind), l(subs)]), vec![d("myset", "k", l(vec![a(3), a(1)]))]),
            ];
            emit(out, &ctx, l(vec![l(script), cfgs[0].clone()]), "nested_unexportable");
            let script2 = vec![
                res_op("r", 9),
                ann_op(Some("first"), tsel(0, 0, 3), vec![d("myset", "k", l(vec![a(3), a(1)]))]),
                ann_op(Some("a"), l(vec![a(kind), l(vec![tsel(0, 0, 1), l(vec![a(8), a(0), s("k")])])]), vec![]),
            ];
            emit(out, &ctx, l(vec![l(script2), cfgs[6].clone()]), "nested_unexportable");
        }
    }
    // 5. seeded random stores: random ids, selector trees, data, removals, configurations
    let mut rng = Rng::new(seed);
    let nrand = if thorough { 40000 } else { 400 };
    let bad = bad_config_pool();
    let nonfin = nonfinite_pool();
    for _ in 0..nrand {
        let mut script = Vec::new();
        let nres = 1 + rng.below(3);
        let mut lens = Vec::new();
        for _ in 0..nres {
            let n = 4 + rng.below(20);
            lens.push(n);
            script.push(res_op(*rng.pick(&ids), n));
        }
        let nsets = 1 + rng.below(2);
        for i in 0..nsets {
            script.push(set_op(sets[(rng.below(sets.len()) + i) % sets.len()]));
        }
        // inputs that fall in a known class are kept apart as far as possible (a configuration that
        // needs escaping only with otherwise clean annotations; a non-finite value only as the single
        // data item of a plain text annotation), so that repairing one class is not masked by another
        let badcfg = rng.chance(1, 12);
        let nann = 2 + rng.below(8);
        let mut made = 0usize;
        for ai in 0..nann {
            let leaf = |rng: &mut Rng, made: usize, lens: &Vec<usize>| -> Sx {
                match rng.below(8) {
                    0 | 1 | 2 => {
                        let r = rng.below(lens.len());
                        let bb = rng.below(lens[r] + 1);
                        let ee = bb + rng.below(lens[r] + 1 - bb);
                        tsel(r, bb, ee)
                    }
                    3 if made > 0 => l(vec![a(1), a(rng.below(made) as i64)]),
                    4 if made > 0 => l(vec![a(2), a(rng.below(made) as i64), a(0), a(rng.below(2) as i64)]),
                    5 => l(vec![a(3), a(rng.below(lens.len()) as i64)]),
                    6 => l(vec![a(4), a(0)]),
                    7 if !badcfg && rng.chance(1, 6) => l(vec![a(8), a(0), s("k")]),
                    _ => {
                        let r = rng.below(lens.len());
                        tsel(r, 0, lens[r])
                    }
                }
            };
            if !badcfg && rng.chance(1, 15) {
                let r = rng.below(lens.len());
                script.push(ann_op(Some(*rng.pick(&ids)), tsel(r, 0, lens[r]), vec![d("myset", "nf", rng.pick(&nonfin).clone())]));
                made += 1;
                continue;
            }
            let target = if rng.chance(1, 2) {
                leaf(&mut rng, made, &lens)
            } else {
                let kind = 5 + rng.below(3) as i64;
                let n = 1 + rng.below(4);
                let mut subs = Vec::new();
                for _ in 0..n {
                    if rng.chance(1, 6) {
                        let k2 = 5 + rng.below(3) as i64;
                        let m = 1 + rng.below(3);
                        subs.push(l(vec![a(k2), l((0..m).map(|_| leaf(&mut rng, made, &lens)).collect())]));
                    } else {
                        subs.push(leaf(&mut rng, made, &lens));
                    }
                }
                l(vec![a(kind), l(subs)])
            };
            let nd = rng.below(4);
            let mut data = Vec::new();
            for di in 0..nd {
                let v = rng.pick(&values).clone();
                let st = if rng.chance(1, 3) { ANNO_NS } else { *rng.pick(&sets) };
                let k = if rng.chance(1, 4) { *rng.pick(&mains.to_vec()) } else { *rng.pick(&keys) };
                if badcfg {
                    // distinct names
                    data.push(d("myset", &format!("k{}_{}", ai, di), v));
                } else {
                    data.push(d(st, k, v));
                }
            }
            let idv = if !badcfg && rng.chance(1, 5) { None } else { Some(*rng.pick(&ids)) };
            script.push(ann_op(idv, target, data));
            made += 1;
            if made > 2 && rng.chance(1, 10) {
                script.push(l(vec![a(3), a(rng.below(made) as i64)]));
            }
        }
        let c = if badcfg { rng.pick(&bad).clone() } else { rng.pick(&cfgs).clone() };
        emit(out, &ctx, l(vec![l(script), c]), "random_store");
    }
}

pub const RULE: &str = "Stores are built through the public API (add_resource, add_dataset, annotate with every selector kind incl. the internal ranged ones that annotate() produces, remove_annotation) and every live annotation is exported with to_webannotation() under a configuration. Exhaustive part: every value of a pool (null, booleans, ints incl. +-(2^62-1), floats on the grid of quarters, 30 strings with quotes, backslashes, all kinds of control characters, DEL/C1, non-BMP, IRIs and near-IRIs, the same scheme x invalid-character strings as for identifiers, datetimes, nested lists) x every configuration of a pool (prefixes, extra contexts incl. the W3C context itself alone / among others / twice, namespaces with and without trailing separator, target templates, automatic generated/generator) under a plain key, a namespaced key, a key of the anno namespace and as main-level predicate; every subset of the five main-level predicates x body present/absent x 3 configurations, with and without annotation id; every identifier of a pool of 17 (quotes, backslashes, controls, non-BMP, IRIs, template variables) plus every scheme is_iri() knows and near misses (_ http https urn file _x '_ ') x an invalid character (quote, backslash, control, space; after the colon, in the middle, at the end) as resource, annotation, data set and key identifier in a store with all selector kinds x every configuration; every key of 14 x every set id of 9 x every configuration; the known classes (non-finite floats, configuration strings that need escaping, duplicate member names). Then seeded random stores (1-3 resources, 2-9 annotations with random selector trees up to depth 2, 0-3 data items, removals) under a random configuration. Per exported annotation 5 sub-cases: tree (serde_json on the real output vs intended tree), this development's recogniser vs serde_json on the real output, token-equality of the model's string with the real output, text targets of the view vs annotation.textselections(), source/selector objects of the real output (serde_json) in order vs those text targets, member names of the annotation object and its body expanded through the exported @context vs the full predicate IRIs. Numbers are compared as numbers (integers exactly, also beyond 64 bits); float values include whole floats around and beyond 2^63 of both signs. Non-trivial: at least one export parsed as JSON. distinct = distinct model inputs.";

pub const EXHAUSTIVE: bool = true;
