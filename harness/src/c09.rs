//! C09: the STAMQL parser and printers through the public API
//! (Query::parse, TryFrom<&str>, Query::to_string, Query::new/with_constraint/...).
//! The syntax-tree encoding is the one of coq/Model/StamqlSx.v.
use crate::out::{guard, Out};
use crate::rng::Rng;
use crate::sx::{a, b, l, text, Sx};
use stam::*;
use std::collections::BTreeSet;

/// the fixed store of the collection-constraint cases: two resources, two data sets whose data,
/// key and text-selection handles coincide numerically
pub struct Ctx {
    store: AnnotationStore,
}

// ---------------------------------------------------------------- encoding
fn e_str(s: &str) -> Sx {
    text(s)
}
fn e_big(z: i128) -> Sx {
    let ab = z.unsigned_abs();
    l(vec![a(if z < 0 { 1 } else { 0 }), a((ab >> 32) as i64), a((ab & 0xffff_ffff) as i64)])
}
fn e_qual(q: &SelectionQualifier) -> Sx {
    a(match q {
        SelectionQualifier::Normal => 0,
        SelectionQualifier::Metadata => 1,
    })
}
fn e_depth(d: &AnnotationDepth) -> Sx {
    a(match d {
        AnnotationDepth::Zero => 0,
        AnnotationDepth::One => 1,
        AnnotationDepth::Max => 2,
    })
}
fn e_cursor(c: &Cursor) -> Sx {
    match c {
        Cursor::BeginAligned(n) => l(vec![a(0), e_big(*n as i128)]),
        Cursor::EndAligned(z) => l(vec![a(1), e_big(*z as i128)]),
    }
}
fn e_offset(o: &Option<Offset>) -> Sx {
    match o {
        None => l(vec![]),
        Some(o) => l(vec![e_cursor(&o.begin), e_cursor(&o.end)]),
    }
}
fn e_ostr(o: Option<&str>) -> Sx {
    match o {
        None => l(vec![]),
        Some(s) => l(vec![e_str(s)]),
    }
}
fn e_dataop(o: &DataOperator) -> Sx {
    use DataOperator as D;
    match o {
        D::Null => l(vec![a(0)]),
        D::Any => l(vec![a(1)]),
        D::True => l(vec![a(2)]),
        D::False => l(vec![a(3)]),
        D::Equals(s) => l(vec![a(4), e_str(s)]),
        D::EqualsInt(z) => l(vec![a(5), e_big(*z as i128)]),
        D::EqualsFloat(_) => l(vec![a(6)]),
        D::GreaterThan(z) => l(vec![a(7), e_big(*z as i128)]),
        D::GreaterThanOrEqual(z) => l(vec![a(8), e_big(*z as i128)]),
        D::LessThan(z) => l(vec![a(9), e_big(*z as i128)]),
        D::LessThanOrEqual(z) => l(vec![a(10), e_big(*z as i128)]),
        D::GreaterThanFloat(_) => l(vec![a(11), a(0)]),
        D::GreaterThanOrEqualFloat(_) => l(vec![a(11), a(1)]),
        D::LessThanFloat(_) => l(vec![a(11), a(2)]),
        D::LessThanOrEqualFloat(_) => l(vec![a(11), a(3)]),
        D::ExactDatetime(d) => l(vec![a(12), a(0), e_str(&d.to_rfc3339())]),
        D::AfterDatetime(d) => l(vec![a(12), a(1), e_str(&d.to_rfc3339())]),
        D::AtOrAfterDatetime(d) => l(vec![a(12), a(2), e_str(&d.to_rfc3339())]),
        D::BeforeDatetime(d) => l(vec![a(12), a(3), e_str(&d.to_rfc3339())]),
        D::AtOrBeforeDatetime(d) => l(vec![a(12), a(4), e_str(&d.to_rfc3339())]),
        D::Not(x) => l(vec![a(13), e_dataop(x)]),
        D::Or(v) => l(vec![a(14), l(v.iter().map(e_dataop).collect())]),
        D::And(v) => l(vec![a(15), l(v.iter().map(e_dataop).collect())]),
        _ => l(vec![a(16)]),
    }
}
fn relkind(op: &TextSelectionOperator) -> (i64, bool) {
    use TextSelectionOperator as T;
    let (k, d) = match op {
        T::Equals { .. } => (0, T::equals()),
        T::Overlaps { .. } => (1, T::overlaps()),
        T::Embeds { .. } => (2, T::embeds()),
        T::Embedded { .. } => (3, T::embedded()),
        T::Before { .. } => (4, T::before()),
        T::After { .. } => (5, T::after()),
        T::Precedes { .. } => (6, T::precedes()),
        T::Succeeds { .. } => (7, T::succeeds()),
        T::SameBegin { .. } => (8, T::samebegin()),
        T::SameEnd { .. } => (9, T::sameend()),
        T::SameRange { .. } => (10, T::samerange()),
        T::InSet { .. } => (11, T::inset()),
    };
    (k, *op == d)
}
fn e_constraint(c: &Constraint) -> Sx {
    use Constraint as C;
    match c {
        C::Id(id) => l(vec![a(0), e_str(id)]),
        C::Annotation(id, q, d, o) => l(vec![a(1), e_str(id), e_qual(q), e_depth(d), e_offset(o)]),
        C::TextResource(id, q, o) => l(vec![a(2), e_str(id), e_qual(q), e_offset(o)]),
        C::DataSet(id, q) => l(vec![a(3), e_str(id), e_qual(q)]),
        C::DataKey { set, key, qualifier } => l(vec![a(4), e_str(set), e_str(key), e_qual(qualifier)]),
        C::SubStore(o) => l(vec![a(5), e_ostr(*o)]),
        C::KeyVariable(v, q) => l(vec![a(6), e_str(v), e_qual(q)]),
        C::DataVariable(v, q) => l(vec![a(7), e_str(v), e_qual(q)]),
        C::DataSetVariable(v, q) => l(vec![a(8), e_str(v), e_qual(q)]),
        C::ResourceVariable(v, q, o) => l(vec![a(9), e_str(v), e_qual(q), e_offset(o)]),
        C::TextVariable(v) => l(vec![a(10), e_str(v)]),
        C::SubStoreVariable(v) => l(vec![a(11), e_str(v)]),
        C::TextRelation { var, operator } => {
            let (k, d) = relkind(operator);
            l(vec![a(12), e_str(var), a(k), b(d)])
        }
        C::KeyValue { set, key, operator, qualifier } => {
            l(vec![a(13), e_str(set), e_str(key), e_dataop(operator), e_qual(qualifier)])
        }
        C::Value(op, q) => l(vec![a(14), e_dataop(op), e_qual(q)]),
        C::KeyValueVariable(v, op, q) => l(vec![a(15), e_str(v), e_dataop(op), e_qual(q)]),
        C::Text(t, m) => l(vec![a(16), e_str(t), b(*m == TextMode::CaseInsensitive)]),
        C::Regex(re) => l(vec![a(17), e_str(re.as_str())]),
        C::Union(v) => l(vec![a(18), l(v.iter().map(e_constraint).collect())]),
        C::AnnotationVariable(v, q, d, o) => l(vec![a(19), e_str(v), e_qual(q), e_depth(d), e_offset(o)]),
        C::Limit { begin, end } => l(vec![a(20), e_big(*begin as i128), e_big(*end as i128)]),
        _ => l(vec![a(99)]),
    }
}
fn e_assignment(x: &Assignment) -> Sx {
    match x {
        Assignment::Id(id) => l(vec![a(0), e_str(id)]),
        Assignment::Target { name, offset } => l(vec![a(1), e_str(name), e_offset(offset)]),
        Assignment::ComplexTarget(k) => l(vec![
            a(2),
            a(match k {
                SelectorKind::CompositeSelector => 0,
                SelectorKind::MultiSelector => 1,
                SelectorKind::DirectionalSelector => 2,
                _ => 9,
            }),
        ]),
        Assignment::Data { set, key, value } => l(vec![
            a(3),
            e_str(set),
            e_str(key),
            match value {
                DataValue::Null => l(vec![a(0)]),
                DataValue::Bool(x) => l(vec![a(1), b(*x)]),
                DataValue::String(s) => l(vec![a(2), e_str(s)]),
                DataValue::Int(z) => l(vec![a(3), e_big(*z as i128)]),
                _ => l(vec![a(4)]),
            },
        ]),
        _ => l(vec![a(9)]),
    }
}
fn e_query(q: &Query) -> Sx {
    l(vec![
        e_ostr(q.name()),
        a(match q.querytype() {
            QueryType::Select => 0,
            QueryType::Delete => 1,
            QueryType::Add => 2,
        }),
        b(q.qualifier() == QueryQualifier::Optional),
        a(match q.resulttype() {
            None => -1,
            Some(Type::Annotation) => 0,
            Some(Type::AnnotationData) => 1,
            Some(Type::DataKey) => 2,
            Some(Type::TextSelection) => 3,
            Some(Type::TextResource) => 4,
            Some(Type::AnnotationDataSet) => 5,
            Some(_) => 9,
        }),
        l(q.assignments().map(e_assignment).collect()),
        l(q.constraints().map(e_constraint).collect()),
        l(q.constraints_with_attributes().map(|(_, at)| l(at.iter().map(|s| e_str(s)).collect())).collect()),
        l(q.subqueries().map(e_query).collect()),
        l(q.attributes().map(|s| e_str(s)).collect()),
    ])
}

fn e_print(r: &Result<String, StamError>) -> Sx {
    match r {
        Ok(t) => l(vec![a(0), e_str(t)]),
        Err(_) => l(vec![a(1)]),
    }
}
fn panic_sx() -> Sx {
    l(vec![a(-1)])
}
fn na() -> Sx {
    l(vec![a(2)])
}

// ---------------------------------------------------------------- oracle tables
fn is_break(c: char) -> bool {
    matches!(c, '"' | ' ' | ';' | ']' | '\n' | '\t' | '\r')
}

/// every substring between two break positions that chrono accepts as RFC 3339, with its canonical form
fn dt_table(t: &str, tab: &mut BTreeSet<(String, String)>) {
    let idx: Vec<(usize, char)> = t.char_indices().collect();
    let n = idx.len();
    let mut starts: Vec<usize> = vec![0];
    let mut ends: Vec<usize> = vec![];
    for (k, (_, c)) in idx.iter().enumerate() {
        if is_break(*c) {
            starts.push(k + 1);
            ends.push(k);
        }
    }
    ends.push(n);
    let byte = |k: usize| if k < n { idx[k].0 } else { t.len() };
    for &s in &starts {
        if s >= n || !idx[s].1.is_ascii_digit() {
            continue;
        }
        for &e in &ends {
            if e < s + 20 || e > s + 45 {
                continue;
            }
            let cand = &t[byte(s)..byte(e)];
            if let Ok(d) = DateTime::parse_from_rfc3339(cand) {
                let canon = d.to_rfc3339();
                if let Ok(d2) = DateTime::parse_from_rfc3339(&canon) {
                    tab.insert((canon.clone(), d2.to_rfc3339()));
                }
                tab.insert((cand.to_string(), canon));
            }
        }
    }
}

/// arguments that may follow AS REGEX / AS REGEXP
fn re_table(t: &str, tab: &mut BTreeSet<(String, bool)>) {
    let mut from = 0;
    while let Some(p) = t[from..].find("REGEX") {
        let mut k = from + p + 5;
        from = k;
        if t[k..].starts_with('P') {
            k += 1;
        }
        let rest = t[k..].trim_start();
        let idx: Vec<(usize, char)> = rest.char_indices().collect();
        let mut starts = vec![0usize];
        for (bi, c) in idx.iter() {
            if *c == '"' && starts.len() < 5 {
                starts.push(bi + 1);
            }
        }
        for &s in &starts {
            let mut cnt = 0;
            for (bi, c) in idx.iter() {
                if *bi < s {
                    continue;
                }
                if is_break(*c) {
                    let cand = &rest[s..*bi];
                    tab.insert((cand.to_string(), Regex::new(cand).is_ok()));
                    cnt += 1;
                    if cnt > 12 {
                        break;
                    }
                }
            }
            if cnt <= 12 {
                let cand = &rest[s..];
                tab.insert((cand.to_string(), Regex::new(cand).is_ok()));
            }
        }
    }
}

fn tables(texts: &[&str], extra_re: &[String]) -> (Sx, Sx) {
    let mut dts = BTreeSet::new();
    let mut res = BTreeSet::new();
    for t in texts {
        dt_table(t, &mut dts);
        re_table(t, &mut res);
    }
    for r in extra_re {
        res.insert((r.clone(), Regex::new(r).is_ok()));
    }
    (
        l(dts.iter().map(|(s, c)| l(vec![e_str(s), e_str(c)])).collect()),
        l(res.iter().map(|(s, ok)| l(vec![e_str(s), b(*ok)])).collect()),
    )
}

// ---------------------------------------------------------------- building queries from a tree
fn leak(s: String) -> &'static str {
    Box::leak(s.into_boxed_str())
}
fn d_str(x: &Sx) -> &'static str {
    leak(x.string())
}
fn d_big(x: &Sx) -> i128 {
    let v = ((x.nth(1).int() as i128) << 32) + x.nth(2).int() as i128;
    if x.nth(0).int() == 0 {
        v
    } else {
        -v
    }
}
fn d_qual(x: &Sx) -> SelectionQualifier {
    if x.int() == 0 {
        SelectionQualifier::Normal
    } else {
        SelectionQualifier::Metadata
    }
}
fn d_depth(x: &Sx) -> AnnotationDepth {
    match x.int() {
        0 => AnnotationDepth::Zero,
        1 => AnnotationDepth::One,
        _ => AnnotationDepth::Max,
    }
}
fn d_cursor(x: &Sx) -> Cursor {
    if x.nth(0).int() == 0 {
        Cursor::BeginAligned(d_big(x.nth(1)) as usize)
    } else {
        Cursor::EndAligned(d_big(x.nth(1)) as isize)
    }
}
fn d_offset(x: &Sx) -> Option<Offset> {
    if x.list().len() == 2 {
        Some(Offset { begin: d_cursor(x.nth(0)), end: d_cursor(x.nth(1)) })
    } else {
        None
    }
}
/// (6 neg ip (frac digits)) -> the f64 nearest to that decimal
fn d_flt(x: &Sx) -> f64 {
    let mut s = String::new();
    if x.nth(1).int() != 0 {
        s.push('-');
    }
    s += &x.nth(2).int().to_string();
    if !x.nth(3).list().is_empty() {
        s.push('.');
        for d in x.nth(3).list() {
            s += &d.int().to_string();
        }
    }
    s.parse().unwrap()
}
fn d_dt(x: &Sx) -> DateTime<FixedOffset> {
    DateTime::parse_from_rfc3339(&x.string()).expect("generator uses valid datetimes")
}
fn d_dataop(x: &Sx) -> DataOperator<'static> {
    use DataOperator as D;
    match x.nth(0).int() {
        0 => D::Null,
        1 => D::Any,
        2 => D::True,
        3 => D::False,
        4 => D::Equals(std::borrow::Cow::Borrowed(d_str(x.nth(1)))),
        5 => D::EqualsInt(d_big(x.nth(1)) as isize),
        6 => D::EqualsFloat(d_flt(x)),
        7 => D::GreaterThan(d_big(x.nth(1)) as isize),
        8 => D::GreaterThanOrEqual(d_big(x.nth(1)) as isize),
        9 => D::LessThan(d_big(x.nth(1)) as isize),
        10 => D::LessThanOrEqual(d_big(x.nth(1)) as isize),
        11 => {
            let f = d_flt(x.nth(2));
            match x.nth(1).int() {
                0 => D::GreaterThanFloat(f),
                1 => D::GreaterThanOrEqualFloat(f),
                2 => D::LessThanFloat(f),
                _ => D::LessThanOrEqualFloat(f),
            }
        }
        12 => {
            let d = d_dt(x.nth(2));
            match x.nth(1).int() {
                0 => D::ExactDatetime(d),
                1 => D::AfterDatetime(d),
                2 => D::AtOrAfterDatetime(d),
                3 => D::BeforeDatetime(d),
                _ => D::AtOrBeforeDatetime(d),
            }
        }
        13 => D::Not(Box::new(d_dataop(x.nth(1)))),
        _ => D::Or(x.nth(1).list().iter().map(d_dataop).collect()),
    }
}
fn d_relop(k: i64, dflt: bool) -> TextSelectionOperator {
    use TextSelectionOperator as T;
    let op = match k {
        0 => T::equals(),
        1 => T::overlaps(),
        2 => T::embeds(),
        3 => T::embedded(),
        4 => T::before(),
        5 => T::after(),
        6 => T::precedes(),
        7 => T::succeeds(),
        8 => T::samebegin(),
        9 => T::sameend(),
        10 => T::samerange(),
        _ => T::inset(),
    };
    if dflt {
        op
    } else {
        op.toggle_negate()
    }
}
fn d_constraint(x: &Sx) -> Constraint<'static> {
    use Constraint as C;
    match x.nth(0).int() {
        0 => C::Id(d_str(x.nth(1))),
        1 => C::Annotation(d_str(x.nth(1)), d_qual(x.nth(2)), d_depth(x.nth(3)), d_offset(x.nth(4))),
        2 => C::TextResource(d_str(x.nth(1)), d_qual(x.nth(2)), d_offset(x.nth(3))),
        3 => C::DataSet(d_str(x.nth(1)), d_qual(x.nth(2))),
        4 => C::DataKey { set: d_str(x.nth(1)), key: d_str(x.nth(2)), qualifier: d_qual(x.nth(3)) },
        5 => C::SubStore(if x.nth(1).list().is_empty() { None } else { Some(d_str(x.nth(1).nth(0))) }),
        6 => C::KeyVariable(d_str(x.nth(1)), d_qual(x.nth(2))),
        7 => C::DataVariable(d_str(x.nth(1)), d_qual(x.nth(2))),
        8 => C::DataSetVariable(d_str(x.nth(1)), d_qual(x.nth(2))),
        9 => C::ResourceVariable(d_str(x.nth(1)), d_qual(x.nth(2)), d_offset(x.nth(3))),
        10 => C::TextVariable(d_str(x.nth(1))),
        11 => C::SubStoreVariable(d_str(x.nth(1))),
        12 => C::TextRelation { var: d_str(x.nth(1)), operator: d_relop(x.nth(2).int(), x.nth(3).int() != 0) },
        13 => C::KeyValue {
            set: d_str(x.nth(1)),
            key: d_str(x.nth(2)),
            operator: d_dataop(x.nth(3)),
            qualifier: d_qual(x.nth(4)),
        },
        14 => C::Value(d_dataop(x.nth(1)), d_qual(x.nth(2))),
        15 => C::KeyValueVariable(d_str(x.nth(1)), d_dataop(x.nth(2)), d_qual(x.nth(3))),
        16 => C::Text(
            d_str(x.nth(1)),
            if x.nth(2).int() != 0 { TextMode::CaseInsensitive } else { TextMode::Exact },
        ),
        17 => C::Regex(Regex::new(&x.nth(1).string()).expect("generator uses valid expressions")),
        18 => C::Union(x.nth(1).list().iter().map(d_constraint).collect()),
        19 => C::AnnotationVariable(d_str(x.nth(1)), d_qual(x.nth(2)), d_depth(x.nth(3)), d_offset(x.nth(4))),
        _ => C::Limit { begin: d_big(x.nth(1)) as isize, end: d_big(x.nth(2)) as isize },
    }
}
fn d_query(x: &Sx) -> Query<'static> {
    d_query_mode(x, 0)
}
/// mode 0: constraints attached with with_constraint(); 1: with constrain(); 2: first half with
/// with_constraint(), the rest with constrain().  Sub-queries are built the same way.
fn d_query_mode(x: &Sx, mode: i64) -> Query<'static> {
    let name = if x.nth(0).list().is_empty() { None } else { Some(d_str(x.nth(0).nth(0))) };
    let qt = match x.nth(1).int() {
        0 => QueryType::Select,
        1 => QueryType::Delete,
        _ => QueryType::Add,
    };
    let rt = match x.nth(3).int() {
        0 => Some(Type::Annotation),
        1 => Some(Type::AnnotationData),
        2 => Some(Type::DataKey),
        3 => Some(Type::TextSelection),
        4 => Some(Type::TextResource),
        5 => Some(Type::AnnotationDataSet),
        _ => None,
    };
    let mut q = Query::new(qt, rt, name);
    if x.nth(2).int() != 0 {
        q = q.with_qualifier(QueryQualifier::Optional);
    }
    let cs = x.nth(5).list();
    for (i, c) in cs.iter().enumerate() {
        let c = d_constraint(c);
        if mode == 1 || (mode == 2 && i >= cs.len() / 2) {
            q.constrain(c);
        } else {
            q = q.with_constraint(c);
        }
    }
    for s in x.nth(7).list() {
        q = q.with_subquery(d_query_mode(s, mode));
    }
    q
}
fn regexes_of(x: &Sx, out: &mut Vec<String>) {
    if let Sx::L(v) = x {
        if v.len() == 2 && v[0] == Sx::A(17) {
            out.push(v[1].string());
        }
        for y in v {
            regexes_of(y, out);
        }
    }
}

// ---------------------------------------------------------------- execution
/// sub-cases 1 and 2: print, then parse and print the printed text
fn print_and_back(q: &Query, printed: &mut Option<String>) -> (Sx, Sx) {
    let p = guard(|| q.to_string());
    match p {
        None => (panic_sx(), na()),
        Some(Err(_)) => (l(vec![a(1)]), na()),
        Some(Ok(t)) => {
            let back = guard(|| match Query::parse(&t) {
                Ok((q2, rem)) => {
                    let p2 = q2.to_string();
                    l(vec![a(0), e_query(&q2), e_str(rem), e_print(&p2)])
                }
                Err(_) => l(vec![a(1)]),
            })
            .unwrap_or_else(panic_sx);
            let r = (l(vec![a(0), e_str(&t)]), back);
            *printed = Some(t);
            r
        }
    }
}

fn fixed_store() -> AnnotationStore {
    let mut store = AnnotationStore::new(Config::default().with_generate_ids(false))
        .with_id("c09")
        .with_resource(TextResourceBuilder::new().with_id("res0").with_text("Hello brave new world"))
        .unwrap()
        .with_resource(TextResourceBuilder::new().with_id("res1").with_text("Another text here"))
        .unwrap();
    let anns: Vec<AnnotationBuilder> = vec![
        AnnotationBuilder::new().with_id("A0").with_target(SelectorBuilder::textselector("res0", Offset::simple(0, 5))).with_data("posset", "pos", "verb"),
        AnnotationBuilder::new().with_id("A1").with_target(SelectorBuilder::textselector("res1", Offset::simple(0, 7))).with_data("lemmaset", "lemma", "fly"),
        AnnotationBuilder::new().with_id("A2").with_target(SelectorBuilder::textselector("res0", Offset::simple(6, 11))).with_data("posset", "pos", "noun").with_data("posset", "n", 3isize),
        AnnotationBuilder::new().with_id("A3").with_target(SelectorBuilder::textselector("res1", Offset::simple(8, 12))).with_data("lemmaset", "lemma", "walk").with_data("lemmaset", "flag", true),
        AnnotationBuilder::new().with_target(SelectorBuilder::textselector("res0", Offset::simple(12, 15))).with_data("lemmaset", "n", 7isize),
    ];
    for b in anns {
        store.annotate(b).expect("fixed store");
    }
    store
}

/// what the store says about one item of a collection, looked up item by item; () = no such item
fn describe(store: &AnnotationStore, kind: i64, it: &Sx) -> Sx {
    let x = it.nth(0).int() as usize;
    let y = it.nth(1).int() as usize;
    let none = l(vec![]);
    match kind {
        0 => match store.annotation(AnnotationHandle::new(x)) {
            Some(an) => l(vec![e_str(&an.id().map(|s| s.to_string()).unwrap_or_else(|| format!("!A{}", x)))]),
            None => none,
        },
        1 => match store.dataset(AnnotationDataSetHandle::new(x)).and_then(|set| set.annotationdata(AnnotationDataHandle::new(y)).map(|d| (set, d))) {
            Some((set, d)) => l(vec![
                e_str(set.id().unwrap_or("")),
                e_str(d.key().id().unwrap_or("")),
                match d.value() {
                    DataValue::Null => l(vec![a(0)]),
                    DataValue::Bool(true) => l(vec![a(2)]),
                    DataValue::Bool(false) => l(vec![a(3)]),
                    DataValue::String(s) => l(vec![a(4), e_str(s)]),
                    DataValue::Int(z) => l(vec![a(5), e_big(*z as i128)]),
                    _ => l(vec![a(16)]),
                },
            ]),
            None => none,
        },
        2 => match store.dataset(AnnotationDataSetHandle::new(x)).and_then(|set| set.key(DataKeyHandle::new(y)).map(|k| (set, k))) {
            Some((set, k)) => l(vec![e_str(set.id().unwrap_or("")), e_str(k.id().unwrap_or(""))]),
            None => none,
        },
        3 => match store.resource(TextResourceHandle::new(x)) {
            Some(r) => l(vec![e_str(r.id().unwrap_or(""))]),
            None => none,
        },
        _ => match store.resource(TextResourceHandle::new(x)).and_then(|r| r.textselection_by_handle(TextSelectionHandle::new(y)).ok().map(|t| (r, t))) {
            Some((r, t)) => l(vec![e_str(r.id().unwrap_or("")), e_big(t.begin() as i128), e_big(t.end() as i128)]),
            None => none,
        },
    }
}

impl Ctx {
    pub fn new() -> Self {
        Ctx { store: fixed_store() }
    }
    /// (3 kind qual depth items): SELECT ANNOTATION ?x WHERE <collection constraint>
    fn exec_collection(&self, req: &Sx) -> (Sx, Vec<Sx>, bool) {
        let store = &self.store;
        let kind = req.nth(1).int();
        let qual = d_qual(req.nth(2));
        let depth = d_depth(req.nth(3));
        let items = req.nth(4).list();
        let descr: Vec<Sx> = items.iter().map(|it| guard(|| describe(store, kind, it)).unwrap_or_else(|| l(vec![]))).collect();
        let r = guard(|| {
            let pair = |it: &Sx| (it.nth(0).int() as usize, it.nth(1).int() as usize);
            let c = match kind {
                0 => Constraint::Annotations(Handles::from_iter(items.iter().map(|it| AnnotationHandle::new(pair(it).0)), store), qual, depth),
                1 => Constraint::Data(
                    Handles::from_iter(items.iter().map(|it| (AnnotationDataSetHandle::new(pair(it).0), AnnotationDataHandle::new(pair(it).1))), store),
                    qual,
                ),
                2 => Constraint::Keys(
                    Handles::from_iter(items.iter().map(|it| (AnnotationDataSetHandle::new(pair(it).0), DataKeyHandle::new(pair(it).1))), store),
                    qual,
                ),
                3 => Constraint::Resources(Handles::from_iter(items.iter().map(|it| TextResourceHandle::new(pair(it).0)), store), qual),
                _ => Constraint::TextSelections(
                    Handles::from_iter(items.iter().map(|it| (TextResourceHandle::new(pair(it).0), TextSelectionHandle::new(pair(it).1))), store),
                    qual,
                ),
            };
            let q = Query::new(QueryType::Select, Some(Type::Annotation), Some("x")).with_constraint(c);
            let mut pr = None;
            print_and_back(&q, &mut pr)
        });
        let outs = match r {
            Some((o1, o2)) => vec![o1, o2],
            None => vec![panic_sx(), na()],
        };
        (l(vec![a(3), a(kind), req.nth(2).clone(), req.nth(3).clone(), l(descr)]), outs, items.len() > 1)
    }
    pub fn exec(&self, req: &Sx) -> (Sx, Vec<Sx>, bool) {
        let kind = req.nth(0).int();
        if kind == 0 {
            let s = req.nth(1).string();
            let mut printed: Option<String> = None;
            let mut ok = false;
            let r = guard(|| match Query::parse(&s) {
                Ok((q, rem)) => {
                    let tf = Query::try_from(s.as_str()).is_ok();
                    let o0 = l(vec![a(0), e_query(&q), e_str(rem), b(tf)]);
                    let mut pr = None;
                    let (o1, o2) = print_and_back(&q, &mut pr);
                    (o0, o1, o2, pr, true)
                }
                Err(_) => {
                    let tf = Query::try_from(s.as_str()).is_ok();
                    (if tf { l(vec![a(7)]) } else { l(vec![a(1)]) }, na(), na(), None, false)
                }
            });
            let outs = match r {
                Some((o0, o1, o2, pr, k)) => {
                    printed = pr;
                    ok = k;
                    vec![o0, o1, o2]
                }
                None => vec![panic_sx(), na(), na()],
            };
            let mut texts: Vec<&str> = vec![&s];
            if let Some(p) = &printed {
                texts.push(p);
            }
            let (dts, res) = tables(&texts, &[]);
            (l(vec![a(0), req.nth(1).clone(), dts, res]), outs, ok && printed.is_some())
        } else if kind == 3 {
            self.exec_collection(req)
        } else if kind == 5 {
            // a parsed query extended through constrain()
            let s = req.nth(1).string();
            let extra = req.nth(2);
            let mut printed: Option<String> = None;
            let r = guard(|| match Query::parse(&s) {
                Ok((mut q, _)) => {
                    for c in extra.list() {
                        q.constrain(d_constraint(c));
                    }
                    let o0 = l(vec![a(0), e_query(&q)]);
                    let mut pr = None;
                    let (o1, o2) = print_and_back(&q, &mut pr);
                    (o0, o1, o2, pr)
                }
                Err(_) => (l(vec![a(1)]), na(), na(), None),
            });
            let outs = match r {
                Some((o0, o1, o2, pr)) => {
                    printed = pr;
                    vec![o0, o1, o2]
                }
                None => vec![panic_sx(), na(), na()],
            };
            let mut res_extra = Vec::new();
            regexes_of(extra, &mut res_extra);
            let mut texts: Vec<&str> = vec![&s];
            if let Some(p) = &printed {
                texts.push(p);
            }
            let (dts, res) = tables(&texts, &res_extra);
            (l(vec![a(5), req.nth(1).clone(), dts, res, extra.clone()]), outs, printed.is_some())
        } else if kind == 2 {
            // deep nesting: run in a child process, a stack overflow aborts the process
            let n = req.nth(1).int() as usize;
            let s = deep_text(n, req.nth(2).int());
            let work = std::env::var("VERIF_WORK").unwrap_or_else(|_| "/verif/.cache/work".to_string());
            let _ = std::fs::create_dir_all(&work);
            let base = format!("{}/C09.deep.{}.{}", work, std::process::id(), n);
            let reqf = format!("{}.req", base);
            let casef = format!("{}.cases", base);
            let statf = format!("{}.stats", base);
            std::fs::write(&reqf, format!("{}\n", req_text(&s))).expect("write child request");
            let status = std::process::Command::new(std::env::current_exe().expect("current exe"))
                .args(["replay", &reqf, &casef, &statf])
                .stderr(std::process::Stdio::null())
                .status();
            let obs = match status {
                Ok(st) if st.success() => std::fs::read_to_string(&casef)
                    .ok()
                    .and_then(|t| t.lines().next().and_then(|ln| ln.split('\t').nth(1).and_then(crate::sx::parse)))
                    .map(|o| o.nth(0).clone())
                    .unwrap_or_else(|| l(vec![a(-4)])),
                _ => l(vec![a(-2)]),
            };
            for f in [&reqf, &casef, &statf] {
                let _ = std::fs::remove_file(f);
            }
            (req.clone(), vec![obs], true)
        } else {
            let tree = req.nth(1);
            // kind 1: with_constraint(); kind 4: (4 tree mode) through constrain()
            let mode = if kind == 4 { req.nth(2).int() } else { 0 };
            let mut printed: Option<String> = None;
            let r = guard(|| {
                let q = d_query_mode(tree, mode);
                let o0 = e_query(&q);
                let mut pr = None;
                let (o1, o2) = print_and_back(&q, &mut pr);
                (o0, o1, o2, pr)
            });
            let outs = match r {
                Some((o0, o1, o2, pr)) => {
                    printed = pr;
                    vec![o0, o1, o2]
                }
                None => vec![panic_sx(), na(), na()],
            };
            let mut extra = Vec::new();
            regexes_of(tree, &mut extra);
            let texts: Vec<&str> = printed.iter().map(|s| s.as_str()).collect();
            let (dts, res) = tables(&texts, &extra);
            (l(vec![a(kind), tree.clone(), dts, res]), outs, printed.is_some())
        }
    }
}

// ---------------------------------------------------------------- generators
const IDS: &[&str] = &[
    "x", "ab", "r1", "my-set", "k", "é", "AS", "NONE", "RECURSIVE", "?v", "?", "a b", "a\\\"b", "null", "any", "true",
    "5", "-3", "1.5", "a|b", "a\\|b", "2022-01-01T00:00:00Z", "", "OR", "x;y", "x]", "tab\tbed", "b\\", "\u{a0}n", "日本",
    "OFFSET", "WHERE", "{", "}", "|", "@a", "it's", "q\"uote",
];
const PLAIN_IDS: &[&str] = &["x", "ab", "r1", "my-set", "k", "é", "v2", "日本", "some_id", "A.b:c/d"];
const VARS: &[&str] = &["x", "a", "res", "t1", "é"];
const VALUES: &[&str] = &[
    "5", "-5", "0", "-0", "+5", "007", "-", "--1", "9223372036854775807", "9223372036854775808", "-9223372036854775808",
    "-9223372036854775809", "99999999999999999999", "1.5", "-1.5", "1.5.2", ".5", "5.", "1e3", "abc", "\"abc\"", "\"5\"",
    "\"a b\"", "null", "any", "true", "false", "\"null\"", "\"true\"", "TRUE", "a|b", "1|2", "1|2.5|x|inf|-nan|1e|+3|.",
    "\"a|b\"", "a\\|b", "\"a\\|b\"", "2022-01-01T00:00:00Z", "2022-01-01T00:00:00+02:00", "\"2022-01-01T10:00:00.5-01:00\"",
    "2022-13-01T00:00:00Z", "2022-01-01", "\"\"", "\"é\"", "\"a\\\"b\"", "|", "||", "a|", "infinity", "NaN",
];
const OPS: &[&str] = &["=", "!=", ">", ">=", "<", "<=", "==", "=>", "~"];
const RELS: &[&str] = &[
    "EQUALS", "EMBEDS", "EMBEDDED", "OVERLAPS", "PRECEDES", "SUCCEEDS", "SAMEBEGIN", "SAMEEND", "BEFORE", "AFTER",
    "SAMERANGE", "INSET", "equals", "",
];
const REGEXES: &[&str] = &["x+", "a.*b", "[0-9]+", "(unclosed", "[a-", "\\d{2}", "a|b", "", "?x"];
const KEYWORDS: &[&str] = &[
    "SELECT", "ADD", "DELETE", "OPTIONAL", "ANNOTATION", "DATA", "KEY", "TEXT", "RESOURCE", "DATASET", "WHERE", "WITH", "ID",
    "RELATION", "VALUE", "SUBSTORE", "LIMIT", "[", "]", "{", "}", "|", "OR", "AS", "TARGET", "METADATA", "RECURSIVE", "REGEX",
    "REGEXP", "NOCASE", "OFFSET", "WHOLE", "ALL", "NONE", "COMPOSITE", "MULTI", "DIRECTIONAL", "?", "?x", "@", "@a", ";", "\"",
    "=", "!=", "\\",
];
const SPECIAL: &[char] = &[
    '{', '}', '|', '[', ']', ';', '"', '\\', '?', '@', ' ', '\n', '\t', '\r', '\u{a0}', '\u{2003}', '\u{3000}', '\u{85}', '-', '.',
    '=', '!', 'é', '\u{1F600}', '0', 'A', '\u{0}',
];

fn arg_surface(rng: &mut Rng, s: &str) -> String {
    // unquoted when possible and chosen, quoted otherwise
    let plain = !s.is_empty() && !s.chars().any(|c| is_break(c));
    if plain && rng.chance(1, 2) {
        s.to_string()
    } else {
        format!("\"{}\"", s)
    }
}
fn ws(rng: &mut Rng) -> &'static str {
    *rng.pick(&[" ", " ", " ", "  ", "\n", "\t", " \n\t", "\u{a0}", " \u{2003}", "\r\n"])
}
fn id(rng: &mut Rng, wild: bool) -> String {
    if wild && rng.chance(1, 3) {
        pk(rng, IDS).to_string()
    } else {
        pk(rng, PLAIN_IDS).to_string()
    }
}
fn pk(rng: &mut Rng, v: &[&'static str]) -> &'static str {
    v[rng.below(v.len())]
}
fn idarg(rng: &mut Rng, wild: bool) -> String {
    let i = id(rng, wild);
    arg_surface(rng, &i)
}
fn qual_surface(rng: &mut Rng) -> String {
    match rng.below(8) {
        0 => " AS METADATA".into(),
        1 => " AS TARGET".into(),
        2 => " AS METADATA RECURSIVE".into(),
        3 => " AS OTHER".into(),
        _ => String::new(),
    }
}
fn offset_surface(rng: &mut Rng) -> String {
    let cur = |rng: &mut Rng| -> String {
        pk(rng, &["0", "1", "12", "-1", "-0", "-12", "+3", "WHOLE", "ALL", "x", "-", "18446744073709551615", "18446744073709551616", "-9223372036854775808", "-9223372036854775809", "1.5"])
            .to_string()
    };
    match rng.below(6) {
        0 => format!(" OFFSET {} {}", cur(rng), cur(rng)),
        1 => format!(" OFFSET {}", cur(rng)),
        2 => " OFFSET".into(),
        _ => String::new(),
    }
}
fn value_surface(rng: &mut Rng) -> String {
    if rng.chance(1, 6) {
        // numeric literal of arbitrary length and sign
        let sign = *rng.pick(&["", "-", "+", "--"]);
        let n = rng.below(23);
        let d: String = (0..n).map(|_| char::from(b'0' + rng.below(10) as u8)).collect();
        format!("{}{}", sign, d)
    } else {
        pk(rng, VALUES).to_string()
    }
}
fn constraint_text(rng: &mut Rng, depth: usize, wild: bool) -> String {
    let semi = if rng.chance(9, 10) { ";" } else { "" };
    let at = if rng.chance(1, 10) { "@attr " } else { "" };
    let w = ws(rng);
    let body = match rng.below(if depth > 0 { 14 } else { 13 }) {
        0 => format!("ID{}{}", w, idarg(rng, wild)),
        1 => {
            let m = *rng.pick(&["", "", " AS NOCASE", " AS REGEX", " AS REGEXP", " AS X"]);
            let t = if m.contains("REGEX") { pk(rng, REGEXES).to_string() } else { id(rng, wild) };
            if rng.chance(1, 4) {
                format!("TEXT{} ?{}", m, pk(rng, VARS))
            } else {
                format!("TEXT{}{}{}", m, w, arg_surface(rng, &t))
            }
        }
        2 => {
            let q = qual_surface(rng);
            let t = if rng.chance(1, 3) { format!("?{}", pk(rng, VARS)) } else { idarg(rng, wild) };
            format!("ANNOTATION{}{}{}{}", q, w, t, offset_surface(rng))
        }
        3 => {
            let q = qual_surface(rng);
            let t = if rng.chance(1, 3) { format!("?{}", pk(rng, VARS)) } else { idarg(rng, wild) };
            format!("RESOURCE{}{}{}{}", q, w, t, offset_surface(rng))
        }
        4 => {
            let q = qual_surface(rng);
            let t = if rng.chance(1, 3) { format!("?{}", pk(rng, VARS)) } else { idarg(rng, wild) };
            format!("DATASET{}{}{}", q, w, t)
        }
        5 => format!("RELATION{}?{} {}", w, pk(rng, VARS), pk(rng, RELS)),
        6 => {
            let q = qual_surface(rng);
            match rng.below(4) {
                0 => format!("DATA{}{}?{}", q, w, pk(rng, VARS)),
                1 => format!("DATA{}{}{} {}", q, w, idarg(rng, wild), idarg(rng, wild)),
                _ => format!(
                    "DATA{}{}{} {} {} {}",
                    q,
                    w,
                    idarg(rng, wild),
                    idarg(rng, wild),
                    pk(rng, OPS),
                    value_surface(rng)
                ),
            }
        }
        7 => format!("VALUE{}{}{} {}", qual_surface(rng), w, pk(rng, OPS), value_surface(rng)),
        8 => {
            let q = qual_surface(rng);
            if rng.chance(4, 5) {
                format!("KEY{}{}?{}", q, w, pk(rng, VARS))
            } else {
                format!("KEY{}{}{}", q, w, id(rng, wild))
            }
        }
        9 => match rng.below(4) {
            0 => format!("SUBSTORE{}?{}", w, pk(rng, VARS)),
            1 => format!("SUBSTORE{}NONE", w),
            _ => format!("SUBSTORE{}{}", w, idarg(rng, wild)),
        },
        10 | 11 => {
            let v = |rng: &mut Rng| value_surface(rng);
            if rng.chance(1, 2) {
                format!("LIMIT{}{}", w, v(rng))
            } else {
                format!("LIMIT{}{} {}", w, v(rng), v(rng))
            }
        }
        12 => format!("{}{}{}", pk(rng, KEYWORDS), w, id(rng, wild)),
        _ => {
            let n = 1 + rng.below(3);
            let mut s = String::from("[");
            s += ws(rng);
            for i in 0..n {
                s += &constraint_text(rng, depth - 1, wild);
                if i + 1 < n {
                    s += *rng.pick(&[" OR ", " OR ", "OR ", " OR", "\nOR "]);
                }
            }
            s += *rng.pick(&[" ]", "]", " ] ", ""]);
            s
        }
    };
    format!("{}{}{}", at, body, semi)
}
fn assignment_text(rng: &mut Rng, wild: bool) -> String {
    let semi = if rng.chance(9, 10) { ";" } else { "" };
    let body = match rng.below(7) {
        0 => format!("ID {}", idarg(rng, wild)),
        1 | 2 => {
            if rng.chance(1, 4) {
                format!("DATA {} {}", idarg(rng, wild), idarg(rng, wild))
            } else {
                format!(
                    "DATA {} {} {}",
                    idarg(rng, wild),
                    idarg(rng, wild),
                    value_surface(rng)
                )
            }
        }
        3 => format!("TARGET ?{}{}", pk(rng, VARS), offset_surface(rng)),
        4 => format!("TARGET {}", id(rng, wild)),
        5 => pk(rng, &["COMPOSITE", "MULTI", "DIRECTIONAL"]).to_string(),
        _ => format!("{} x", pk(rng, KEYWORDS)),
    };
    format!("{}{}", body, semi)
}
fn select_text(rng: &mut Rng, depth: usize, wild: bool) -> String {
    let mut s = String::new();
    if rng.chance(1, 8) {
        s += "@a1 ";
    }
    s += "SELECT";
    s += ws(rng);
    if rng.chance(1, 6) {
        s += "OPTIONAL ";
    }
    s += *rng.pick(&["ANNOTATION", "DATA", "KEY", "TEXT", "RESOURCE", "DATASET", "annotation", "text", "Annotation", "FOO"]);
    if rng.chance(3, 4) {
        s += " ?";
        s += pk(rng, VARS);
    }
    let nc = rng.below(4);
    if nc > 0 || rng.chance(1, 8) {
        s += ws(rng);
        s += "WHERE";
        s += ws(rng);
        for _ in 0..nc {
            s += &constraint_text(rng, 2, wild);
            s += ws(rng);
        }
    }
    if depth > 0 && rng.chance(1, 3) {
        s += *rng.pick(&[" {", "{", "\n{\n", " { "]);
        let n = 1 + rng.below(2);
        for i in 0..n {
            s += " ";
            s += &select_text(rng, depth - 1, wild);
            if i + 1 < n {
                s += *rng.pick(&[" | ", "|", "\n|"]);
            }
        }
        s += *rng.pick(&[" }", "}", "\n}", " } "]);
    }
    s
}
fn query_text(rng: &mut Rng, wild: bool) -> String {
    match rng.below(10) {
        0 => {
            let mut s = String::from("ADD ANNOTATION");
            if rng.chance(1, 2) {
                s += " ?new";
            }
            let n = rng.below(4);
            if n > 0 {
                s += " WITH ";
                for _ in 0..n {
                    s += &assignment_text(rng, wild);
                    s += " ";
                }
            }
            if rng.chance(1, 2) {
                s += "{ ";
                s += &select_text(rng, 1, wild);
                s += " }";
            }
            s
        }
        1 => {
            let mut s = String::from("DELETE ANNOTATION");
            if rng.chance(1, 2) {
                s += " ?x";
            }
            if rng.chance(2, 3) {
                s += " { ";
                s += &select_text(rng, 1, wild);
                s += " }";
            }
            s
        }
        _ => select_text(rng, 2, wild),
    }
}

/// n nested unions (mode 0) or n nested sub-queries (mode 1), left open
fn deep_text(n: usize, mode: i64) -> String {
    if mode == 0 {
        format!("SELECT ANNOTATION WHERE {}", "[ ".repeat(n))
    } else {
        format!("SELECT ANNOTATION ?a WHERE ID \"x\"; {}", "{ SELECT ANNOTATION ?a WHERE ID \"x\"; ".repeat(n))
    }
}
fn req_text(s: &str) -> Sx {
    l(vec![a(0), text(s)])
}

// programmatic trees ---------------------------------------------------------
fn t_str(s: &str) -> Sx {
    text(s)
}
fn t_big(z: i128) -> Sx {
    e_big(z)
}
fn t_offset(rng: &mut Rng) -> Sx {
    let cur = |rng: &mut Rng| -> Sx {
        if rng.chance(1, 2) {
            l(vec![a(0), t_big(*rng.pick(&[0i128, 1, 7, 4294967296, 18446744073709551615]))])
        } else {
            l(vec![a(1), t_big(*rng.pick(&[0i128, -1, -12, -9223372036854775808]))])
        }
    };
    if rng.chance(1, 3) {
        l(vec![cur(rng), cur(rng)])
    } else {
        l(vec![])
    }
}
fn t_flt(rng: &mut Rng) -> Sx {
    let frac: Vec<Sx> = match rng.below(3) {
        0 => vec![],
        1 => vec![a(5)],
        _ => vec![a(2), a(5)],
    };
    l(vec![a(6), b(rng.chance(1, 3)), a(rng.below(1000) as i64), l(frac)])
}
fn t_dataop(rng: &mut Rng, wild: bool) -> Sx {
    let ints: &[i128] = &[0, 5, -5, 42, 9223372036854775807, -9223372036854775808];
    let dts = ["2022-01-01T00:00:00+00:00", "2021-12-31T23:59:59.500+02:00", "1999-06-15T12:00:00-05:00"];
    let strs: &[&str] = if wild { IDS } else { PLAIN_IDS };
    let leaf = |rng: &mut Rng| -> Sx {
        match rng.below(if wild { 7 } else { 6 }) {
            0 | 1 | 2 => l(vec![a(4), t_str(pk(rng, strs))]),
            3 | 4 | 5 => l(vec![a(5), t_big(*rng.pick(ints))]),
            _ => t_flt(rng),
        }
    };
    let base = match rng.below(if wild { 12 } else { 9 }) {
        0 => l(vec![a(0)]),
        1 => l(vec![a(2)]),
        2 => l(vec![a(3)]),
        3 | 4 | 5 => leaf(rng),
        6 | 7 => l(vec![a(7 + rng.below(4) as i64), t_big(*rng.pick(ints))]),
        8 => {
            let d = DateTime::parse_from_rfc3339(pk(rng, &dts)).unwrap().to_rfc3339();
            l(vec![a(12), a(rng.below(5) as i64), t_str(&d)])
        }
        9 => l(vec![a(1)]),
        10 => l(vec![a(11), a(rng.below(4) as i64), t_flt(rng)]),
        _ => l(vec![a(14), l((0..1 + rng.below(3)).map(|_| leaf(rng)).collect())]),
    };
    if rng.chance(1, 4) {
        l(vec![a(13), base])
    } else {
        base
    }
}
fn t_constraint(rng: &mut Rng, depth: usize, wild: bool) -> Sx {
    let strs: &[&str] = if wild { IDS } else { PLAIN_IDS };
    let s = |rng: &mut Rng| t_str(pk(rng, strs));
    let v = |rng: &mut Rng| if wild && rng.chance(1, 6) { t_str(pk(rng, IDS)) } else { t_str(pk(rng, VARS)) };
    let q = |rng: &mut Rng| a(if rng.chance(1, 3) { 1 } else { 0 });
    let d = |rng: &mut Rng, q: &Sx| -> Sx {
        if wild {
            a(rng.below(3) as i64)
        } else if q.int() == 1 && rng.chance(1, 2) {
            a(2)
        } else {
            a(1)
        }
    };
    let nk = if wild { 21 } else { 20 };
    loop {
        let k = rng.below(nk) as i64;
        let k = if k == 20 && !wild { 0 } else { k };
        return match k {
            0 => l(vec![a(0), s(rng)]),
            1 => {
                let qq = q(rng);
                let dd = d(rng, &qq);
                l(vec![a(1), s(rng), qq, dd, t_offset(rng)])
            }
            2 => l(vec![a(2), s(rng), q(rng), t_offset(rng)]),
            3 => l(vec![a(3), s(rng), q(rng)]),
            4 => l(vec![a(4), s(rng), s(rng), q(rng)]),
            5 => l(vec![a(5), if rng.chance(1, 3) { l(vec![]) } else { l(vec![s(rng)]) }]),
            6 => l(vec![a(6), v(rng), q(rng)]),
            7 => l(vec![a(7), v(rng), q(rng)]),
            8 => l(vec![a(8), v(rng), q(rng)]),
            9 => l(vec![a(9), v(rng), q(rng), t_offset(rng)]),
            10 => l(vec![a(10), v(rng)]),
            11 => l(vec![a(11), v(rng)]),
            12 => {
                let kind = if wild { rng.below(12) } else { *rng.pick(&[0usize, 1, 2, 3, 4, 5, 6, 7, 8, 9]) };
                l(vec![a(12), v(rng), a(kind as i64), b(!wild || rng.chance(3, 4))])
            }
            13 => l(vec![a(13), s(rng), s(rng), t_dataop(rng, wild), q(rng)]),
            14 => l(vec![a(14), t_dataop(rng, wild), q(rng)]),
            15 => {
                if !wild {
                    continue;
                }
                l(vec![a(15), v(rng), t_dataop(rng, wild), q(rng)])
            }
            16 => l(vec![a(16), s(rng), b(rng.chance(1, 3))]),
            17 => l(vec![a(17), t_str(pk(rng, &["x+", "a.*b", "[0-9]+", "\\d{2}", "a|b", "colou?r"]))]),
            18 => {
                if depth == 0 {
                    continue;
                }
                l(vec![a(18), l((0..1 + rng.below(3)).map(|_| t_constraint(rng, depth - 1, wild)).collect())])
            }
            19 => {
                let qq = q(rng);
                let dd = d(rng, &qq);
                l(vec![a(19), v(rng), qq, dd, t_offset(rng)])
            }
            _ => l(vec![
                a(20),
                t_big(*rng.pick(&[0i128, 3, -3, 100, 9223372036854775807, -9223372036854775808])),
                t_big(*rng.pick(&[0i128, 5, -1, 9223372036854775807])),
            ]),
        };
    }
}
fn t_query(rng: &mut Rng, depth: usize, top: bool, wild: bool) -> Sx {
    let qt = if top && rng.chance(1, 8) { 1 } else { 0 };
    let name = if rng.chance(3, 4) {
        l(vec![if wild && rng.chance(1, 8) { t_str(pk(rng, IDS)) } else { t_str(pk(rng, VARS)) }])
    } else {
        l(vec![])
    };
    let nc = if qt == 0 { rng.below(4) } else { 0 };
    let cs: Vec<Sx> = (0..nc).map(|_| t_constraint(rng, 2, wild)).collect();
    let ns = if depth > 0 && (qt == 1 || rng.chance(1, 3)) { 1 + rng.below(2) } else { 0 };
    let subs: Vec<Sx> = (0..ns).map(|_| t_query(rng, depth - 1, false, wild)).collect();
    l(vec![
        name,
        a(qt),
        b(qt == 0 && !top && rng.chance(1, 4)),
        a(if qt == 0 { rng.below(6) as i64 } else { 0 }),
        l(vec![]),
        l(cs),
        l(vec![]),
        l(subs),
        l(vec![]),
    ])
}

pub fn generate(out: &mut Out, tier: &str, seed: u64) {
    let thorough = tier == "thorough";
    let ctx = Ctx::new();
    let mut seen: std::collections::HashSet<String> = std::collections::HashSet::new();
    let mut emit = |out: &mut Out, req: Sx, key: &str| {
        let line = req.to_string();
        if !seen.insert(line) {
            return;
        }
        let (i, o, nt) = ctx.exec(&req);
        out.case(&i, &o, nt, &req);
        out.count(key);
    };
    let mut rng = Rng::new(seed);

    // 1. every keyword alone, after each query head, with and without operand / terminator
    let heads = ["", "SELECT ", "SELECT ANNOTATION ", "SELECT ANNOTATION ?a WHERE ", "SELECT DATA WHERE [ ", "ADD ", "ADD ANNOTATION ", "ADD ANNOTATION WITH ", "DELETE ", "DELETE ANNOTATION ", "SELECT TEXT ?t { ", "SELECT TEXT ?t WHERE ID x; { SELECT ANNOTATION WHERE "];
    let tails = ["", " ", ";", " x", " x;", " \"x\";", " ?x;", " AS", " AS METADATA", " AS METADATA x;", " x y", " x y = 1;", " = 1;", "\u{a0}", "\u{2003}x;", " }", " ]"];
    for h in heads {
        for k in KEYWORDS {
            for t in tails {
                emit(out, req_text(&format!("{}{}{}", h, k, t)), "keyword_operands");
            }
        }
    }

    // 2. numeric literals of every length and sign in every numeric position
    let ctxs = [
        "SELECT DATA WHERE VALUE = {};",
        "SELECT DATA WHERE VALUE != {};",
        "SELECT DATA WHERE VALUE > {};",
        "SELECT DATA WHERE VALUE <= {};",
        "SELECT ANNOTATION WHERE DATA s k >= {};",
        "SELECT ANNOTATION WHERE DATA s k = 1|{};",
        "SELECT ANNOTATION WHERE LIMIT {};",
        "SELECT ANNOTATION WHERE LIMIT 1 {};",
        "SELECT ANNOTATION WHERE RESOURCE r OFFSET {} -1;",
        "SELECT ANNOTATION WHERE RESOURCE r OFFSET 0 {};",
        "ADD ANNOTATION WITH DATA s k {};",
        "ADD ANNOTATION WITH TARGET ?x OFFSET {};",
    ];
    for c in ctxs {
        for sign in ["", "-", "+", "--", "-+"] {
            for digit in ['9', '1', '0'] {
                for n in 0..=22usize {
                    let lit: String = format!("{}{}", sign, std::iter::repeat(digit).take(n).collect::<String>());
                    emit(out, req_text(&c.replace("{}", &lit)), "numeric_literals");
                }
            }
            for lit in ["9223372036854775807", "9223372036854775808", "18446744073709551615", "18446744073709551616", "1.5", "1.", ".5", "1e5", "0x10", "1_000", "１２"] {
                emit(out, req_text(&c.replace("{}", &format!("{}{}", sign, lit))), "numeric_literals");
            }
        }
    }

    // 3. every operator with every value surface
    for op in OPS {
        for v in VALUES {
            emit(out, req_text(&format!("SELECT DATA WHERE VALUE {} {};", op, v)), "operator_value");
            emit(out, req_text(&format!("SELECT ANNOTATION ?a WHERE DATA \"s\" k {} {};", op, v)), "operator_value");
        }
    }
    for v in VALUES {
        emit(out, req_text(&format!("ADD ANNOTATION WITH DATA s k {};", v)), "assignment_value");
    }
    // every identifier of the pool in every quoted / unquoted position
    for i in IDS {
        for t in ["SELECT ANNOTATION WHERE ID {};", "SELECT ANNOTATION WHERE ANNOTATION {};", "SELECT ANNOTATION WHERE RESOURCE AS METADATA {};", "SELECT ANNOTATION WHERE ANNOTATION AS METADATA RECURSIVE {};", "SELECT ANNOTATION WHERE DATASET {};", "SELECT ANNOTATION WHERE DATA {} k;", "SELECT ANNOTATION WHERE DATA s {} = 1;", "SELECT ANNOTATION WHERE TEXT {};", "SELECT ANNOTATION WHERE TEXT AS NOCASE {};", "SELECT ANNOTATION WHERE TEXT AS REGEX {};", "SELECT ANNOTATION WHERE SUBSTORE {};", "SELECT ANNOTATION WHERE VALUE = {};", "SELECT ANNOTATION ?{} WHERE ID x;", "SELECT ANNOTATION WHERE KEY ?{};", "SELECT ANNOTATION WHERE TEXT ?{};"] {
            emit(out, req_text(&t.replace("{}", i)), "identifier_positions");
            emit(out, req_text(&t.replace("{}", &format!("\"{}\"", i))), "identifier_positions");
        }
    }

    // 4. grammar-derived queries, their truncations at every character, single-character edits
    let nq = if thorough { 6000 } else { 700 };
    for qi in 0..nq {
        let wild = qi % 3 == 0;
        let s = query_text(&mut rng, wild);
        emit(out, req_text(&s), "grammar_query");
        let idx: Vec<usize> = s.char_indices().map(|(i, _)| i).collect();
        if qi % 2 == 0 {
            for &i in &idx {
                emit(out, req_text(&s[..i]), "truncation");
            }
        }
        let nmut = if thorough { 24 } else { 12 };
        for _ in 0..nmut {
            if idx.is_empty() {
                break;
            }
            let p = idx[rng.below(idx.len())];
            let c = *rng.pick(SPECIAL);
            let nxt = p + s[p..].chars().next().map(|c| c.len_utf8()).unwrap_or(0);
            let m = match rng.below(3) {
                0 => format!("{}{}{}", &s[..p], c, &s[nxt..]),
                1 => format!("{}{}{}", &s[..p], c, &s[p..]),
                _ => format!("{}{}", &s[..p], &s[nxt..]),
            };
            emit(out, req_text(&m), "single_edit");
        }
    }
    // exhaustive edits of a few fixed queries: every position x every special character, substitution and insertion
    let fixed = [
        "SELECT ANNOTATION ?a WHERE DATA \"s\" \"k\" = \"v\"; { SELECT TEXT ?t WHERE RELATION ?a EMBEDS; }",
        "@x SELECT OPTIONAL DATA ?d WHERE [ ID a; OR RESOURCE AS METADATA r OFFSET 1 -2; ] LIMIT 3;",
        "ADD ANNOTATION ?n WITH ID \"i\"; DATA s k 5; TARGET ?t OFFSET 0 -0; { SELECT TEXT ?t WHERE TEXT AS NOCASE \"w\"; | SELECT KEY ?k }",
    ];
    for (fi, f) in fixed.iter().enumerate() {
        if !thorough && fi > 0 {
            // the quick tier covers the first one completely, the others by the random edits above
            emit(out, req_text(f), "fixed_query");
            continue;
        }
        let idx: Vec<usize> = f.char_indices().map(|(i, _)| i).collect();
        for &p in &idx {
            emit(out, req_text(&f[..p]), "truncation");
            let nxt = p + f[p..].chars().next().unwrap().len_utf8();
            emit(out, req_text(&format!("{}{}", &f[..p], &f[nxt..])), "exhaustive_edit");
            for &c in SPECIAL {
                emit(out, req_text(&format!("{}{}{}", &f[..p], c, &f[nxt..])), "exhaustive_edit");
                emit(out, req_text(&format!("{}{}{}", &f[..p], c, &f[p..])), "exhaustive_edit");
            }
        }
    }
    // arbitrary short strings over the special alphabet
    let nr = if thorough { 40000 } else { 3000 };
    for _ in 0..nr {
        let n = rng.below(12);
        let mut s = String::new();
        for _ in 0..n {
            if rng.chance(1, 3) {
                s += pk(&mut rng, KEYWORDS);
                s.push(' ');
            } else {
                s.push(*rng.pick(SPECIAL));
            }
        }
        emit(out, req_text(&s), "random_string");
    }

    // deep nesting in a child process (a stack overflow cannot be caught)
    for (n, mode) in [(40, 0), (40, 1), (20000, 0), (20000, 1)] {
        emit(out, l(vec![a(2), a(n), a(mode)]), "deep_nesting_child_process");
    }

    // 4b. long queries with 2-, 3- and 4-byte characters at every byte alignment: error paths that
    // quote or cut the remaining query text by byte count must stay on character boundaries.
    // {P} = 0..3 ASCII characters shifting everything behind it.
    let long_templates = [
        "SELECT ANNOTATION ?a WHERE DATA \"{P}sét\" \"{P}ключ\" = \"{P}日本語のテキスト 😀 données älter Größe\"; TEXT \"{P}naïve café 😀😀 字 ñandú\"; { SELECT TEXT ?t WHERE RESOURCE \"{P}ресурс-😀-字\" OFFSET 1 -2; }",
        "@{P}été SELECT OPTIONAL TEXT ?t WHERE [ ID \"{P}идентификатор-😀\"; OR TEXT AS NOCASE \"{P}ÉLÉPHANT 象 🐘 слон\"; ] ANNOTATION AS METADATA RECURSIVE \"{P}注釈-é-😀\" OFFSET 0 -0; LIMIT 10 20;",
        "ADD ANNOTATION ?n WITH ID \"{P}nœud-😀-узел\"; DATA \"{P}ensemble-é\" \"{P}clé-鍵\" \"{P}valeur 値 😀 значение\"; TARGET ?t OFFSET 3 -1; { SELECT TEXT ?t WHERE TEXT AS REGEX \"{P}é+😀*字?\"; }",
        "SELECT DATA ?d WHERE VALUE != {P}ünquötéd-😀-值-значение-ohne-leerzeichen-ありがとう; DATASET {P}ensemble-données-😀-集合; KEY AS TARGET ?{P}clé😀;",
    ];
    let ins_chars = ['"', ';', ' ', '\\', 'é', '字', '😀', '\u{a0}', ']', '}'];
    let nshift = 4;
    for (ti, tpl) in long_templates.iter().enumerate() {
        for k in 0..nshift {
            if !thorough && ti >= 2 && k % 2 == 1 {
                continue;
            }
            let q = tpl.replace("{P}", &"x".repeat(k));
            emit(out, req_text(&q), "long_multibyte_query");
            let idx: Vec<usize> = q.char_indices().map(|(i, _)| i).collect();
            for &p in &idx {
                let nxt = p + q[p..].chars().next().unwrap().len_utf8();
                emit(out, req_text(&q[..p]), "long_multibyte_prefix");
                emit(out, req_text(&format!("{}{}", &q[..p], &q[nxt..])), "long_multibyte_deletion");
                let nins = if thorough { ins_chars.len() } else { 3 };
                for j in 0..nins {
                    let c = if thorough { ins_chars[j] } else { ins_chars[(p + j * 3 + k) % ins_chars.len()] };
                    emit(out, req_text(&format!("{}{}{}", &q[..p], c, &q[p..])), "long_multibyte_insertion");
                }
            }
        }
    }
    // unterminated strings and separator-free tokens of 30..60 bytes (and a few longer ones)
    let fills: [&[char]; 6] = [&['é'], &['字'], &['😀'], &['a', 'é', '字', '😀'], &['😀', 'a', 'a', 'é'], &['ж', '字', 'b']];
    let heads = ["SELECT ANNOTATION WHERE ID ", "SELECT ANNOTATION WHERE DATA s k = ", "SELECT ANNOTATION WHERE TEXT AS NOCASE ", "ADD ANNOTATION WITH DATA s ", "SELECT ANNOTATION WHERE RESOURCE r OFFSET 1 ", "SELECT ANNOTATION WHERE LIMIT ", "SELECT TEXT WHERE RELATION ?x "];
    for head in heads {
        for fill in fills.iter() {
            for k in 0..nshift {
                for open in ["\"", ""] {
                    let mut nbytes = 26;
                    while nbytes <= 70 {
                        let mut body = "x".repeat(k);
                        let mut i = 0;
                        while body.len() < nbytes {
                            body.push(fill[i % fill.len()]);
                            i += 1;
                        }
                        emit(out, req_text(&format!("{}{}{}", head, open, body)), "unterminated_multibyte");
                        nbytes += if thorough { 1 } else { 3 };
                    }
                }
            }
        }
    }

    // 4c. collection constraints over the fixed store: every sequence of up to 3 items (handles of both
    // data sets / resources, coinciding handle numbers, any order, repeats) x qualifier x depth
    let universes: [(i64, Vec<(i64, i64)>); 5] = [
        (0, (0..5).map(|h| (h, 0)).collect()),
        (1, vec![(0, 0), (0, 1), (0, 2), (1, 0), (1, 1), (1, 2), (1, 3)]),
        (2, vec![(0, 0), (0, 1), (1, 0), (1, 1), (1, 2)]),
        (3, vec![(0, 0), (1, 0)]),
        (4, vec![(0, 0), (0, 1), (0, 2), (1, 0), (1, 1)]),
    ];
    for (kind, uni) in universes.iter() {
        let mut seqs: Vec<Vec<(i64, i64)>> = uni.iter().map(|x| vec![*x]).collect();
        let mut frontier = seqs.clone();
        for _ in 0..2 {
            let mut next = Vec::new();
            for p in &frontier {
                for x in uni {
                    let mut q = p.clone();
                    q.push(*x);
                    next.push(q);
                }
            }
            seqs.extend(next.iter().cloned());
            frontier = next;
        }
        // one item that does not exist
        seqs.push(vec![uni[0], (9, 9)]);
        seqs.push(vec![(uni[uni.len() - 1].0, 9), uni[0]]);
        for sq in &seqs {
            let variants: &[(i64, i64)] = if *kind == 0 { &[(0, 1), (1, 1), (1, 2)] } else { &[(0, 1), (1, 1)] };
            for (qual, depth) in variants {
                if !thorough && sq.len() == 3 && (sq[0].0 + sq[1].1 + sq[2].1 + qual) % 2 == 1 {
                    continue;
                }
                let items: Vec<Sx> = sq.iter().map(|(x, y)| l(vec![a(*x), a(*y)])).collect();
                emit(out, l(vec![a(3), a(*kind), a(*qual), a(*depth), l(items)]), "collection_constraint");
            }
        }
    }

    // 5. queries built through the public API
    let nb = if thorough { 60000 } else { 6000 };
    for i in 0..nb {
        let wild = i % 4 == 3;
        let t = t_query(&mut rng, 2, true, wild);
        if i % 3 == 0 {
            // the same tree attached through constrain() (all / second half of the constraints)
            emit(out, l(vec![a(4), t.clone(), a(1 + (i / 3 % 2) as i64)]), "built_query_constrain");
        }
        emit(out, l(vec![a(1), t]), if wild { "built_query_wild" } else { "built_query" });
    }
    // parsed queries narrowed through constrain()
    let parsed = [
        "SELECT ANNOTATION ?a",
        "SELECT ANNOTATION ?a WHERE ID \"x\";",
        "@top SELECT TEXT ?t WHERE @c1 RESOURCE AS METADATA \"r\" OFFSET 1 -2; DATA s k != 5;",
        "SELECT ANNOTATION ?a WHERE [ ID x; OR ID y; ] { SELECT OPTIONAL DATA ?d WHERE ANNOTATION ?a; | SELECT TEXT ?t }",
        "SELECT DATA ?d { SELECT KEY ?k }",
        "SELECT RESOURCE",
    ];
    let np = if thorough { 6000 } else { 600 };
    for i in 0..np {
        let qtext = if i % 2 == 0 { parsed[(i / 2) % parsed.len()].to_string() } else { select_text(&mut rng, 1, false) };
        let n = 1 + rng.below(3);
        let extra: Vec<Sx> = (0..n).map(|_| t_constraint(&mut rng, 1, false)).collect();
        emit(out, l(vec![a(5), text(&qtext), l(extra)]), "parsed_query_constrain");
    }
}

pub const RULE: &str = "Texts: every keyword (46) after every query head (12) with every operand tail (17); numeric literals with signs {'', -, +, --, -+} and 0..22 digits (and range boundaries) in every numeric position (VALUE/DATA operators, list items, LIMIT, OFFSET cursors, assignments); every operator x every value surface; every identifier of a 38-string pool (reserved words, ?-prefixed, quotes, backslashes, separators, multi-byte) quoted and unquoted in every argument position; seeded grammar-derived queries (SELECT/ADD/DELETE, attributes, qualifiers, offsets, unions, sub-queries, varied white space incl. multi-byte) with their truncation at every character and single-character substitutions/insertions/deletions from a 27-character special set (braces, brackets, pipe, quote, backslash, ?, @, ASCII and multi-byte white space, NUL, non-BMP); exhaustive position x character edits of fixed queries; random strings over keywords and special characters; four long queries with 2-, 3- and 4-byte characters shifted by 0..3 ASCII characters, each with its truncation at every character, every single-character deletion and insertions of quote/separator/multi-byte characters at every position; unterminated quoted strings and separator-free tokens of 26..70 bytes over six multi-byte fill patterns x shift 0..3 behind seven argument positions (error paths that cut the remaining text by byte count). Built queries: random trees over all 21 parser-level constraint variants, all data operators, nested unions and sub-queries, built with Query::new/with_constraint/with_subquery, a third of them also with all or half of the constraints (sub-queries included) attached through constrain(), parsed queries (fixed and grammar-derived) narrowed by 1..3 constrain() calls, a quarter of the built trees with strings from the pool (known classes). Collection constraints (Annotations, Data, Keys, Resources, TextSelections with Handles over a fixed store with two resources and two data sets whose handle numbers coincide): every sequence of up to 3 items x qualifier x depth, printed text compared with the model's printing of what the store says about each item, and the parse of the printed text compared with the union of the items' constraints. Each case: outcome class and tree of Query::parse, TryFrom, printed text, and tree + text of parsing/printing the printed text. Non-trivial: parsed (or built), printed and parsed back. distinct = distinct request lines.";

pub const EXHAUSTIVE: bool = false;
