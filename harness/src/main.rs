mod c04;
mod c06;
mod c08;
mod c12;
mod c13;
mod out;
mod rng;
mod sx;

use std::io::BufRead;

/// harness <property> gen <tier> <seed> <cases-out> <stats-out>
/// harness <property> replay <requests-file> <cases-out> <stats-out>
fn main() {
    let args: Vec<String> = std::env::args().collect();
    if args.len() < 6 {
        eprintln!("usage: harness <property> gen <tier> <seed> <cases> <stats> | harness <property> replay <requests> <cases> <stats>");
        std::process::exit(2);
    }
    std::panic::set_hook(Box::new(|_| {}));
    let prop = args[1].as_str();
    let mode = args[2].as_str();
    if mode == "replay" {
        let mut out = out::Out::new(&args[4], &args[5]);
        let f = std::io::BufReader::new(std::fs::File::open(&args[3]).expect("requests file"));
        let reqs: Vec<sx::Sx> = f
            .lines()
            .filter_map(|l| l.ok())
            .filter(|l| !l.trim().is_empty() && !l.starts_with('#'))
            .filter_map(|l| sx::parse(&l))
            .collect();
        match prop {
            "C13" => {
                let ctx = c13::Ctx::new();
                for r in &reqs {
                    let (i, o, nt) = ctx.exec(r);
                    out.case(&i, &o, nt, r);
                }
            }
            "C04" => {
                let ctx = c04::Ctx::new();
                for r in &reqs {
                    let (i, o, nt) = ctx.exec(r);
                    out.case(&i, &o, nt, r);
                }
            }
            "C12" => {
                let ctx = c12::Ctx::new();
                for r in &reqs {
                    let (i, o, nt) = ctx.exec(r);
                    out.case(&i, &o, nt, r);
                }
            }
            "C06" => {
                let ctx = c06::Ctx::new();
                for r in &reqs {
                    let (i, o, nt) = ctx.exec(r);
                    out.case(&i, &o, nt, r);
                }
            }
            "C08" => {
                let ctx = c08::Ctx::new();
                for r in &reqs {
                    let (i, o, nt) = ctx.exec(r);
                    out.case(&i, &o, nt, r);
                }
            }
            _ => {
                eprintln!("unknown property {}", prop);
                std::process::exit(2);
            }
        }
        out.finish("replay of stored requests", false);
        return;
    }
    let tier = args[3].as_str();
    let seed: u64 = args[4].parse().unwrap_or(0);
    let mut out = out::Out::new(&args[5], &args[6]);
    match prop {
        "C13" => {
            c13::generate(&mut out, tier, seed);
            out.finish(c13::RULE, true);
        }
        "C04" => {
            c04::generate(&mut out, tier, seed);
            out.finish(c04::RULE, true);
        }
        "C12" => {
            c12::generate(&mut out, tier, seed);
            out.finish(c12::RULE, false);
        }
        "C06" => {
            c06::generate(&mut out, tier, seed);
            out.finish(c06::RULE, true);
        }
        "C08" => {
            c08::generate(&mut out, tier, seed);
            out.finish(c08::RULE, true);
        }
        _ => {
            eprintln!("unknown property {}", prop);
            std::process::exit(2);
        }
    }
}
