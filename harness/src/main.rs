mod dispatch;
mod out;
mod rng;
mod sx;
include!("mods.rs");

use std::io::BufRead;

/// harness <property> gen <tier> <seed> <cases-out> <stats-out>
/// harness <property> replay <requests-file> <cases-out> <stats-out>
fn main() {
    let args: Vec<String> = std::env::args().collect();
    if args.len() < 6 {
        eprintln!("usage: harness <property> gen <tier> <seed> <cases> <stats> | harness <property> replay <requests> <cases> <stats>");
        std::process::exit(2);
    }
    std::panic::set_hook(Box::new(|_| {}));
    let prop = args[1].as_str();
    let mode = args[2].as_str();
    if mode == "replay" {
        let mut out = out::Out::new(&args[4], &args[5]);
        let f = std::io::BufReader::new(std::fs::File::open(&args[3]).expect("requests file"));
        let reqs: Vec<sx::Sx> = f
            .lines()
            .filter_map(|l| l.ok())
            .filter(|l| !l.trim().is_empty() && !l.starts_with('#'))
            .filter_map(|l| sx::parse(&l))
            .collect();
        if !dispatch::replay(prop, &reqs, &mut out) {
            eprintln!("unknown property {}", prop);
            std::process::exit(2);
        }
        out.finish("replay of stored requests", false);
        return;
    }
    let tier = args[3].as_str();
    let seed: u64 = args[4].parse().unwrap_or(0);
    let mut out = out::Out::new(&args[5], &args[6]);
    match dispatch::generate(prop, &mut out, tier, seed) {
        Some((rule, exhaustive)) => out.finish(rule, exhaustive),
        None => {
            eprintln!("unknown property {}", prop);
            std::process::exit(2);
        }
    }
}
